"""C16 — HTTP response size caps are enforced (E1: exhaustive enumeration around every boundary).

Seam: a real ``RpcServer`` + ``make_wsgi_app`` worker (``vf.kit.c11_sized.Worker``) with an in-memory
``ExternalStorage`` (``vf.kit.transports.MemStorage``, which records the size of every upload) driven by the real
HTTP client; a wire tap records, per HTTP response, the raw body and the uploads the storage received while that
response was being produced.  ``vgi_rpc.external.fetch_url`` is rebound to the store; the lazy ``tenacity`` import is
served by the documented stub.  Service: ``SizedSvc`` (``blob(n, nlogs)`` unary, ``exch`` exchange, ``produce``
producer with scripted batch sizes and 0-2 log batches per result).

Space: for every (kind, sizes, log count, externalisation config) an *uncapped reference run* measures, for that very
response, the framed identity body size ``F``, the logical batch size ``Lg`` (``get_total_buffer_size`` of an
identically built batch), the raw framed upload size ``raw`` and the bytes the store received ``recv`` (differs from
raw under compression).  The cap grid is then  W in {None} + {F_inline, F_pointer} x {-1, 0, +1}  and
E in {None} + {Lg, raw, recv, (producer: every cumulative mix)} x {-1, 0, +1}: every cap pair of the grid is executed.
Externalisation configs: off, storage with threshold {1, exactly Lg (externalises), Lg+1 (does not)}, with and
without upload compression.

Oracle (weakest reading of the statement):
  U1  a *successful* unary / exchange response has min(len(wire body), len(decoded body)) <= W;
  U2  the bytes the store received during ONE response never exceed E — if they do and the response succeeded the
      key is ``ext-cap-exceeded:<kind>:<degree>``, if the response was turned into an error afterwards the key is
      ``ext-overshoot-uploaded-before-refusal:<kind>:<degree>`` ("an overshoot is refused before upload"); degree =
      ``compression-expansion`` when the pre-compression upload fits the cap but the compressed object is larger,
      ``framing-gap`` when the logical buffer bytes of the uploaded batches fit the cap (only framing/log bytes push
      the upload over it), else ``logical-overshoot``;
  U3  a failure must be an ``RpcError`` naming the cap that is configured (``max_response_bytes`` /
      ``max_externalized_response_bytes``);
  U4  no spurious refusal: when W >= F_ref and E >= raw_ref (or the caps are None) the call must succeed with the
      exact payload — otherwise "refuse everything" would satisfy U1-U3;
  P1  producer: every turn obeys the C11 overshoot rule on the wire (pointer batches are the data batches) and U2;
      the client sees a correct prefix of the program's batches, complete unless an RpcError naming the external cap
      (only the external cap is hard for producers).
Compressed response bodies are judged on min(wire, decoded) so neither measuring convention can raise a false alarm.
"""

from __future__ import annotations

import hashlib
import itertools
import json
import os
import sys
from typing import Any

from vf.core.runner import Ctx

PROPERTY = "C16"
LEVEL = "exploration"
ENGINE = "E1-SEQ"
SHARDS = {"quick": 8, "thorough": 16}
RULE = (
    "kinds {unary blob, exchange (2 turns), producer (1-3 steps, finish separate/same tick)} x payload sizes {8,300,2000} "
    "(thorough +70000) x log batches {0,1,2} x externalisation {off, threshold 1, threshold = logical size, threshold = "
    "logical size + 1, threshold 1 + zstd upload compression (thorough + gzip)} x response codec {identity (thorough + "
    "zstd)} x the full grid W in {None, F_inline-1..+1, F_pointer-1..+1} x E in {None, Lg-1..+1, raw-1..+1, recv-1..+1, "
    "producer: every cumulative raw+Lg mix -1..+1}, F/Lg/raw/recv measured by an uncapped reference run of the same "
    "call. One evaluation = one call under one cap pair judged by U1-U4/P1; non-trivial class = (kind, externalised?, "
    "W relation, E relation, outcome)"
)
TECHNIQUE = "exhaustive enumeration of cap pairs at -1/0/+1 of every measured size (framed, logical, raw upload, received upload) for unary, exchange and producer responses; storage-side byte accounting per HTTP response"
LEVEL_TEXT = (
    "Every cap pair placed one byte below, on and above each size that either cap is compared with (or should be compared "
    "with) is executed against the real server for every result shape of the grammar, and the bytes on the wire and at "
    "the storage backend are measured independently of the server's own accounting. Exploration level: finite "
    "input/configuration grammar, sequential."
)
LEVEL_NOTE = (
    "In-process WSGI worker and in-memory storage; the reference measurement assumes response sizes are deterministic "
    "for a given call (verified: a size mismatch between two uncapped runs is reported as a harness note)."
)
ASSUMPTIONS = [
    "in-process WSGI worker (make_sync_client) behaves like a deployed worker for cap logic",
    "tenacity is replaced by vf/kit/stubs/tenacity (no sleeping); real tenacity retries as documented",
    "bytes uploaded = bytes handed to ExternalStorage.upload()",
]

STUBS = os.path.join(os.path.dirname(os.path.dirname(os.path.abspath(__file__))), "kit", "stubs")
BIG = 10**9
WCAP = "max_response_bytes"
ECAP = "max_externalized_response_bytes"


def _stub_path() -> None:
    try:
        import tenacity  # noqa: F401
    except ImportError:
        if STUBS not in sys.path:
            sys.path.append(STUBS)


# ------------------------------------------------------------------------------------------ world


def make_world(ext: dict[str, Any] | None, W: Any, E: Any, codec: str = "identity") -> Any:
    """(worker, storage) for one configuration.  ext = None | {"thr": int, "comp": None|"zstd"|"gzip"}."""
    from vf.kit import c11_sized as Z
    from vf.kit.transports import MemStorage
    from vgi_rpc.external import Compression, ExternalLocationConfig

    st = MemStorage()
    skw: dict[str, Any] = {"server_id": "srv000000000"}  # fixed 12-char id: log batches then compress identically
    if ext is not None:
        comp = Compression(ext["comp"], 3) if ext.get("comp") else None
        skw["external_location"] = ExternalLocationConfig(storage=st, externalize_threshold_bytes=ext["thr"], compression=comp)
    w = Z.Worker(
        "A", storage=st, server_kwargs=skw, max_response_bytes=W, max_externalized_response_bytes=E,
        compression_level=None if codec == "identity" else 1, accept=None if codec == "identity" else codec,
    )
    return w, st


def digest(b: bytes) -> str:
    return hashlib.sha256(b).hexdigest()[:16]


def run_call(kind: str, prm: dict[str, Any], ext: Any, W: Any, E: Any, codec: str = "identity") -> dict[str, Any]:
    """Execute one call; returns {"events": [...], "log": tap log, "storage": st}.

    events: ["ok", digest, len] per delivered result/batch, ["err", type, message] for an RpcError,
    ["exc", type, text] for anything else.
    """
    from vf.kit import c11_sized as Z
    from vf.kit.transports import bound_fetch
    from vgi_rpc.external import ExternalLocationConfig
    from vgi_rpc.rpc import AnnotatedBatch, RpcError
    import pyarrow as pa

    _stub_path()
    w, st = make_world(ext, W, E, codec)
    ev: list[Any] = []
    marks: list[int] = []  # tap-log index at which each exchange turn / the producer iteration starts
    with Z.pinned_entropy(), bound_fetch(st), w.connect(external_location=ExternalLocationConfig()) as p:
        try:
            if kind == "unary":
                r = p.blob(n=prm["n"], nlogs=prm["nlogs"], noise=prm.get("noise", 0))
                ev.append(["ok", digest(r), len(r)])
            elif kind == "exchange":
                sess = p.exch(spec=json.dumps({"steps": prm["steps"], "noise": prm.get("noise", 0)}))
                for t in range(len(prm["steps"])):
                    marks.append(len(w.tap.log))
                    try:
                        ab = sess.exchange(AnnotatedBatch(batch=pa.RecordBatch.from_pydict({"x": [t + 1]}, schema=Z.IN_X)))
                        pv = ab.batch.column("p")[0].as_py()
                        ev.append(["ok", digest(pv), len(pv), ab.batch.column("x")[0].as_py()])
                    except RpcError as e:
                        ev.append(["err", e.error_type, e.error_message])
                        break  # the cursor did not advance; later turns would repeat this step
            else:
                sess = p.produce(spec=json.dumps({"steps": prm["steps"], "noise": prm.get("noise", 0)}))
                for ab in sess:
                    pv = ab.batch.column("p")[0].as_py()
                    ev.append(["ok", digest(pv), len(pv), ab.batch.column("k")[0].as_py()])
        except RpcError as e:
            ev.append(["err", e.error_type, e.error_message])
        except Exception as e:  # noqa: BLE001
            ev.append(["exc", type(e).__name__, str(e)[:300]])
    return {"events": ev, "log": list(w.tap.log), "storage": st, "marks": marks}


def expected_events(kind: str, prm: dict[str, Any]) -> list[Any]:
    from vf.kit import c11_sized as Z

    nz = prm.get("noise", 0)
    if kind == "unary":
        pv = Z.payload(7, prm["n"], nz)
        return [["ok", digest(pv), len(pv)]]
    out = []
    for k, (n, _l, fin) in enumerate(prm["steps"]):
        pv = Z.payload(k, n, nz)
        out.append(["ok", digest(pv), len(pv), (k + 1) if kind == "exchange" else k])
        if fin and kind == "producer":
            break
    return out


def logical_sizes(kind: str, prm: dict[str, Any]) -> list[int]:
    """get_total_buffer_size() of batches built here exactly like the service builds them (pyarrow only)."""
    import pyarrow as pa
    from vf.kit import c11_sized as Z

    nz = prm.get("noise", 0)
    if kind == "unary":
        return [pa.RecordBatch.from_arrays([pa.array([Z.payload(7, prm["n"], nz)], pa.binary())], names=["result"]).get_total_buffer_size()]
    out = []
    for k, (n, _l, _f) in enumerate(prm["steps"]):
        if kind == "exchange":
            b = pa.RecordBatch.from_pydict({"x": [k + 1], "p": [Z.payload(k, n, nz)]}, schema=Z.OUT_X)
        else:
            b = Z.batch_for(k, n, nz)
        out.append(b.get_total_buffer_size())
    return out


def response_entries(kind: str, res: dict[str, Any]) -> list[dict[str, Any]]:
    """The tap-log entries that are *results* (unary response / exchange turns / producer turns), not the exchange init."""
    log = res["log"]
    if kind == "exchange":
        return [e for e in log if e["path"].endswith("/exchange")]
    return log


def measure(kind: str, prm: dict[str, Any], ext: Any, codec: str) -> dict[str, Any]:
    """Uncapped reference run: per result response F (identity body bytes), recv (list), raw (list)."""
    from vf.kit import c11_sized as Z

    res = run_call(kind, prm, ext, None, None, codec)
    st = res["storage"]
    raws = [len(st.fetch(u)) for u in st.objects]
    del st.fetches[:]
    ents = response_entries(kind, res)
    per = []
    ui = 0
    for e in ents:
        n = len(e["uploads"])
        per.append({"F": len(Z.decode_body(e)), "recv": list(e["uploads"]), "raw": raws[ui : ui + n]})
        ui += n
    return {"events": res["events"], "per": per, "all_recv": list(st.uploads), "all_raw": raws}


# ------------------------------------------------------------------------------------------ oracle


def judge(ctx: Ctx, case: dict[str, Any], ref: dict[str, Any], ref_inline: dict[str, Any]) -> Any:
    from vf.kit import c11_sized as Z

    kind, prm, ext, W, E, codec = case["kind"], case["prm"], case["ext"], case["W"], case["E"], case["codec"]
    res = run_call(kind, prm, ext, W, E, codec)
    ev = res["events"]
    exp = expected_events(kind, prm)
    ents = response_entries(kind, res)
    tag = f"{kind}:{'ext' if ext else 'noext'}{'+' + ext['comp'] if ext and ext.get('comp') else ''}"
    outcome: list[Any] = []
    # --- anything that is not an RpcError is wrong for every kind
    for e in ev:
        if e[0] == "exc":
            ctx.fail(f"unexpected-exception:{kind}:{e[1]}", f"client raised {e[1]}: {e[2]} for {case}", case)
    # --- U2: storage bytes per response
    lgs = logical_sizes(kind, prm)
    step = 0  # producer: running step index over the turns
    for i, e in enumerate(ents):
        got = sum(e["uploads"])
        dec = Z.decode_body(e)
        if kind == "producer":
            t = Z.turn_cycles(dec)
            ext_lg = 0
            for is_ptr in t["ptr"]:
                if is_ptr and step < len(lgs):
                    ext_lg += lgs[step]
                step += 1
            failed = t["error"]
            if failed and len(e["uploads"]) > sum(t["ptr"]):
                ext_lg = -1  # an upload whose pointer never reached the wire: attribution unknown
        else:
            ext_lg = lgs[i] if (e["uploads"] and i < len(lgs)) else 0
            failed = e["headers"].get("x-vgi-rpc-error") == "true" or Z.turn_cycles(dec)["error"]
        if E is not None and got > E:
            # "framing-gap": the logical (buffer) bytes of the uploaded batches fit the cap, only IPC framing / log
            # batches push the upload over it; "logical-overshoot": even the logical bytes exceed the cap
            urls = list(res["storage"].objects)[e["up0"] : e["up0"] + len(e["uploads"])]
            raw_now = sum(len(res["storage"].fetch(u)) for u in urls)
            if raw_now <= E:
                degree = "compression-expansion"  # the pre-compression bytes fit; the compressed upload is larger
            else:
                degree = "framing-gap" if 0 <= ext_lg <= E else "logical-overshoot"
            key = ("ext-overshoot-uploaded-before-refusal:" if failed else "ext-cap-exceeded:") + f"{kind}:{degree}"
            ctx.fail(
                key,
                f"storage received {e['uploads']} = {got} bytes during one {kind} response with {ECAP}={E} "
                f"(logical bytes of the uploaded batches: {ext_lg}; "
                f"{'the response was then turned into an error' if failed else 'and the response succeeded'}); case {case}",
                case,
            )
            outcome.append("E-exceeded-" + ("err" if failed else "ok"))
    # --- per kind
    if kind in ("unary", "exchange"):
        if not ev:
            ctx.fail(f"no-outcome:{tag}", f"no result and no error for {case}", case)
        for i, g in enumerate(ev):
            x = exp[i] if i < len(exp) else ["unexpected-extra"]
            ent = ents[i] if i < len(ents) else None
            r = ref["per"][i] if i < len(ref["per"]) else None
            if g[0] == "ok":
                if g != x:
                    ctx.fail(f"wrong-result:{tag}", f"result {g} != expected {x} for {case}", case)
                if ent is not None and W is not None and min(len(ent["body"]), len(Z.decode_body(ent))) > W:
                    ctx.fail(
                        f"wire-cap-exceeded:{tag}",
                        f"successful {kind} response body is {len(ent['body'])} wire / {len(Z.decode_body(ent))} decoded bytes > {WCAP}={W}; case {case}",
                        case,
                    )
                    outcome.append("W-exceeded")
                outcome.append("ok")
            elif g[0] == "err":
                msg = g[2] or ""
                named_w = WCAP in msg and W is not None
                named_e = ECAP in msg and E is not None
                if not (named_w or named_e):
                    ctx.fail(f"unexpected-error:{tag}:{g[1]}", f"{kind} failed with {g[1]}: {msg[:200]!r} which names no configured cap; case {case}", case)
                # U4: clearly inside both caps -> must not be refused
                if r is not None and (W is None or W >= r["F"]) and (E is None or E >= sum(r["raw"])):
                    ctx.fail(
                        f"spurious-refusal:{tag}",
                        f"{kind} refused ({msg[:120]!r}) although the uncapped response is {r['F']} body bytes / {sum(r['raw'])} "
                        f"raw upload bytes with W={W} E={E}; case {case}",
                        case,
                    )
                outcome.append("refused-W" if named_w else "refused-E")
            else:
                ctx.fail(f"no-outcome:{tag}", f"turn {i} produced {g} for {case}", case)
    else:
        oks = [e for e in ev if e[0] == "ok"]
        errs = [e for e in ev if e[0] == "err"]
        if oks != exp[: len(oks)]:
            ctx.fail(f"wrong-batches:{tag}", f"delivered {oks} is not a prefix of {exp} for {case}", case)
        if errs:
            msg = errs[0][2] or ""
            if not (ECAP in msg and E is not None):
                ctx.fail(f"unexpected-error:{tag}:{errs[0][1]}", f"producer failed with {errs[0][1]}: {msg[:200]!r} (only the external cap is hard for producers); case {case}", case)
            if E is None or E >= sum(ref["all_raw"]):
                ctx.fail(f"spurious-refusal:{tag}", f"producer refused ({msg[:120]!r}) although all uploads of the uncapped run total {sum(ref['all_raw'])} <= E={E}; case {case}", case)
            outcome.append("refused-E")
        elif len(oks) != len(exp):
            ctx.fail(f"wrong-batches:{tag}", f"delivered {len(oks)} of {len(exp)} batches without an error for {case}", case)
        else:
            outcome.append("ok")
        for e in ents:
            j = Z.judge_turn(e, W)
            ctx.extra["turns"] += 1
            if j["violation"] is not None:
                ctx.fail(f"turn-overshoot:{j['violation'][0]}:{tag}", j["violation"][1] + f"; case {case}", case)
                outcome.append("turn-overshoot")
    # --- evidence classes
    uploaded = any(e["uploads"] for e in ents)
    r0 = ref["per"][0] if ref["per"] else {"F": 0, "raw": [], "recv": []}
    relW = "none" if W is None else ("lt" if W < r0["F"] else ("eq" if W == r0["F"] else "gt"))
    tot = sum(ref["all_raw"])
    relE = "none" if E is None else ("lt" if E < tot else ("eq" if E == tot else "gt"))
    ctx.extra["uploads_seen"] += int(uploaded)
    return (kind, bool(ext), bool(ext and ext.get("comp")), relW, relE, tuple(outcome)), tuple(outcome)


# ------------------------------------------------------------------------------------------ enumeration


def pm1(vals: Any) -> list[int]:
    s: set[int] = set()
    for v in vals:
        s.update({v - 1, v, v + 1})
    return sorted(x for x in s if x >= 1)


def items(ctx: Ctx) -> list[dict[str, Any]]:
    """Top-level items: (kind, prm, ext, codec); the cap grid is derived per item from its reference run."""
    sizes = (8, 300, 2000) if ctx.quick else (8, 300, 2000, 70000)
    out: list[dict[str, Any]] = []
    codecs = ("identity",) if ctx.quick else ("identity", "zstd")

    def exts(lg: int) -> list[Any]:
        e: list[Any] = [None, {"thr": 1, "comp": None}, {"thr": lg, "comp": None}, {"thr": lg + 1, "comp": None}, {"thr": 1, "comp": "zstd"}]
        if ctx.thorough:
            e.append({"thr": 1, "comp": "gzip"})
        return e

    for n in sizes:
        for nlogs in (0, 1, 2):
            for noise in (0, 1):
                prm = {"n": n, "nlogs": nlogs, "noise": noise}
                lg = logical_sizes("unary", prm)[0]
                for ext in exts(lg):
                    if noise and not (ext and ext.get("comp")):
                        continue  # incompressible payloads only matter where something is compressed
                    for codec in codecs:
                        out.append({"kind": "unary", "prm": prm, "ext": ext, "codec": codec})
    if ctx.quick:  # one large incompressible result under upload compression (compressed object > raw object)
        out.append({"kind": "unary", "prm": {"n": 70000, "nlogs": 0, "noise": 1}, "ext": {"thr": 1, "comp": "zstd"}, "codec": "identity"})
    xpairs = ((8, 300), (2000, 300)) if ctx.quick else tuple(itertools.product((8, 300, 2000), repeat=2)) + ((70000, 8),)
    for n1, n2 in xpairs:
        for nlogs in (0, 2) if ctx.quick else (0, 1, 2):
            prm = {"steps": [[n1, nlogs, 0], [n2, (nlogs + 1) % 3, 0]], "noise": 0}
            lgs = logical_sizes("exchange", prm)
            for ext in exts(lgs[0]):
                for codec in codecs:
                    out.append({"kind": "exchange", "prm": prm, "ext": ext, "codec": codec})
    psizes = (8, 300, 2000)
    for ln in (1, 2, 3):
        combos = list(itertools.product(psizes, repeat=ln))
        if ln == 3 and ctx.quick:
            combos = [(300, 300, 300), (8, 2000, 300), (2000, 8, 2000)]
        for combo in combos:
            for nlogs, fin in ((0, 0), (1, 1)) if (ln == 3 or ctx.quick) else ((0, 0), (1, 1), (2, 0), (0, 1)):
                steps = [[s, nlogs, 0] for s in combo]
                steps[-1][2] = fin
                prm = {"steps": steps, "noise": 0}
                pe: list[Any] = [None, {"thr": 1, "comp": None}, {"thr": 16 + 300, "comp": None}]
                if ctx.thorough or ln == 2:
                    pe.append({"thr": 1, "comp": "zstd"})
                for ext in pe:
                    out.append({"kind": "producer", "prm": prm, "ext": ext, "codec": "identity"})
    return out


def grid(ctx: Ctx, item: dict[str, Any], ref: dict[str, Any], ref_inline: dict[str, Any]) -> list[tuple[Any, Any]]:
    """The cap pairs of one item.  unary: full product.  exchange / producer (quick): every W with E in {None} + the
    raw-upload boundaries, and every E with W in {None, a generous W}; thorough: full product."""
    from vf.kit import c11_sized as Z

    kind, prm, ext = item["kind"], item["prm"], item["ext"]
    lgs = logical_sizes(kind, prm)
    fvals = {p["F"] for p in ref["per"]} | {p["F"] for p in ref_inline["per"]}
    w_core: list[Any] = [None]
    w_more: list[Any] = []
    if kind == "producer":
        # tell() values at the continue/stop decisions of a single big turn
        w_core += [1, BIG]
        big = run_call(kind, prm, ext, BIG, None, item["codec"])
        vals: set[int] = set()
        for e in big["log"]:
            t = Z.turn_cycles(Z.decode_body(e))
            if t["data"]:
                acc = t["data"][0][0] - t["data_stream_start"]
                for start, end, _k in t["data"]:
                    acc += end - start
                    vals.add(acc)
        w_more = pm1(vals) if ctx.thorough else pm1(sorted(vals)[:1])
    else:
        w_more = pm1(fvals)
        w_core.append(max(fvals) + 1)
    e_core: list[Any] = [None]
    e_more: list[Any] = []
    if ext is not None:
        raws, recvs = ref["all_raw"], ref["all_recv"]
        truth: set[int] = set()  # sizes of what is really uploaded
        other: set[int] = set()  # sizes the server compares with / received sizes
        if kind == "producer":
            thr = ext["thr"]
            xl = [lg for lg in lgs[: len(expected_events(kind, prm))] if lg >= thr]
            for i in range(len(xl)):
                for j in range(i, min(len(xl), len(raws))):
                    truth.add(sum(raws[i : j + 1]))
                    other.add(sum(raws[i:j]) + xl[j])
                    other.add(sum(recvs[i : j + 1]))
                    other.add(sum(xl[i : j + 1]))
        else:
            for p, lg in zip(ref["per"], lgs):
                other.add(lg)
                if p["raw"]:
                    truth.add(sum(p["raw"]))
                    other.add(sum(p["recv"]))
        e_core += pm1(truth)
        e_more = [x for x in pm1(other) if x not in e_core]
    else:
        e_core.append(1)
    Ws = w_core + [x for x in w_more if x not in w_core]
    Es = e_core + e_more
    if kind == "unary" or ctx.thorough:
        return [(W, E) for W in Ws for E in Es]
    pairs = [(W, E) for W in Ws for E in e_core]
    pairs += [(W, E) for W in w_core for E in e_more]
    return pairs


def run_item(ctx: Ctx, item: dict[str, Any], only: Any = None, sample_budget: list[int] | None = None) -> None:
    kind, prm, ext, codec = item["kind"], item["prm"], item["ext"], item["codec"]
    ref = measure(kind, prm, ext, codec)
    ref2 = measure(kind, prm, ext, codec)
    if [p["F"] for p in ref["per"]] != [p["F"] for p in ref2["per"]] or ref["all_recv"] != ref2["all_recv"]:
        ctx.note(f"reference sizes not deterministic for {item}")
        ctx.cap("nondeterministic reference sizes")
    ref_inline = measure(kind, prm, None, codec) if ext is not None else ref
    exp = expected_events(kind, prm)
    if ref["events"] != exp:
        ctx.fail(f"uncapped-run-wrong:{kind}", f"uncapped run delivered {ref['events']} != {exp} for {item}", dict(item, W=None, E=None))
    pairs = grid(ctx, item, ref, ref_inline) if only is None else [tuple(only)]
    ctx.extra["max_grid"] = max(ctx.extra["max_grid"], len(pairs))
    for W, E in pairs:
        case = dict(item, W=W, E=E)
        nt, oc = judge(ctx, case, ref, ref_inline)
        smp = None
        if sample_budget is not None and sample_budget[0] > 0 and W is not None and E is not None and ext is not None:
            sample_budget[0] -= 1
            smp = dict(case, outcome=list(oc), ref_sizes=ref["per"][:2])
        ctx.case(sample=smp, nontrivial=nt if (W is not None or E is not None) else None, outcome=(kind, oc))


def run(ctx: Ctx) -> None:
    _stub_path()
    ctx.extra.update({"turns": 0, "uploads_seen": 0, "max_grid": 0, "items": 0})
    budget = [1]
    for item in items(ctx):
        if not ctx.mine():
            continue
        ctx.extra["items"] += 1
        run_item(ctx, item, sample_budget=budget)
        if ctx.extra["items"] % 9 == 0:
            budget[0] += 1


def replay(ctx: Ctx, case: dict[str, Any]) -> None:
    _stub_path()
    ctx.extra.update({"turns": 0, "uploads_seen": 0, "max_grid": 0, "items": 0})
    item = {k: case[k] for k in ("kind", "prm", "ext", "codec")}
    run_item(ctx, item, only=(case["W"], case["E"]))

"""C33 — Launcher spawns once and socket workers never vanish under a client (E3: schedule exploration).

Part (a), launcher.  2-3 tasks run the REAL ``vgi_rpc.launcher.launch()`` (and through it the real ``_probe``,
``_require_socket_or_absent``, ``_unlink_stale_socket``, ``_write_meta``, ``_spawn_worker``, ``gc_state_dir``,
``compute_hash``) against a private state directory with REAL ``AF_UNIX`` socket inodes.  Replaced: ``FileLock``
(a cooperative per-path lock; non-blocking when ``timeout=0.0``), ``subprocess.Popen`` (the spawned worker is a new
scheduler task that runs the REAL ``serve_unix`` — ``_check_no_existing_listener``, ``_unlink_stale_unix_socket``, bind,
``on_bound`` printing ``UNIX:<path>``, and its ``finally`` clause — around a stub accept loop; ``bind`` / ``connect`` /
``unlink`` / ``close`` and the exit-time ``lstat`` of ``vgi_rpc.rpc._transport`` are scheduling points) and ``threading``
(shim; the stdout drain thread runs inline).  Inode numbers seen by ``_transport`` are model-owned (lowest free number,
free once the socket is closed and no dirent names it: the adversarial legal kernel policy, real on ext4).  Environment
events: the worker's idle timer fires (the stub accept loop returns and the real ``finally`` runs, step by step) or
the worker is killed (stale socket file stays; nothing further executes).  Scheduling points: lock acquire/release,
probe, unlink, Popen, the worker's file-system steps, readline (traced configurations: every source line of
``launch``/``gc_state_dir`` with the worker's steps glued).

  (once)  no worker is spawned for a command hash while a worker of that hash is alive and listening, at no step do
          two live workers exist for one hash, and nobody unlinks the socket path of a live worker (which would
          make the next launch spawn a second one);
  (ret)   every ``launch()`` returns exactly ``<state_dir>/<hash>.sock``; a worker was listening there at the
          moment of the call's last successful probe / spawn readiness, and — if no worker died during the call —
          still is when the call returns;
  (live)  no deadlock; ``launch()`` raises nothing.

Part (b), accept loop.  The REAL ``vgi_rpc.rpc._transport._serve_socket_threaded(server, sock, ...)`` with
``_transport.threading`` rebound (Thread, Timer on a virtual clock, Lock, Semaphore), a fake listening socket whose
``accept()`` is a scheduling point (returns a connection queued by a client-connect event, raises ``TimeoutError``
when a tick event says the 0.5 s accept time-out elapsed or when the whole system is quiescent — the virtual clock
then jumps to the next timer deadline —, ``OSError`` once closed) and a stub ``server.serve`` that blocks until the
client's disconnect event.  ``accept()`` time-outs (0.5 s in the real code) are delivered whenever a timer callback
started or completed since the previous time-out — only timer callbacks write the shutdown flag, every other
time-out re-reads an unchanged flag (stutter step) — and at global quiescence.  Environment: 1-2 clients (connect,
disconnect), clock advances; timers fire as environment tasks once due, at every position.

  (idle)  when the accept loop exits by itself, at some moment between its last ``accept()`` and its first action
          after the loop (join / return) — the exit decision lies in that interval — no accepted connection was
          being served and the virtual time since the last accepted connection ended (connection = accept until
          ``serve`` returned; end >= client's disconnect) was >= ``idle_timeout``; with no connection ever accepted,
          time since start >= ``max(idle_timeout, 60)`` (the documented startup grace).  With ``idle_timeout=None``
          the loop never exits by itself;
  (serve) every accepted connection is served exactly once, to completion (until the client disconnected), its
          transport closed, before the function returns;
  (live)  no deadlock, no exception out of the loop.
A connection still waiting in the listen backlog when the loop exits is *not* judged (counted in
``b_backlog_at_exit``).
"""

from __future__ import annotations

import contextlib
import json
import logging
import os
import shutil
import socket
import sys
import tempfile
import types
from typing import Any

from vf.core import sched as S
from vf.core.runner import Ctx

PROPERTY = "C33"
LEVEL = "model_checking"
ENGINE = "E3-SCHED"
SHARDS = {"quick": 8, "thorough": 16}
RULE = (
    "(a) all schedules (preemption bound 1-2 quick; thorough 3 without / 1-2 with an environment event, 0 for three launchers "
    "over two hashes; the evidence lists every configuration with its completed bound and schedule count; an environment "
    "event costs one preemption unless the "
    "configuration says env_cost=0) of 2-3 tasks calling the real launch() for "
    "the same command hash (optionally one for another hash, whose gc pass visits the first) with initial world in "
    "{no worker, live worker, crashed worker with stale socket} and environment events {worker exits cleanly, worker "
    "crashes}; (b) all schedules (bound 0-2; bound 3 only without idle timeout) of the real _serve_socket_threaded with "
    "idle_timeout in {100 (grace 100), 10 (grace 60), None}, max_connections in {None, 1}, 1-2 clients "
    "(connect/disconnect events), clock-advance events, serve() returning or raising; "
    "non-trivial = schedule with >=1 choice point"
)
TECHNIQUE = (
    "stateless model checking of the real launcher and the real threaded accept loop under a controlled thread "
    "scheduler (preemption-bounded), virtual clock for timers, invariants at every step and at loop exit"
)
LEVEL_TEXT = (
    "Every schedule within the preemption bound of concurrent real launch() calls around the per-hash lock, probe and "
    "spawn, and of the real accept loop with its per-connection threads, idle timer and accept time-outs (timer firing "
    "at every position relative to accept and connection start/end), is executed and judged; the property quantifies "
    "over interleavings, which free-running tests with real processes sample once."
)
LEVEL_NOTE = (
    "filelock, subprocess and kernel socket semantics are replaced by small models (cooperative lock, simulated "
    "worker start-up built from the real serve_unix helper functions, fake listening socket); virtual time advances "
    "only through explicit clock events and at global quiescence. Bounds: 2-3 launchers, 1-2 clients, <=3 clock "
    "events, preemption bound 2 (3)."
)
ASSUMPTIONS = [
    "filelock.FileLock is replaced by a cooperative per-path mutex (mutual exclusion and non-blocking acquire trusted)",
    "the spawned worker is simulated: it runs the real _check_no_existing_listener/_unlink_stale_unix_socket, binds and listens on a real AF_UNIX socket and prints the UNIX: line; it never accepts (the kernel backlog completes probes)",
    "the listening socket of the accept loop is a fake; an accept() time-out is delivered after every start/completion of a timer callback (other time-outs re-read an unchanged shutdown flag and are stutter steps) and at global quiescence (the clock then jumps to the next timer deadline)",
    "threading.Timer expiry is an environment task enabled once the virtual clock reaches the deadline; a cancelled timer whose callback already started keeps running (as threading.Timer does)",
    "scheduling granularity: lock/semaphore/thread/timer operations, accept, serve, probe, Popen, readline (thorough tier additionally every source line of launch, gc_state_dir and _serve_socket_threaded)",
]

_W: Any = None  # world of the execution in flight
_DEV_CAP = int(os.environ.get("VF_DEV_CAP", "0")) or None  # development only: cap schedules per config (reported as a cap)


# ======================================================================================
# (b) accept loop


class BWorld:
    def __init__(self, cfg: dict[str, Any], s: S.Sched) -> None:
        self.cfg = cfg
        self.s = s
        self.clk = S.VClock(0.0)
        self.T = cfg["idle"]
        self.pending: list[Conn] = []
        self.conns: list[Conn] = []
        self.epoch = 0  # bumped whenever a timer callback starts or completes
        self.seen_epoch = 0
        self.closed = False
        self.forced = False
        self.returned = False
        self.exit_seen = False
        self.cond_ok: bool | None = None  # None until the first accept() completed
        self.cond_detail = ""
        self.timers: list[Any] = []
        self.viol: list[tuple[str, str]] = []
        self.accepts = 0
        self.timeouts = 0
        self.qjumps = 0
        self.last_q: Any = None
        self.flag_info: dict[str, Any] | None = None  # circumstances under which the shutdown flag was first set
        self.refused = 0
        self.exc: BaseException | None = None

    def violate(self, key: str, msg: str) -> None:
        if not any(k == key for k, _ in self.viol):
            self.viol.append((key, f"{msg} (step {self.s.nsteps}, t={self.clk.now})"))

    # ---- the idle condition ---------------------------------------------------------
    def cond(self) -> tuple[bool, str]:
        acc = [c for c in self.conns if c.accepted]
        in_service = [c.cid for c in acc if not c.serve_returned]
        if in_service:
            return False, f"connection(s) {in_service} accepted and still being served"
        if self.T is None:
            return False, "idle_timeout is None"
        if acc:
            last_end = max(max(c.disc_time, c.accept_time) for c in acc)
            need = self.T
            what = "the last connection ended"
        else:
            last_end = 0.0
            need = max(self.T, 60.0)
            what = "start (no connection yet; startup grace)"
        el = self.clk.now - last_end
        return el >= need, f"{el} s since {what}, {need} s required"

    def note_cond(self) -> None:
        if self.exit_seen:
            return
        ok, why = self.cond()
        if ok:
            self.cond_ok = True
        elif not self.cond_ok:
            self.cond_detail = why

    def peek(self) -> tuple[Any, ...]:
        """(conn_count, shutdown_requested, timer is None) read from the closure cells of the timer callback."""
        for t in self.timers:
            fn = t.inner
            cl = getattr(fn, "__closure__", None)
            if not cl:
                continue
            names = fn.__code__.co_freevars
            d = {}
            for n, c in zip(names, cl):
                try:
                    d[n] = c.cell_contents
                except ValueError:
                    d[n] = None
            return (d.get("conn_count"), d.get("shutdown_requested"), d.get("timer") is None)
        return (None, None, None)

    def state(self) -> Any:
        self.note_cond()
        pk = self.peek()
        if pk[1] and self.flag_info is None:
            # first step after which the shutdown flag reads True: note the circumstances (classification only)
            setters = [t for t in self.timers if t.running]
            self.flag_info = {
                "idle_condition_held": self.cond()[0],
                "by_cancelled_timer": bool(setters) and all(t._cancelled for t in setters),
                "conn_count": pk[0],
                "accepted_unfinished": [c.cid for c in self.conns if c.accepted and not c.serve_returned],
            }
        return (
            self.clk.now, tuple(c.cid for c in self.pending),
            tuple((c.accepted, c.serving, c.serve_returned, c.disconnected, c.tclosed) for c in self.conns),
            self.epoch - self.seen_epoch, self.closed, pk, tuple((t.fired, t._cancelled) for t in self.timers),
        )


class Conn:
    def __init__(self, cid: int, w: BWorld) -> None:
        self.cid = cid
        self.w = w
        self.accepted = False
        self.accept_time = 0.0
        self.serving = False
        self.serves = 0
        self.serve_returned = False
        self.disconnected = False
        self.disc_time = 0.0
        self.tclosed = 0

    # socket API used by the loop
    def settimeout(self, t: Any) -> None:
        return None

    def fileno(self) -> int:
        return 10 + self.cid

    def close(self) -> None:
        return None


class FakeTransport:
    def __init__(self, conn: Conn) -> None:
        self.conn = conn

    def close(self) -> None:
        self.conn.tclosed += 1


class ListenSock:
    def __init__(self, w: BWorld) -> None:
        self.w = w
        self.timeout: Any = "unset"

    def settimeout(self, t: Any) -> None:
        self.timeout = t

    def accept(self) -> tuple[Conn, str]:
        w = self.w
        if w.exit_seen:
            w.violate("b:accept-after-exit", "accept() called after the loop had begun joining")
        S.point("accept")
        while True:
            if w.closed:
                self._window()
                raise OSError("listening socket closed")
            if w.pending:
                c = w.pending.pop(0)
                c.accepted = True
                c.accept_time = w.clk.now
                w.accepts += 1
                self._window()
                return c, "peer"
            if w.epoch != w.seen_epoch:
                # the 0.5 s accept time-out is only observable after a timer callback ran (only those write the
                # shutdown flag); every other time-out re-reads an unchanged flag and is a stutter step
                w.seen_epoch = w.epoch
                return self._timeout()
            ok = S.block(lambda: w.closed or bool(w.pending) or w.epoch != w.seen_epoch, "accept-wait", timeout=True)
            if not ok:
                # global quiescence: nothing else can run; let virtual time pass until the next timer is due
                snap = (w.clk.now, w.accepts, tuple(t.fired for t in w.timers), w.peek())
                due = [t.deadline for t in w.timers if t.is_alive() and not t._cancelled and t.deadline is not None and t.deadline > w.clk.now]
                if due:
                    w.clk.now = min(due)
                    w.qjumps += 1
                elif w.last_q == snap:
                    w.closed = True
                    w.forced = True
                    continue
                w.last_q = snap
                return self._timeout()

    def _window(self) -> None:
        """An accept() call completes: the exit window (re)starts here."""
        w = self.w
        ok, why = w.cond()
        w.cond_ok = ok
        w.cond_detail = "" if ok else why

    def _timeout(self) -> Any:
        self.w.timeouts += 1
        self._window()
        raise TimeoutError("timed out")

    def close(self) -> None:
        self.w.closed = True


class StubServer:
    server_id = "vf"
    protocol_name = "vf"

    def __init__(self, w: BWorld) -> None:
        self.w = w

    def serve(self, transport: FakeTransport) -> None:
        c = transport.conn
        c.serves += 1
        c.serving = True
        if not c.disconnected:
            S.block(lambda: c.disconnected, "serve-wait")
        c.serving = False
        c.serve_returned = True
        if self.w.cfg.get("serve_raises"):
            raise RuntimeError("connection reset")


class _Timer(S.CoopTimer):
    def __init__(self, interval: float, function: Any, args: Any = None, kwargs: Any = None) -> None:
        w = _W
        inner = function

        def callback(*a: Any, **k: Any) -> Any:
            w.epoch += 1
            self.running = True
            try:
                return inner(*a, **k)
            finally:
                self.running = False
                w.epoch += 1

        super().__init__(interval, callback, args, kwargs)
        self.inner = inner
        self.running = False
        w.timers.append(self)


class _HThread(S.CoopThread):
    """Per-connection thread.  The loop keeps them in a ``set``; a deterministic hash keeps its iteration (join)
    order a function of the schedule."""

    def __init__(self, *a: Any, **k: Any) -> None:
        super().__init__(*a, **k)
        w = _W
        w.nthreads = getattr(w, "nthreads", 0) + 1
        self._seq = w.nthreads

    def __hash__(self) -> int:
        return self._seq

    def __eq__(self, other: Any) -> bool:
        return self is other

    def join(self, timeout: float | None = None) -> None:
        w = _W
        if w is not None and not w.exit_seen:
            w.note_cond()
            w.exit_seen = True
        super().join(timeout)


@contextlib.contextmanager
def bound_transport():
    import vgi_rpc.rpc._transport as T

    saved = T.threading
    T.threading = S.threading_shim(Timer=_Timer, Thread=_HThread)  # type: ignore[attr-defined]
    lg = logging.getLogger("vgi_rpc.rpc")
    old = lg.level
    lg.setLevel(logging.CRITICAL + 10)
    try:
        yield T
    finally:
        T.threading = saved  # type: ignore[attr-defined]
        S.CoopTimer.clock = None
        lg.setLevel(old)


def make_setup_b(cfg: dict[str, Any]):
    def setup(s: S.Sched) -> Any:
        global _W
        import vgi_rpc.rpc._transport as T

        w = BWorld(cfg, s)
        _W = w
        S.CoopTimer.clock = w.clk
        sock = ListenSock(w)
        server = StubServer(w)

        def main() -> None:
            try:
                T._serve_socket_threaded(server, sock, cfg.get("max_conn"), cfg["idle"], FakeTransport, "vf")  # type: ignore[arg-type]
            except S.Abort:
                raise  # execution torn down by the scheduler: not a return
            except BaseException as e:
                w.exc = e
                w.closed = True
                raise
            if not w.exit_seen:
                w.note_cond()
                w.exit_seen = True
            w.returned = True
            w.closed = True  # serve_unix/serve_tcp close the listening socket next

        s.spawn(main, "accept-loop")

        def client(i: int, hold: bool) -> None:
            # "quick": connect and close in one step (what the launcher's _probe does); "hold": connect, wait until
            # the connection is being served, then disconnect
            if w.closed:
                w.refused += 1
                return
            c = Conn(len(w.conns), w)
            w.conns.append(c)
            w.pending.append(c)
            if hold:
                S.block(lambda: c.serving or w.closed, f"c{i}:await-service")
            c.disconnected = True
            c.disc_time = w.clk.now

        for i, kind in enumerate(cfg["clients"]):
            s.spawn(lambda i=i, kind=kind: client(i, kind == "hold"), f"client{i}", env=True)
        for j, dt in enumerate(cfg["clock"]):
            s.spawn(lambda dt=dt: w.clk.advance(dt), f"clock{j}", env=True)
        s.state_fn = w.state
        return w

    return setup


TRACE_B = S.trace_window(("rpc/_transport.py", "_serve_socket_threaded*"))


def oracle_b(ctx: Ctx, cfg: dict[str, Any], x: S.Exec, tier: str) -> Any:
    w: BWorld = x.world
    rep = {"part": "b", "cfg": cfg, "tier": tier, **x.schedule()}
    if x.deadlock:
        ctx.fail("b:deadlock", f"deadlock in the accept loop under {cfg}; tasks {[(t.name, t.label) for t in x.tasks if not t.done]}", rep)
    for t in x.tasks:
        if t.exc is not None:
            ctx.fail(f"b:exception:{type(t.exc).__name__}", f"task {t.name} raised {t.exc!r} under {cfg}", rep)
    self_exit = w.returned and not w.forced and w.exc is None
    if self_exit and not x.deadlock and not x.livelock:
        if w.T is None:
            w.violate("b:exit-without-idle-timeout", "the accept loop ended by itself although idle_timeout is None")
        elif not w.cond_ok:
            fi = w.flag_info
            if w.accepts == 0:
                cause = "startup-grace-not-elapsed"
            elif fi is None:
                cause = "unclassified"
            elif (fi["conn_count"] or 0) > 0:
                cause = "shutdown-flag-set-with-counted-connection"
            elif fi["by_cancelled_timer"] and fi["accepted_unfinished"]:
                cause = "accepted-connection-not-counted"  # the timer was cancelled for a connection that conn_count misses
            elif fi["by_cancelled_timer"]:
                cause = "stale-timer-callback"  # a cancelled / superseded timer's callback set the flag
            elif fi["idle_condition_held"] or fi["accepted_unfinished"]:
                # set while the loop was (or believed it was: a connection had just been returned by accept() and was
                # not counted yet) idle, and still honoured after that connection was accepted
                cause = "sticky-shutdown-flag"
            else:
                cause = "idle-timer-too-short"
            w.violate(
                f"b:early-exit:{cause}",
                f"the accept loop stopped accepting although, throughout its exit window, {w.cond_detail or 'the idle condition did not hold'} "
                f"(idle_timeout={w.T}; accepted {w.accepts} connection(s); circumstances when the shutdown flag was set: {fi})",
            )
    if w.returned and not x.deadlock:
        for c in w.conns:
            if c.accepted and not c.serve_returned:
                w.violate("b:returned-while-serving", f"the function returned while accepted connection {c.cid} was still being served")
    if not x.deadlock and not x.livelock:
        for c in w.conns:
            if c.accepted and c.serves != 1:
                w.violate("b:accepted-not-served-once", f"accepted connection {c.cid} was passed to serve() {c.serves} times")
            if c.accepted and c.serves and c.tclosed != 1:
                w.violate("b:transport-close-count", f"transport of connection {c.cid} closed {c.tclosed} times")
    for key, msg in w.viol:
        ctx.fail(key, f"{msg}; cfg {cfg}", rep)
    ctx.extra["b_backlog_at_exit"] += sum(1 for c in w.conns if not c.accepted)
    ctx.extra["b_forced_closes"] += 1 if w.forced else 0
    ctx.extra["b_forced_closes_with_idle_timeout"] += 1 if w.forced and w.T is not None else 0
    ctx.extra["b_self_exits"] += 1 if self_exit else 0
    ctx.extra["b_quiescent_jumps"] += w.qjumps
    return (
        "b", w.accepts, w.timeouts, w.forced, self_exit, w.clk.now, w.refused,
        tuple((c.accepted, c.serve_returned) for c in w.conns), tuple(k for k, _ in w.viol),
    )


def configs_b(ctx: Ctx) -> list[dict[str, Any]]:
    out: list[dict[str, Any]] = []

    def add(idle: Any, clients: list[str], clock: list[float], bound: int = 2, trace: bool = False, **kw: Any) -> None:
        out.append({"idle": idle, "clients": clients, "clock": clock, "bound": bound, "trace": trace, **kw})

    if ctx.quick:
        add(100.0, [], [100.0])
        add(100.0, ["quick"], [100.0])
        add(100.0, ["hold"], [100.0])
        add(100.0, ["hold"], [50.0, 50.0], bound=1)
        add(100.0, ["quick"], [100.0, 100.0], bound=1)
        add(10.0, ["hold"], [60.0], bound=1)
        add(10.0, ["quick"], [10.0, 50.0], bound=1)
        add(10.0, ["hold"], [5.0, 5.0], bound=1)
        add(None, ["hold"], [100.0])
        add(None, ["hold", "quick"], [], bound=0)
        add(100.0, ["hold"], [100.0], bound=1, serve_raises=True)
        add(100.0, ["quick", "quick"], [100.0], bound=0)
        add(100.0, ["hold", "quick"], [100.0], bound=0, max_conn=1)
        add(100.0, ["quick"], [100.0], bound=1, trace=True)
        add(100.0, ["hold"], [], bound=1, trace=True)
        return out
    # (sized like part a: bound 3 with one client, the zero-cost clock variants and line-traced bound 2 were measured above
    # 25 000 schedules per configuration and are not part of this tier)
    for idle, clocks in ((100.0, ([100.0], [50.0, 50.0], [100.0, 100.0])), (10.0, ([60.0], [10.0, 50.0], [5.0, 5.0]))):
        add(idle, [], clocks[0])
        for cl in (["quick"], ["hold"]):
            add(idle, cl, clocks[0], bound=2)
            add(idle, cl, clocks[1], bound=2 if (idle == 10.0 and cl == ["quick"]) else 1)
            add(idle, cl, clocks[2], bound=1)
        add(idle, ["quick", "quick"], clocks[0], bound=1 if idle == 10.0 else 0)
        add(idle, ["hold", "quick"], clocks[0], bound=0)
        add(idle, ["hold", "quick"], clocks[0], bound=0, max_conn=1)
        add(idle, ["hold", "hold"], [], bound=0, max_conn=1)
        add(idle, ["hold"], clocks[0], serve_raises=True)
        add(idle, ["hold", "quick"], clocks[0], bound=0, serve_raises=True, max_conn=1)
        add(idle, ["quick"], clocks[0], bound=1, trace=True)
        add(idle, ["hold"], clocks[0], bound=1, trace=True)
        add(idle, ["hold", "quick"], [], bound=0, trace=True)
    add(None, ["hold"], [100.0], bound=3)
    add(None, ["hold", "quick"], [], bound=1)
    add(None, ["hold", "hold"], [], bound=0, max_conn=1)
    return out


# ======================================================================================
# (a) launcher


class AWorld:
    def __init__(self, cfg: dict[str, Any], s: S.Sched, state_dir: str) -> None:
        self.cfg = cfg
        self.s = s
        self.dir = state_dir
        self.locks: dict[str, S.CoopLock] = {}
        self.workers: list[SimWorker] = []
        self.viol: list[tuple[str, str]] = []
        self.calls: list[dict[str, Any]] = []
        self.deaths: list[int] = []  # step numbers of worker deaths
        self.spawns = 0
        self.probes = 0
        self.ino = InoModel(self)
        self.init_ready = True

    def violate(self, key: str, msg: str) -> None:
        if not any(k == key for k, _ in self.viol):
            self.viol.append((key, f"{msg} (step {self.s.nsteps})"))

    def live(self, path: str) -> list["SimWorker"]:
        return [x for x in self.workers if x.alive and x.path == path]

    def listening(self, path: str) -> bool:
        """Sim truth (kernel level): *path* names the dirent of a worker whose listening socket is still open."""
        try:
            st = os.lstat(path)
        except OSError:
            return False
        return any(x.accepting() and x.ident == (st.st_dev, st.st_ino) for x in self.workers)

    def cur(self) -> dict[str, Any] | None:
        t = self.s.current()
        for c in reversed(self.calls):
            if t is not None and c["task"] == t.id and c["ret"] is None and c["exc"] is None:
                return c
        return None

    def state(self) -> Any:
        by_path: dict[str, int] = {}
        for x in self.workers:
            if x.alive:
                by_path[x.path] = by_path.get(x.path, 0) + 1
        for p, n in by_path.items():
            if n > 1:
                self.violate("a:two-live-workers", f"{n} live workers for {os.path.basename(p)}")
        for x in self.workers:
            if x.alive:
                try:
                    st = os.lstat(x.path)
                    same = (st.st_dev, st.st_ino) == x.ident
                except OSError:
                    same = False
                if not same:
                    self.violate(
                        "a:live-worker-socket-unlinked",
                        f"the socket path {os.path.basename(x.path)} of a live, listening worker was unlinked or replaced (the worker is unreachable)",
                    )
        try:
            files = tuple(sorted(os.listdir(self.dir)))
        except OSError:
            files = ()
        return (
            tuple((x.alive, x.exited, x.stop, os.path.basename(x.path)) for x in self.workers),
            tuple(sorted((os.path.basename(k), v.owner is not None) for k, v in self.locks.items())),
            tuple(f[-5:] for f in files),
            tuple((c["task"], c["ret"] is not None) for c in self.calls),
        )

    def cleanup(self) -> None:
        for x in self.workers:
            if x.sock is not None:
                with contextlib.suppress(Exception):
                    socket.socket.close(x.sock)
        shutil.rmtree(self.dir, ignore_errors=True)


class WorkerKilled(BaseException):
    """kill -9 of the simulated worker process: every further instrumented operation of that task raises it."""


class SimWorker:
    """One worker process: a scheduler task running the REAL ``serve_unix`` around a stub accept loop."""

    def __init__(self, w: AWorld, path: str, auto: str | None = None) -> None:
        self.w = w
        self.path = path
        self.sock: Any = None  # the TrackedSocket serve_unix bound
        self.ident: tuple[int, int] | None = None  # real (st_dev, st_ino) of the bound dirent
        self.alive = False  # accept loop running
        self.born: int | None = None
        self.stop: str | None = None  # None | "exit" | "crash"
        self.killed = False
        self.exited = False
        self.rc: int | None = None
        self.lines: list[bytes] = []
        self.auto = auto  # initial-world worker: "live" | "crashed"
        self.task: Any = None

    def accepting(self) -> bool:
        """Kernel truth: the listening socket is still open (a connect to its dirent succeeds)."""
        return self.sock is not None and self.born is not None and self.sock.fileno() != -1

    def request(self, how: str) -> None:
        if self.stop is None:
            self.stop = how

    # ---- the process body (runs in its own scheduler task)
    def main(self) -> None:
        import vgi_rpc.rpc._transport as T

        w = self.w
        try:
            T.serve_unix(
                types.SimpleNamespace(server_id="sim", protocol_name="Sim"), self.path, threaded=True, idle_timeout=300.0,
                on_bound=lambda p: self.lines.extend([b"some import noise\n", f"UNIX:{p}\n".encode()]),
            )
            self.rc = 0
        except WorkerKilled:
            self.rc = -9
        except (RuntimeError, OSError):
            self.rc = 1
        finally:
            if self.alive:
                self.alive = False
                w.deaths.append(w.s.nsteps)
            self.exited = True
            if self.auto is not None:
                w.init_ready = True
            w.deaths.append(w.s.nsteps)

    def accept_loop(self, sock: Any) -> None:
        """Stand-in for ``_serve_socket_threaded``: accepts nothing, returns when the idle timer (env event) fires."""
        w = self.w
        self.sock = sock
        self.ident = sock._key
        self.alive = True
        self.born = w.s.nsteps
        if self.auto == "crashed":
            self.stop = "crash"
        elif self.auto == "live":
            w.init_ready = True
        S.block(lambda: self.stop is not None, "worker:serving")
        self.alive = False
        w.deaths.append(w.s.nsteps)
        if self.stop == "crash":
            self.killed = True
            socket.socket.close(sock)
            raise WorkerKilled


def _cur_worker() -> "SimWorker | None":
    w = _W
    t = w.s.current() if w is not None else None
    if t is None:
        return None
    for x in w.workers:
        if x.task is t:
            return x
    return None


def _wpoint(label: str) -> None:
    """Scheduling point of a worker-side filesystem / socket operation; a killed worker executes nothing further."""
    x = _cur_worker()
    if x is not None and x.killed:
        raise WorkerKilled
    if x is not None and (x.path != _W.expect[ARGV_1] or _W.cfg.get("trace")):
        # (line-traced configurations explore the launcher's own lines; there the worker's steps stay glued as well)
        return  # the second hash's worker only matters through its launcher's gc pass: its own steps stay glued
    S.point(label)
    if x is not None and x.killed:
        raise WorkerKilled


class _St:
    """``os.stat_result`` with a model-owned inode number."""

    __slots__ = ("_st", "st_ino")

    def __init__(self, st: Any, ino: int) -> None:
        self._st = st
        self.st_ino = ino

    def __getattr__(self, n: str) -> Any:
        return getattr(self._st, n)


class InoModel:
    """Inode numbers of bound sockets as the real code sees them, owned by the model.

    The kernel may hand a freed inode number to the next file created (ext4 does so immediately; observed 20/20 on this
    machine, never on tmpfs), and whether it does is outside the scheduler's control.  The model fixes the adversarial
    legal policy: a new socket dirent gets the LOWEST number that is free, where a number is free once its socket is
    closed and no dirent of the state directory names it any more.
    """

    def __init__(self, w: AWorld) -> None:
        self.w = w
        self.table: dict[tuple[int, int], tuple[int, Any]] = {}

    def register(self, key: tuple[int, int], sock: Any) -> None:
        present: set[tuple[int, int]] = set()
        with contextlib.suppress(OSError):
            for e in os.scandir(self.w.dir):
                with contextlib.suppress(OSError):
                    st = os.lstat(e.path)
                    present.add((st.st_dev, st.st_ino))
        for k, (_v, sk) in list(self.table.items()):
            if k == key or (sk.fileno() == -1 and k not in present):
                del self.table[k]
        used = {v for v, _ in self.table.values()}
        v = 1
        while v in used:
            v += 1
        self.table[key] = (v, sock)

    def virtual(self, st: Any) -> int:
        e = self.table.get((st.st_dev, st.st_ino))
        return e[0] if e is not None else st.st_ino


class TrackedSocket(socket.socket):
    """``socket.socket`` of the worker side: bind / connect / close of a bound listener are scheduling points."""

    _key: tuple[int, int] | None = None

    def bind(self, addr: Any) -> None:
        _wpoint("worker:bind")
        super().bind(addr)
        st = os.lstat(addr)
        self._key = (st.st_dev, st.st_ino)
        _W.ino.register(self._key, self)

    def connect(self, addr: Any) -> None:
        _wpoint("worker:connect")
        super().connect(addr)

    def close(self) -> None:
        if self._key is not None and self.fileno() != -1:
            _wpoint("worker:close")
        super().close()


class _OsProxy:
    """``os`` as seen by ``vgi_rpc.rpc._transport``: lstat / unlink are scheduling points, inodes are the model's."""

    def __getattr__(self, n: str) -> Any:
        return getattr(os, n)

    def lstat(self, path: Any, **kw: Any) -> Any:
        # a point only in the exit clean-up (identity check, then unlink); elsewhere the lstat is glued to the operation
        # before it (coarser atomicity: fewer behaviours, never a spurious one) - the unlink / connect / bind that
        # follows has its own point
        if sys._getframe(1).f_code.co_name == "_unlink_bound_unix_socket":
            _wpoint("worker:exit-lstat")
        st = os.lstat(path, **kw)
        return _St(st, _W.ino.virtual(st)) if _W is not None else st

    def unlink(self, path: Any, **kw: Any) -> None:
        _wpoint("worker:unlink")
        w = _W
        try:
            st = os.lstat(path)
            victim = [x for x in w.workers if x.alive and x.ident == (st.st_dev, st.st_ino)]
        except OSError:
            victim = []
        me = _cur_worker()
        if victim and victim[0] is not me:
            w.violate("a:worker-unlinked-live-socket", f"an exiting / starting worker unlinked {os.path.basename(str(path))} while another live worker listens on it")
        os.unlink(path, **kw)


class CoopFileLock:
    """filelock.FileLock stand-in: one cooperative mutex per lock-file path of the current world."""

    def __init__(self, lock_file: str, timeout: float = -1, **kw: Any) -> None:
        self.lock_file = str(lock_file)
        self.timeout = timeout
        self._lk = _W.locks.setdefault(self.lock_file, S.CoopLock("flock:" + os.path.basename(self.lock_file)[-9:]))
        self._held = False

    def acquire(self, timeout: float | None = None, **kw: Any) -> Any:
        import vgi_rpc.launcher as L

        to = self.timeout if timeout is None else timeout
        if to is not None and to == 0.0:
            if not self._lk.acquire(blocking=False):
                raise L.Timeout(self.lock_file)
        else:
            self._lk.acquire()
        self._held = True
        return self

    def release(self, force: bool = False) -> None:
        if self._held:
            self._held = False
            self._lk.release()

    def __enter__(self) -> Any:
        return self.acquire()

    def __exit__(self, *a: Any) -> None:
        self.release()


class _FakeStdout:
    def __init__(self, proc: "FakePopen") -> None:
        self.proc = proc

    def readline(self) -> bytes:
        x = self.proc.worker
        S.block(lambda: bool(x.lines) or x.exited, "readline")
        return x.lines.pop(0) if x.lines else b""

    def __iter__(self) -> Any:
        return iter(())

    def close(self) -> None:
        return None


class FakePopen:
    """The spawned worker process: a new scheduler task running the real ``serve_unix`` (see SimWorker)."""

    def __init__(self, argv: list[str], **kw: Any) -> None:
        w = _W
        self.w = w
        self.args = list(argv)
        self.pid = 9000 + w.spawns
        w.spawns += 1
        self.returncode: int | None = None
        self.path = argv[argv.index("--unix") + 1]
        self.stdout = _FakeStdout(self)
        S.point("popen")
        if w.listening(self.path) or w.live(self.path):
            w.violate(
                "a:spawn-while-worker-alive",
                f"a worker for {os.path.basename(self.path)} was spawned while a live worker of that hash exists",
            )
        self.worker = SimWorker(w, self.path)
        w.workers.append(self.worker)
        self.worker.task = w.s.spawn(self.worker.main, f"worker{self.pid}", daemon=True)

    def wait(self, timeout: float | None = None) -> int:
        x = self.worker
        if not x.exited and x.stop is not None:
            S.block(lambda: x.exited, "proc.wait")
        if self.returncode is None:
            self.returncode = x.rc if x.rc is not None else 0
        return self.returncode

    def poll(self) -> int | None:
        return self.worker.rc if self.worker.exited else None

    def terminate(self) -> None:
        self.worker.request("crash")
        self.returncode = -15

    kill = terminate


_BASE: dict[str, Any] = {"dir": None, "n": 0}


@contextlib.contextmanager
def bound_launcher():
    import subprocess as real_subprocess

    import vgi_rpc.launcher as L
    import vgi_rpc.rpc._transport as T

    saved = {k: getattr(L, k) for k in ("FileLock", "subprocess", "threading", "_probe", "_unlink_stale_socket")}
    saved_t = {k: getattr(T, k) for k in ("os", "socket", "_serve_socket_threaded")}

    def accept_loop(server: Any, sock: Any, *a: Any, **kw: Any) -> None:
        x = _cur_worker()
        assert x is not None
        x.accept_loop(sock)

    sockmod = types.SimpleNamespace(**{k: getattr(socket, k) for k in dir(socket) if not k.startswith("__")})
    sockmod.socket = TrackedSocket
    T.os = _OsProxy()  # type: ignore[assignment]
    T.socket = sockmod  # type: ignore[assignment]
    T._serve_socket_threaded = accept_loop  # type: ignore[assignment]
    real_probe = L._probe
    real_unlink = L._unlink_stale_socket

    def probe(path: Any) -> bool:
        S.point("probe")
        r = real_probe(path)
        w = _W
        w.probes += 1
        truth = w.listening(str(path))
        if r != truth:
            w.violate("a:probe-disagrees-with-world", f"_probe({os.path.basename(str(path))}) returned {r}, world says {truth}")
        c = w.cur()
        if c is not None:
            c["obs"].append(("probe", str(path), r, truth, w.s.nsteps))
        S.point("probe-done")  # the answer may be stale by the time the caller acts on it
        return r

    def unlink_stale(path: Any) -> None:
        S.point("unlink-stale")
        w = _W
        if w.listening(str(path)):
            w.violate("a:unlinked-live-socket", f"launch() unlinked {os.path.basename(str(path))} while a live worker listens on it")
        real_unlink(path)

    sub = types.SimpleNamespace(
        Popen=FakePopen, DEVNULL=real_subprocess.DEVNULL, PIPE=real_subprocess.PIPE, TimeoutExpired=real_subprocess.TimeoutExpired
    )
    L.FileLock = CoopFileLock  # type: ignore[misc]
    L.subprocess = sub  # type: ignore[attr-defined]

    class InlineThread(S.CoopThread):
        """The stdout drain thread reads the (empty) fake pipe and touches nothing shared: run it at start()."""

        def start(self) -> None:
            self.run()

        def join(self, timeout: float | None = None) -> None:
            return None

        def is_alive(self) -> bool:
            return False

    L.threading = S.threading_shim(Thread=InlineThread)  # type: ignore[attr-defined]
    L._probe = probe  # type: ignore[assignment]
    L._unlink_stale_socket = unlink_stale  # type: ignore[assignment]
    _BASE["dir"] = tempfile.mkdtemp(prefix="vfc33-")
    try:
        yield L
    finally:
        for k, v in saved.items():
            setattr(L, k, v)
        for k, v in saved_t.items():
            setattr(T, k, v)
        shutil.rmtree(_BASE["dir"], ignore_errors=True)


ARGV_1 = ("worker-one", "--flag")
ARGV_2 = ("worker-two",)


def make_setup_a(cfg: dict[str, Any]):
    def setup(s: S.Sched) -> Any:
        global _W
        import vgi_rpc.launcher as L

        _BASE["n"] += 1
        d = os.path.join(_BASE["dir"], str(_BASE["n"]))
        os.mkdir(d)
        w = AWorld(cfg, s, d)
        _W = w
        h1 = L.compute_hash(ARGV_1)
        p1 = os.path.join(d, f"{h1}.sock")
        w.expect = {ARGV_1: p1, ARGV_2: os.path.join(d, f"{L.compute_hash(ARGV_2)}.sock")}
        init = cfg.get("init", "none")
        if init in ("live", "crashed"):
            # the initial worker runs the real serve_unix start-up too; launchers wait until it serves (or has crashed)
            w.init_ready = False
            x = SimWorker(w, p1, auto=init)
            w.workers.append(x)
            x.task = s.spawn(x.main, "worker-init", daemon=True)
            L._write_meta(L.Path(os.path.join(d, f"{h1}.meta")), ARGV_1, os.getcwd(), p1)

        def launcher(i: int, argv: tuple[str, ...]) -> None:
            S.block(lambda: w.init_ready, f"l{i}:begin")
            rec: dict[str, Any] = {"task": s.current().id, "i": i, "argv": argv, "begin": s.nsteps, "ret": None, "exc": None, "obs": [], "end": None}
            w.calls.append(rec)
            try:
                r = L.launch(L.LaunchConfig(worker_argv=argv, state_dir=d, idle_timeout=300.0))
            except S.Abort:
                raise
            except BaseException as e:  # noqa: BLE001
                rec["exc"] = e
                rec["end"] = s.nsteps
                return
            rec["end"] = s.nsteps
            rec["live_at_return"] = w.listening(r) if isinstance(r, str) else None
            rec["ret"] = r

        for i, a in enumerate(cfg["launchers"]):
            s.spawn(lambda i=i, a=a: launcher(i, ARGV_1 if a == 1 else ARGV_2), f"launch{i}")
        for j, ev in enumerate(cfg.get("env", [])):
            def die(ev: str = ev) -> None:
                # the idle timer fires (clean exit through serve_unix's finally) / the process is killed
                S.block(lambda: w.init_ready, "env:wait-init")
                for x in w.workers:
                    if x.alive and x.path == p1 and x.stop is None:
                        x.request(ev)
                        return

            s.spawn(die, f"{ev}{j}", env=True)
        s.state_fn = w.state
        return w

    return setup


TRACE_A = S.trace_window(("vgi_rpc/launcher.py", "launch"), ("vgi_rpc/launcher.py", "gc_state_dir"), ("vgi_rpc/launcher.py", "_spawn_worker"))


def oracle_a(ctx: Ctx, cfg: dict[str, Any], x: S.Exec, tier: str) -> Any:
    w: AWorld = x.world
    rep = {"part": "a", "cfg": cfg, "tier": tier, **x.schedule()}
    try:
        if x.deadlock:
            ctx.fail("a:deadlock", f"deadlock among launchers under {cfg}; {[(t.name, t.label) for t in x.tasks if not t.done]}", rep)
        for t in x.tasks:
            if t.exc is not None:
                ctx.fail(f"a:harness-task-exception:{type(t.exc).__name__}", f"task {t.name} raised {t.exc!r} under {cfg}", rep)
        for c in w.calls:
            if c["exc"] is not None:
                w.violate(f"a:launch-raised:{type(c['exc']).__name__}", f"launch() of launcher {c['i']} raised {c['exc']!r}")
                continue
            if c["ret"] is None:
                continue
            exp = w.expect[c["argv"]]
            if c["ret"] != exp:
                w.violate("a:wrong-path-returned", f"launch() returned {c['ret']!r}, expected {exp!r}")
                continue
            # the call's evidence that a worker accepts: its last successful probe of that path, or a worker it
            # spawned itself that reached readiness (sim worker listening at that path created during the call)
            ok_probe = [o for o in c["obs"] if o[0] == "probe" and o[1] == exp and o[2] and o[3]]
            spawned = [sw for sw in w.workers if sw.path == exp and getattr(sw, "born", None) is not None and c["begin"] <= sw.born <= c["end"]]
            if not ok_probe and not spawned:
                w.violate("a:returned-without-accepting-worker", f"launcher {c['i']} returned {os.path.basename(exp)} although no worker accepted there at any probe/readiness moment of the call (observations {c['obs']})")
            died_during = any(c["begin"] <= dstep <= c["end"] for dstep in w.deaths)
            if not died_during and not c["live_at_return"]:
                w.violate("a:returned-path-not-accepting", f"launcher {c['i']} returned {os.path.basename(exp)} but no worker listens there at return and none died during the call")
        for key, msg in w.viol:
            ctx.fail(key, f"{msg}; cfg {cfg}", rep)
        ctx.extra["a_spawns"] += w.spawns
        ctx.extra["a_probes"] += w.probes
        return (
            "a", tuple((c["i"], c["ret"] is not None, type(c["exc"]).__name__ if c["exc"] else None, tuple((o[0], o[2]) for o in c["obs"])) for c in w.calls),
            w.spawns, tuple(sw.alive for sw in w.workers), tuple(k for k, _ in w.viol),
        )
    finally:
        w.cleanup()


def configs_a(ctx: Ctx) -> list[dict[str, Any]]:
    out: list[dict[str, Any]] = []

    def add(launchers: list[int], init: str = "none", env: list[str] | None = None, bound: int = 2, trace: bool = False, env_cost: int = 1) -> None:
        out.append({"launchers": launchers, "init": init, "env": env or [], "bound": bound, "trace": trace, "env_cost": env_cost})

    if ctx.quick:
        add([1, 1])
        add([1, 1], init="live")
        add([1, 1], init="crashed")
        add([1, 1], init="live", env=["exit"], bound=1)
        add([1, 1], init="live", env=["crash"], bound=1)
        add([1, 1], env=["crash"], bound=1)
        add([1, 2], init="crashed", bound=1)
        add([1, 1, 1], bound=1)
        add([2, 1], init="crashed", bound=1)
        add([1, 1], bound=1, trace=True)
        add([1, 1], init="crashed", bound=1, trace=True)
        return out
    # Sized from measured schedule counts (under 16 parallel shards one execution costs 40-70 ms): every configuration
    # below completes its bound; deeper variants of the same families (bound 3 with an environment event, two
    # environment events, line-traced bound 2, three launchers from a crashed world at bound >= 1) were measured at
    # more than 25 000 schedules each and are NOT part of this tier.
    for init in ("none", "live", "crashed"):
        add([1, 1], init=init, bound=3)
        add([1, 1], init=init, env=["exit"], bound=2 if init == "none" else 1)
        add([1, 1], init=init, env=["crash"], bound=2 if init == "none" else 1)
        add([1, 2], init=init, bound=1 if init == "crashed" else 2)
        add([2, 1], init=init, bound=1 if init == "crashed" else 2)
        add([1, 1, 2], init=init, bound=0)
        add([1, 1], init=init, bound=1, trace=True)
    add([1, 1], init="none", env=["crash"], bound=1, env_cost=0)
    add([1, 2], init="none", env=["crash"], bound=1)
    add([1, 1, 1], init="none", bound=1)
    add([1, 1, 1], init="live", bound=1)
    for init in ("none", "live"):
        add([1, 2], init=init, bound=1, trace=True)
        add([2, 1], init=init, bound=1, trace=True)
    return out


# ======================================================================================


def _explore(ctx: Ctx, part: str, cfg: dict[str, Any], setup: Any, orc: Any, trace: Any) -> None:
    st = S.explore(
        ctx, setup, lambda x: orc(ctx, cfg, x, ctx.tier), bound=cfg["bound"], label=f"{part}:" + json.dumps(cfg, sort_keys=True),
        trace=trace if cfg["trace"] else None, env_cost=cfg.get("env_cost", 1), max_execs=_DEV_CAP,
    )
    ctx.extra[f"{part}_schedules"] += st["schedules"]
    ctx.extra["config_sizes"].append(f"{part}:{json.dumps(cfg, sort_keys=True)} -> {st['schedules']}")
    ctx.extra[f"{part}_configs"] += 1
    ctx.extra[f"{part}_deadlocks"] += st["deadlocks"]
    ctx.extra["max_choice_points"] = max(ctx.extra["max_choice_points"], st["max_points"])
    ctx.extra["max_steps"] = max(ctx.extra["max_steps"], st["max_steps"])
    if st["bound_completed"] < cfg["bound"]:
        ctx.cap(f"bound {cfg['bound']} not completed for {part}:{cfg}")


def run(ctx: Ctx) -> None:
    ctx.extra.update({
        "a_schedules": 0, "a_configs": 0, "a_deadlocks": 0, "b_schedules": 0, "b_configs": 0, "b_deadlocks": 0,
        "max_choice_points": 0, "max_steps": 0, "a_spawns": 0, "a_probes": 0, "b_backlog_at_exit": 0, "b_forced_closes": 0, "b_forced_closes_with_idle_timeout": 0,
        "b_self_exits": 0, "b_quiescent_jumps": 0, "config_sizes": [],
    })
    with bound_launcher():
        for cfg in configs_a(ctx):
            if not ctx.mine():
                continue
            _explore(ctx, "a", cfg, make_setup_a(cfg), oracle_a, TRACE_A)
    with bound_transport():
        for cfg in configs_b(ctx):
            if not ctx.mine():
                continue
            _explore(ctx, "b", cfg, make_setup_b(cfg), oracle_b, TRACE_B)


def replay(ctx: Ctx, case: dict[str, Any]) -> None:
    ctx.extra.update({"a_spawns": 0, "a_probes": 0, "b_backlog_at_exit": 0, "b_forced_closes": 0, "b_forced_closes_with_idle_timeout": 0, "b_self_exits": 0, "b_quiescent_jumps": 0})
    cfg = case["cfg"]
    tier = case.get("tier", "quick")
    ec = cfg.get("env_cost", 1)
    if case.get("part") == "a":
        with bound_launcher():
            x = S.run_one(make_setup_a(cfg), case["choices"], None, trace=TRACE_A if cfg["trace"] else None, env_cost=ec)
            oracle_a(ctx, cfg, x, tier)
    else:
        with bound_transport():
            x = S.run_one(make_setup_b(cfg), case["choices"], None, trace=TRACE_B if cfg["trace"] else None, env_cost=ec)
            oracle_b(ctx, cfg, x, tier)

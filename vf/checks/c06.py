"""C06 — Methods run only with contract-conforming arguments (E1: exhaustive perturbation of a valid request).

For every signature of a fixed signature set the *valid* request batch (the one the documented type mapping
of docs/WIRE_PROTOCOL.md sections 4-5 prescribes) is built by hand with pyarrow; every perturbation of the
stated grammar is applied to it and the resulting bytes are executed on the four dispatch sites

    socket-unary / socket-stream : the real ``RpcServer.serve`` loop over a MemTransport (bytes written up-front,
                                   loop run to EOF in the calling thread)
    http-unary / http-stream     : the real WSGI app (``POST /{m}``, ``POST /{m}/init``)
    shm-unary / shm-stream       : the socket loop again, but the request batch is routed through the shared-memory
                                   side channel (a zero-row pointer batch with the DECLARED schema on the socket, the
                                   perturbed batch in a client-owned segment): the columns the method would receive
                                   are those of the resolved batch

Every signature exists as a unary method ``u_<sig>`` and as a producer-stream method ``s_<sig>`` whose
implementations append ``[name, {param: repr(value)}]`` to a log before doing anything else.

Reference model (written from the docs and the property statement, not from ``_validate_call_signature``):
a request *conforms* iff its columns equal the declared ones pairwise in order — same name, same Arrow type
(pyarrow ``DataType ==``), same nullable flag — every non-optional column holds a non-null value and an enum
column holds a declared member name.

Oracle (weakest reading):
  * not conforming  -> the implementation log stays EMPTY, the socket answer is an error stream, the HTTP
    answer is status 400 with a decodable error batch;
  * conforming      -> the method ran exactly once with exactly the values sent, and the answer is a success
    (this direction is the sanity side: the valid request is what the real client sends);
  * field-metadata-only perturbation: the statement does not list metadata as part of the contract, either
    complete outcome is accepted;
  * a method that itself raises TypeError / ArrowInvalid / ArrowTypeError / KeyError / ValueError /
    StopIteration / RpcError / VersionError (unary body, stream init, first produce) is reported as that
    error (type and message) and never with a 4xx status.
"""

from __future__ import annotations

import enum
import io
import itertools
import json
from dataclasses import dataclass
from typing import Annotated, Any, Protocol  # noqa: F401  (Annotated is used by generated source)

import pyarrow as pa
from vgi_rpc.rpc import ProducerState, RpcError, RpcServer, Stream, VersionError  # noqa: F401
from vgi_rpc.utils import ArrowSerializableDataclass, ArrowType  # noqa: F401

from vf.core.runner import Ctx
from vf.kit import mem

PROPERTY = "C06"
LEVEL = "exploration"
ENGINE = "E1-SEQ"
SHARDS = {"quick": 8, "thorough": 16}
RULE = (
    "signature set (13 quick / 19 thorough: 1-3 params, optional, defaulted, enum, nested dataclass, annotated width, "
    "list/map) x every single perturbation of the valid request batch: rename (suffix / case / 'ctx') each column, "
    "every non-identity column permutation, add a column (new name / 'ctx' / duplicate name; 3 types) at every "
    "position, drop each column, retype each column to each of 10 (quick) / 24 (thorough) other Arrow types, flip each "
    "nullable flag, null in every position (flag kept / flag set), unknown / case-changed enum member, field "
    "metadata; thorough adds all pairs of non-structural perturbations on distinct columns; x 4 dispatch sites + 2 "
    "shm-routed socket sites (declared-schema pointer batch, perturbed batch in the segment); "
    "plus 8 exception classes raised by the method itself at 3 sites x 2 paths. "
    "Non-trivial class = (perturbation kind, declared column type, site, observed verdict)"
)
TECHNIQUE = "exhaustive enumeration of a finite request-perturbation grammar executed on the real dispatch paths against a hand-written conformance predicate"
LEVEL_TEXT = (
    "Every perturbation of the stated grammar is executed for every signature on every dispatch site and judged by "
    "an independent conformance predicate and the implementation's own call log; the invariant quantifies over "
    "all perturbations, which example tests only sample."
)
LEVEL_NOTE = "Perturbations are single (quick) or single+pairs (thorough); the signature set and the retype alphabet are the stated bounds."
ASSUMPTIONS = [
    "the implementation call log is the observation of 'the method ran'",
    "pyarrow frames the (possibly ill-typed) request bytes faithfully; DataType == is the type-equality judge",
    "HTTP is exercised through falcon's in-process TestClient",
]

ARROW_CT = "application/vnd.apache.arrow.stream"
LOG: list[Any] = []
OUT = pa.schema([pa.field("i", pa.int64())])


class Color(enum.Enum):
    RED = 1
    GREEN = 2


@dataclass(frozen=True)
class Point(ArrowSerializableDataclass):
    """Nested dataclass parameter."""

    x: int
    y: int


@dataclass
class GenState(ProducerState):
    """Producer that finishes at once (or raises first when told to)."""

    boom: str = ""

    def produce(self, out: Any, ctx: Any) -> None:
        LOG.append(["produce"])
        if self.boom:
            raise_kind(self.boom)
        out.finish()


# ------------------------------------------------------------------------------ type table (from the docs)

# key -> (annotation source, arrow type, wire value, repr() the implementation must see)
TYPES: dict[str, tuple[str, pa.DataType, Any, str]] = {
    "int": ("int", pa.int64(), 7, "7"),
    "str": ("str", pa.utf8(), "s", "'s'"),
    "float": ("float", pa.float64(), 1.5, "1.5"),
    "bool": ("bool", pa.bool_(), True, "True"),
    "bytes": ("bytes", pa.binary(), b"\x01", "b'\\x01'"),
    "Color": ("Color", pa.dictionary(pa.int16(), pa.utf8()), "GREEN", "<Color.GREEN: 2>"),
    "Point": ("Point", pa.binary(), None, "Point(x=1, y=2)"),  # wire value filled in lazily
    "int32": ("Annotated[int, ArrowType(pa.int32())]", pa.int32(), 7, "7"),
    "list": ("list[int]", pa.list_(pa.int64()), [1, 2], "[1, 2]"),
    "map": ("dict[str, int]", pa.map_(pa.utf8(), pa.int64()), [("k", 1)], "{'k': 1}"),
}


def wire_value(tkey: str) -> Any:
    if tkey == "Point":
        return Point(x=1, y=2).serialize_to_bytes()
    return TYPES[tkey][2]


# signature: name -> list of (param, type key, optional, default source or None)
SIGS_QUICK: dict[str, list[tuple[str, str, bool, str | None]]] = {
    "i": [("a", "int", False, None)],
    "s": [("a", "str", False, None)],
    "is": [("a", "int", False, None), ("b", "str", False, None)],
    "ff": [("a", "float", False, None), ("b", "float", False, None)],
    "ifb": [("a", "int", False, None), ("b", "float", False, None), ("c", "bool", False, None)],
    "io": [("a", "int", True, None)],
    "iso": [("a", "int", False, None), ("b", "str", True, None)],
    "iid": [("a", "int", False, None), ("b", "int", False, "5")],
    "sdiod": [("a", "str", False, "'d'"), ("b", "int", True, "None")],
    "e": [("e", "Color", False, None)],
    "ieo": [("a", "int", False, None), ("e", "Color", True, None)],
    "p": [("d", "Point", False, None)],
    "w": [("w", "int32", False, None)],
}
SIGS_MORE: dict[str, list[tuple[str, str, bool, str | None]]] = {
    "l": [("l", "list", False, None)],
    "m": [("m", "map", False, None)],
    "yb": [("a", "bytes", False, None), ("b", "bool", False, None)],
    "pow": [("d", "Point", True, None), ("w", "int32", False, None)],
    "eed": [("e", "Color", False, None), ("f", "Color", False, "Color.RED")],
    "lo": [("l", "list", True, None), ("a", "int", False, None)],
}
ALL_SIGS = {**SIGS_QUICK, **SIGS_MORE}
BOOM_KINDS = ["TypeError", "ArrowInvalid", "ArrowTypeError", "KeyError", "ValueError", "StopIteration", "RpcError", "VersionError"]


def raise_kind(kind: str) -> None:
    msg = f"boom-{kind}"
    if kind == "ArrowInvalid":
        raise pa.ArrowInvalid(msg)
    if kind == "ArrowTypeError":
        raise pa.ArrowTypeError(msg)
    if kind == "RpcError":
        raise RpcError("RpcError", msg, "")
    if kind == "VersionError":
        raise VersionError(msg)
    raise {"TypeError": TypeError, "KeyError": KeyError, "ValueError": ValueError, "StopIteration": StopIteration}[kind](msg)


def _gen_source() -> str:
    proto = ["class SigSvc(Protocol):"]
    impl = ["class SigImpl:"]
    for sname, params in ALL_SIGS.items():
        ann = []
        for pn, tk, opt, dflt in params:
            a = TYPES[tk][0] + (" | None" if opt else "")
            ann.append(f"{pn}: {a}" + (f" = {dflt}" if dflt is not None else ""))
        args = ", ".join(["self", *ann])
        logd = "{" + ", ".join(f"'{pn}': repr({pn})" for pn, *_ in params) + "}"
        proto.append(f"    def u_{sname}({args}) -> int: ...")
        proto.append(f"    def s_{sname}({args}) -> Stream[GenState]: ...")
        impl.append(f"    def u_{sname}({args}) -> int:\n        LOG.append(['u_{sname}', {logd}])\n        return 1")
        impl.append(
            f"    def s_{sname}({args}) -> Stream[GenState]:\n        LOG.append(['s_{sname}', {logd}])\n"
            f"        return Stream(output_schema=OUT, state=GenState())"
        )
    proto.append("    def u_boom(self, kind: str) -> int: ...")
    proto.append("    def s_boom(self, kind: str, where: str) -> Stream[GenState]: ...")
    impl.append("    def u_boom(self, kind: str) -> int:\n        LOG.append(['u_boom', kind])\n        raise_kind(kind)\n        return 1")
    impl.append(
        "    def s_boom(self, kind: str, where: str) -> Stream[GenState]:\n        LOG.append(['s_boom', kind, where])\n"
        "        if where == 'init':\n            raise_kind(kind)\n"
        "        return Stream(output_schema=OUT, state=GenState(boom=kind))"
    )
    return "\n".join(proto) + "\n\n" + "\n".join(impl) + "\n"


exec(_gen_source(), globals())  # defines SigSvc, SigImpl from the signature table above


def declared(sname: str) -> list[tuple[str, pa.DataType, bool]]:
    """The declared columns per the documented type mapping (name, arrow type, nullable)."""
    return [(pn, TYPES[tk][1], opt) for pn, tk, opt, _ in ALL_SIGS[sname]]


# ------------------------------------------------------------------------------ retype alphabet

RETYPE_QUICK: dict[str, tuple[pa.DataType, Any]] = {
    "int32": (pa.int32(), 7),
    "int64": (pa.int64(), 7),
    "float64": (pa.float64(), 1.5),
    "utf8": (pa.utf8(), "GREEN"),
    "large_utf8": (pa.large_utf8(), "GREEN"),
    "binary": (pa.binary(), b"\x01"),
    "bool": (pa.bool_(), True),
    "dict16": (pa.dictionary(pa.int16(), pa.utf8()), "GREEN"),
    "dict8": (pa.dictionary(pa.int8(), pa.utf8()), "GREEN"),
    "dict32": (pa.dictionary(pa.int32(), pa.utf8()), "GREEN"),
    "list64": (pa.list_(pa.int64()), [1, 2]),
}
RETYPE_MORE: dict[str, tuple[pa.DataType, Any]] = {
    "int8": (pa.int8(), 7),
    "int16": (pa.int16(), 7),
    "uint64": (pa.uint64(), 7),
    "uint32": (pa.uint32(), 7),
    "float32": (pa.float32(), 1.5),
    "large_binary": (pa.large_binary(), b"\x01"),
    "ts_us": (pa.timestamp("us"), 7),
    "date32": (pa.date32(), 7),
    "dec": (pa.decimal128(10, 0), 7),
    "large_list64": (pa.large_list(pa.int64()), [1, 2]),
    "list32": (pa.list_(pa.int32()), [1, 2]),
    "list64nn": (pa.list_(pa.field("item", pa.int64(), nullable=False)), [1, 2]),
    "struct": (pa.struct([pa.field("x", pa.int64())]), {"x": 1}),
    "null": (pa.null(), None),
    "dict16large": (pa.dictionary(pa.int16(), pa.large_utf8()), "GREEN"),
    "dict16ordered": (pa.dictionary(pa.int16(), pa.utf8(), ordered=True), "GREEN"),
    "map_si": (pa.map_(pa.utf8(), pa.int64()), [("k", 1)]),
    "map_si32": (pa.map_(pa.utf8(), pa.int32()), [("k", 1)]),
    "fixed1": (pa.binary(1), b"\x01"),
}


def retypes(ctx_quick: bool) -> dict[str, tuple[pa.DataType, Any]]:
    return RETYPE_QUICK if ctx_quick else {**RETYPE_QUICK, **RETYPE_MORE}


# ------------------------------------------------------------------------------ request construction


def base_columns(sname: str) -> list[dict[str, Any]]:
    cols = []
    for pn, tk, opt, _ in ALL_SIGS[sname]:
        cols.append({"name": pn, "type": TYPES[tk][1], "nullable": opt, "value": wire_value(tk), "tkey": tk, "opt": opt, "orig": pn, "meta": None})
    return cols


def apply_ops(sname: str, ops: list[list[Any]], quick: bool) -> list[dict[str, Any]]:
    cols = base_columns(sname)
    rt = {**RETYPE_QUICK, **RETYPE_MORE}
    structural = []
    for op in ops:
        k = op[0]
        if k == "rename":
            cols[op[1]]["name"] = op[2]
        elif k == "retype":
            t, v = rt[op[2]]
            cols[op[1]]["type"] = t
            if cols[op[1]]["value"] is not None:
                cols[op[1]]["value"] = v
            if pa.types.is_null(t):
                cols[op[1]]["nullable"] = True  # Arrow cannot frame a non-nullable null-typed field
        elif k == "flip":
            cols[op[1]]["nullable"] = not cols[op[1]]["nullable"]
        elif k == "null":
            cols[op[1]]["value"] = None
            if op[2] == "flagged":
                cols[op[1]]["nullable"] = True
        elif k == "enum":
            cols[op[1]]["value"] = op[2]
        elif k == "fieldmeta":
            cols[op[1]]["meta"] = {"k": "v"}
        else:
            structural.append(op)
    for op in structural:
        k = op[0]
        if k == "perm":
            cols = [cols[i] for i in op[1]]
        elif k == "drop":
            del cols[op[1]]
        elif k == "add":
            t, v = rt[op[3]]
            cols.insert(op[1], {"name": op[2], "type": t, "nullable": pa.types.is_null(t), "value": v, "tkey": None, "opt": False, "orig": None, "meta": None})
    return cols


def to_array(col: dict[str, Any]) -> pa.Array:
    t, v = col["type"], col["value"]
    if pa.types.is_dictionary(t):
        vt = t.value_type
        arr = pa.array([v], type=vt).dictionary_encode()
        return arr.cast(t)
    return pa.array([v], type=t)


def frame(method: str, cols: list[dict[str, Any]]) -> bytes:
    fields = [pa.field(c["name"], c["type"], nullable=c["nullable"], metadata=c["meta"]) for c in cols]
    schema = pa.schema(fields)
    if cols:
        batch = pa.RecordBatch.from_arrays([to_array(c) for c in cols], schema=schema)
    else:
        batch = pa.RecordBatch.from_struct_array(pa.array([{}], pa.struct([])))
    md = {b"vgi_rpc.method": method.encode(), b"vgi_rpc.request_version": b"1"}
    buf = io.BytesIO()
    with pa.ipc.new_stream(buf, schema) as w:
        w.write_batch(batch, custom_metadata=pa.KeyValueMetadata(md))
    return buf.getvalue()


def frame_shm(method: str, sname: str, cols: list[dict[str, Any]], seg: Any) -> tuple[bytes, int] | None:
    """The same request routed through the shared-memory side channel (what a local client does for large requests):
    a zero-row POINTER batch carrying the DECLARED schema goes down the socket, the (perturbed) batch itself sits in the
    segment.  The columns the method would be called with are those of the resolved batch."""
    from vgi_rpc.shm import make_shm_pointer_batch

    fields = [pa.field(c["name"], c["type"], nullable=c["nullable"], metadata=c["meta"]) for c in cols]
    schema = pa.schema(fields)
    if not cols:
        return None
    batch = pa.RecordBatch.from_arrays([to_array(c) for c in cols], schema=schema)
    placed = seg.allocate_and_write(batch)
    if placed is None:
        return None
    off, length = placed
    pschema = pa.schema([pa.field(n, t, nullable=nl) for n, t, nl in declared(sname)])
    if len(pschema) == 0:
        seg.free(off)
        return None
    pb, pcm = make_shm_pointer_batch(pschema, off, length)
    md = {
        b"vgi_rpc.method": method.encode(), b"vgi_rpc.request_version": b"1",
        b"vgi_rpc.shm_segment_name": seg.name.encode(), b"vgi_rpc.shm_segment_size": str(seg.size).encode(),
    }
    md.update({k: v for k, v in pcm.items()})
    buf = io.BytesIO()
    with pa.ipc.new_stream(buf, pb.schema) as w:
        w.write_batch(pb, custom_metadata=pa.KeyValueMetadata(md))
    return buf.getvalue(), off


def tick_stream() -> bytes:
    buf = io.BytesIO()
    e = pa.schema([])
    with pa.ipc.new_stream(buf, e) as w:
        w.write_batch(pa.RecordBatch.from_arrays([], schema=e))
    return buf.getvalue()


TICK = tick_stream()

# ------------------------------------------------------------------------------ the model


def conforms(sname: str, cols: list[dict[str, Any]]) -> tuple[bool, dict[str, str] | None]:
    """(conforming?, the kwargs reprs the method must then see)."""
    decl = declared(sname)
    if len(cols) != len(decl):
        return False, None
    seen: dict[str, str] = {}
    for c, (dn, dt, dnull), (_, tk, opt, _) in zip(cols, decl, ALL_SIGS[sname]):
        if c["name"] != dn or not (c["type"] == dt) or c["nullable"] != dnull:
            return False, None
        if c["value"] is None:
            if not opt:
                return False, None
            seen[dn] = "None"
        else:
            if tk == "Color" and c["value"] not in ("RED", "GREEN"):
                return False, None
            seen[dn] = TYPES[tk][3] if c["value"] == wire_value(tk) else "?"
    return True, seen


# ------------------------------------------------------------------------------ perturbation grammar


def singles(sname: str, quick: bool) -> list[tuple[str, str, list[list[Any]]]]:
    """(kind, detail, ops) for every single perturbation of the signature's valid request."""
    params = ALL_SIGS[sname]
    n = len(params)
    names = [p[0] for p in params]
    out: list[tuple[str, str, list[list[Any]]]] = [("identity", "", [])]
    rts = retypes(quick)
    for i, (pn, tk, opt, dflt) in enumerate(params):
        tlabel = tk + ("?" if opt else "") + ("=d" if dflt is not None else "")
        out.append(("rename", "suffix", [["rename", i, pn + "x"]]))
        out.append(("rename", "case", [["rename", i, pn.upper()]]))
        out.append(("rename", "ctx", [["rename", i, "ctx"]]))
        out.append(("rename", "empty", [["rename", i, ""]]))
        for j, other in enumerate(names):
            if j != i:
                out.append(("rename", "to-sibling", [["rename", i, other]]))
        out.append(("drop", tlabel, [["drop", i]]))
        for rk, (rt, _) in rts.items():
            if rt == TYPES[tk][1]:
                continue
            out.append(("retype", f"{tk}->{rk}", [["retype", i, rk]]))
        out.append(("flip", tlabel, [["flip", i]]))
        out.append(("null", f"{tlabel}:kept", [["null", i, "kept"]]))
        if not opt:
            out.append(("null", f"{tlabel}:flagged", [["null", i, "flagged"]]))
        if tk == "Color":
            out.append(("enum", "unknown", [["enum", i, "PURPLE"]]))
            out.append(("enum", "case", [["enum", i, "green"]]))
            out.append(("enum", "value-not-name", [["enum", i, "2"]]))
            out.append(("enum", "empty", [["enum", i, ""]]))
        out.append(("fieldmeta", tlabel, [["fieldmeta", i]]))
    for perm in itertools.permutations(range(n)):
        if list(perm) != list(range(n)):
            out.append(("perm", "".join(map(str, perm)), [["perm", list(perm)]]))
    for pos in range(n + 1):
        for nm, label in (("zz", "new"), ("ctx", "ctx"), (names[0], "dup")):
            for rk in ("int64", "utf8") + (() if quick else ("bool", "null")):
                out.append(("add", f"{label}:{rk}", [["add", pos, nm, rk]]))
    return out


def pairs(sname: str) -> list[tuple[str, str, list[list[Any]]]]:
    """Thorough: all pairs of non-structural single perturbations on two distinct columns."""
    if len(ALL_SIGS[sname]) < 2:
        return []
    ns = [s for s in singles(sname, True) if s[0] in ("rename", "retype", "flip", "null", "enum", "fieldmeta")]
    out = []
    for a, b in itertools.combinations(ns, 2):
        if a[2][0][1] == b[2][0][1]:
            continue
        out.append((f"{a[0]}+{b[0]}", f"{a[1]}+{b[1]}", a[2] + b[2]))
    return out


# ------------------------------------------------------------------------------ execution


def first_stream(data: bytes) -> dict[str, Any]:
    res: dict[str, Any] = {"ok": False, "rows": 0, "error": None}
    try:
        r = pa.ipc.open_stream(io.BytesIO(data))
        while True:
            try:
                b, cm = r.read_next_batch_with_custom_metadata()
            except StopIteration:
                break
            lvl = cm.get(b"vgi_rpc.log_level") if cm is not None else None
            if lvl is not None:
                if lvl == b"EXCEPTION":
                    extra = {}
                    try:
                        extra = json.loads(cm.get(b"vgi_rpc.log_extra") or b"{}")
                    except Exception:
                        pass
                    res["error"] = {"type": extra.get("exception_type"), "message": extra.get("exception_message", "")}
                continue
            res["rows"] += b.num_rows
        res["ok"] = True
    except Exception as e:  # noqa: BLE001
        res["decode_error"] = repr(e)[:200]
    return res


def run_site(env: dict[str, Any], site: str, method: str, req: bytes) -> dict[str, Any]:
    del LOG[:]
    if site.startswith(("socket", "shm")):
        ct, st = mem.make_mem_pair()
        ct.writer.write(req + (TICK if site.endswith("stream") else b""))
        ct.writer.close()
        exc = None
        try:
            env["sock"].serve(st)
        except BaseException as e:  # noqa: BLE001
            exc = e
        st.close()
        data = ct.reader.read()
        ct.close()
        r = first_stream(data)
        r["status"] = None
        r["marker"] = None
        if exc is not None:
            r["serve_exc"] = repr(exc)[:300]
    else:
        path = f"/{method}/init" if site.endswith("stream") else f"/{method}"
        resp = env["http"].post(path, content=req, headers={"Content-Type": ARROW_CT})
        r = first_stream(resp.content)
        r["status"] = resp.status_code
        r["marker"] = resp.headers.get("x-vgi-rpc-error")
    r["log"] = list(LOG)
    return r


SITES = ["socket-unary", "socket-stream", "http-unary", "http-stream"]
SHM_SITES = ["shm-unary", "shm-stream"]  # socket dispatch, request batch resolved from a client-owned shm segment


def judge(site: str, method: str, conf: bool, seen: dict[str, str] | None, r: dict[str, Any]) -> tuple[str, str | None]:
    """(observed verdict, problem or None)."""
    log = r["log"]
    calls = [e for e in log if e[0] != "produce"]
    http = site.startswith("http")
    rejected_shape = (
        not log
        and r["ok"]
        and r["error"] is not None
        and (not http or r["status"] == 400)
    )
    ran_shape = (
        len(calls) == 1
        and calls[0][0] == method
        and r["ok"]
        and r["error"] is None
        and (not http or (r["status"] == 200 and not r["marker"]))
    )
    verdict = "ran" if calls else ("rejected" if r["error"] is not None else "silent")
    if "serve_exc" in r:
        return verdict, "serve-loop-raised"
    if conf is False:
        if calls:
            return verdict, "invoked-nonconforming"
        if log:
            return verdict, "stream-state-ran-nonconforming"
        if not rejected_shape:
            if http and r["status"] != 400:
                return verdict, f"nonconforming-http-status-{r['status']}"
            return verdict, "nonconforming-no-error-answer"
        return verdict, None
    if conf is True:
        if not ran_shape:
            if not calls:
                return verdict, "conforming-rejected"
            return verdict, "conforming-ran-but-failed"
        if seen is not None and "?" not in seen.values() and calls[0][1] != seen:
            return verdict, "conforming-wrong-arguments"
        return verdict, None
    # either
    if rejected_shape:
        return verdict, None
    if ran_shape:
        return verdict, None
    return verdict, "neither-ran-nor-rejected"


def supercase(ctx: Ctx, env: dict[str, Any], sname: str, kind: str, detail: str, ops: list[list[Any]], sample: bool = False) -> None:
    cols = apply_ops(sname, ops, ctx.quick)
    conf, seen = conforms(sname, cols)
    mode: Any = conf
    if any(op[0] == "fieldmeta" for op in ops) and conf:
        mode = "either"  # metadata is not named by the statement as part of the contract
    if conf:
        ctx.extra["conforming_cases"] += 1
    try:
        reqs = {"u": frame(f"u_{sname}", cols), "s": frame(f"s_{sname}", cols)}
    except (pa.ArrowInvalid, pa.ArrowTypeError, pa.ArrowNotImplementedError, ValueError, TypeError) as e:
        ctx.extra["unframeable"] += 1
        ctx.note(f"unframeable {sname} {ops}: {e!r}"[:200])
        return
    problems: dict[str, list[str]] = {}
    col_t = ""
    if ops and isinstance(ops[0][1], int) and ops[0][0] not in ("add",) and ops[0][1] < len(ALL_SIGS[sname]):
        col_t = ALL_SIGS[sname][ops[0][1]][1]
    for site in SITES:
        method = ("u_" if site.endswith("unary") else "s_") + sname
        r = run_site(env, site, method, reqs["u" if site.endswith("unary") else "s"])
        verdict, prob = judge(site, method, mode, seen, r)
        if prob:
            problems.setdefault(prob, []).append(site)
        ctx.case(
            sample={"sig": sname, "ops": ops, "site": site, "conforming": mode, "observed": verdict, "status": r["status"]} if sample else None,
            nontrivial=(kind, col_t, site, verdict),
            outcome=(verdict, r["status"], None if r["error"] is None else r["error"]["type"]),
        )
    for site in SHM_SITES:
        method = ("u_" if site.endswith("unary") else "s_") + sname
        try:
            fr = frame_shm(method, sname, cols, env["shm"])
        except (pa.ArrowInvalid, pa.ArrowTypeError, pa.ArrowNotImplementedError, ValueError, TypeError):
            fr = None
        if fr is None:
            ctx.extra["shm_unframeable"] = ctx.extra.get("shm_unframeable", 0) + 1
            continue
        try:
            r = run_site(env, site, method, fr[0])
        finally:
            try:
                env["shm"].free(fr[1])
            except Exception:  # noqa: BLE001 - the server may have released the region itself
                pass
        # A declared schema with dictionary (enum) columns travels through the segment WITHOUT a schema message: names,
        # types and flags are then the pointer batch's (= declared) by construction and only the body comes from the
        # payload, so a perturbation need not be visible at all: either complete outcome is accepted there (a crash, a
        # dead serve loop or a half-answer still is not).
        dict_decl = any(pa.types.is_dictionary(t) for _n, t, _f in declared(sname))
        smode = "either" if (dict_decl and mode is False) else mode
        verdict, prob = judge(site, method, smode, seen if smode is True else None, r)
        if prob:
            problems.setdefault(prob, []).append(site)
        ctx.case(nontrivial=(kind, col_t, site, verdict), outcome=(site, verdict, None if r["error"] is None else r["error"]["type"]))
    for prob, sites in problems.items():
        where = "all" if len(sites) >= len(SITES) else "+".join(sites)
        ctx.fail(
            f"{prob}:{kind}:{detail}:{where}",
            f"signature {sname} {ALL_SIGS[sname]}, perturbation {ops} (conforming={mode}): {prob} at {sites}",
            {"t": "pert", "sig": sname, "kind": kind, "detail": detail, "ops": ops},
        )


BOOM_SITES = [("unary", "socket"), ("unary", "http"), ("init", "socket"), ("init", "http"), ("produce", "socket"), ("produce", "http")]


def boomcase(ctx: Ctx, env: dict[str, Any], kind: str, sample: bool = False) -> None:
    kcol = {"name": "kind", "type": pa.utf8(), "nullable": False, "value": kind, "meta": None}
    for where, path in BOOM_SITES:
        if where == "unary":
            method, cols = "u_boom", [kcol]
        else:
            method = "s_boom"
            cols = [kcol, {"name": "where", "type": pa.utf8(), "nullable": False, "value": where, "meta": None}]
        site = f"{path}-{'unary' if where == 'unary' else 'stream'}"
        r = run_site(env, site, method, frame(method, cols))
        prob = None
        e = r["error"]
        if not r["log"] or r["log"][0][0] != method:
            prob = "method-not-invoked"
        elif "serve_exc" in r:
            prob = "serve-loop-raised"
        elif e is None:
            prob = "error-lost"
        elif r["status"] is not None and 400 <= r["status"] < 500:
            prob = f"reported-as-request-error-{r['status']}"
        elif e["type"] != kind or f"boom-{kind}" not in (e["message"] or ""):
            prob = "error-not-the-methods-own"
        ctx.case(
            sample={"boom": kind, "where": where, "path": path, "status": r["status"], "error": e} if sample else None,
            nontrivial=("boom", kind, where, path),
            outcome=("boom", r["status"], None if e is None else e["type"]),
        )
        if prob:
            ctx.fail(
                f"{prob}:{kind}:{where}:{path}",
                f"method raising {kind} at {where} over {path}: {prob}; status={r['status']} marker={r['marker']} error={e} log={r['log']}",
                {"t": "boom", "kind": kind},
            )


def make_env() -> dict[str, Any]:
    import logging

    from vgi_rpc.http._testing import make_sync_client

    logging.getLogger("vgi_rpc").setLevel(logging.CRITICAL)
    from vgi_rpc.shm import ShmSegment

    g = globals()
    return {
        "shm": ShmSegment.create(1 << 20),
        "sock": RpcServer(g["SigSvc"], g["SigImpl"](), server_id="srv"),
        "http": make_sync_client(RpcServer(g["SigSvc"], g["SigImpl"](), server_id="srv"), token_key=b"k" * 32),
    }


def check_declared(ctx: Ctx, env: dict[str, Any], sigs: list[str]) -> None:
    """The hand-written declared schema must be what the server derived (else the model judges the wrong contract)."""
    for sname in sigs:
        for pref in ("u_", "s_"):
            got = env["sock"].methods[pref + sname].params_schema
            want = declared(sname)
            have = [(f.name, f.type, f.nullable) for f in got]
            if len(have) != len(want) or any(a[0] != b[0] or not (a[1] == b[1]) or a[2] != b[2] for a, b in zip(have, want)):
                ctx.fail(f"declared-schema-differs-from-docs:{sname}", f"{pref}{sname}: server derived {got}, documented mapping gives {want}", None)


def drop_env(env: dict[str, Any]) -> None:
    seg = env.get("shm")
    if seg is not None:
        for fn in (seg.unlink, seg.close):
            try:
                fn()
            except Exception:  # noqa: BLE001
                pass


def run(ctx: Ctx) -> None:
    env = make_env()
    try:
        _run(ctx, env)
    finally:
        drop_env(env)


def _run(ctx: Ctx, env: dict[str, Any]) -> None:
    sigs = list(SIGS_QUICK) if ctx.quick else list(ALL_SIGS)
    ctx.extra.update({"signatures": len(sigs) if ctx.shard[0] == 0 else 0, "perturbations": 0, "unframeable": 0, "conforming_cases": 0})
    check_declared(ctx, env, sigs)
    nsample = 0
    for sname in sigs:
        items = singles(sname, ctx.quick) + ([] if ctx.quick else pairs(sname))
        for kind, detail, ops in items:
            if not ctx.mine():
                continue
            take = nsample < 4 and kind in ("retype", "null", "perm", "identity")
            supercase(ctx, env, sname, kind, detail, ops, sample=take)
            nsample += 1 if take else 0
            ctx.extra["perturbations"] += 1
    for kind in BOOM_KINDS:
        if not ctx.mine():
            continue
        boomcase(ctx, env, kind, sample=(kind == "TypeError"))


def replay(ctx: Ctx, case: dict[str, Any]) -> None:
    ctx.extra.update({"unframeable": 0, "conforming_cases": 0})
    env = make_env()
    try:
        if case["t"] == "boom":
            boomcase(ctx, env, case["kind"])
        else:
            supercase(ctx, env, case["sig"], case["kind"], case["detail"], case["ops"])
    finally:
        drop_env(env)

"""C32 — Worker pool: exclusive ownership and clean reuse (E3 schedule exploration + E1 borrower scripts).

Part (a), E3.  The real ``vgi_rpc.pool.WorkerPool`` (``connect`` / ``_borrow`` / ``_return_worker`` /
``_evict_oldest_locked`` / ``_reap_expired`` / ``close`` and ``_PooledTransport.close``) runs under the baton
scheduler.  ``vgi_rpc.pool.threading`` is the cooperative shim (the reaper thread object is a stub that never
starts; a harness task calls ``pool._reap_expired()``), ``vgi_rpc.pool.time`` reads a virtual clock,
``vgi_rpc.pool.SubprocessTransport`` is a fake process (pid, ``proc.poll()`` answered by an environment "worker
dies" event, ``close()`` recorded).  Every source line of the pool methods is a scheduling point, so a dropped or
narrowed lock is still explored.

Invariants, evaluated after *every* step of every schedule (weakest reading):
  (own)   a fake worker is inside the ``with pool.connect(...)`` body of at most one borrower; a worker that sits
          in ``pool._idle`` is inside nobody's body; nobody closes a worker that is inside a borrower's body;
  (hand)  a worker handed to a borrower is not closed, was not already dead when the borrow began, and was spawned
          for the requested command;
  (cap)   whenever the pool lock is free, ``sum(len(idle deque)) <= max_idle``;
  (closed) once ``pool.close()`` has returned and the lock is free the pool holds no idle worker; when every task
          has finished, every worker that is not in the idle set has been closed (no leaked process);
  (live)  no deadlock, no exception other than ``RuntimeError("WorkerPool is closed")``.

Part (b), E1.  Sequential borrower scripts against a pool whose fake process is wired to a REAL ``RpcServer``
(script service of ``vf.kit.prog``) over the in-memory transport: clean unary / stream calls, streams abandoned
after k reads, ``on_log`` raising at every read position (unary, stream header, each tick / exchange, the drain in
``close()`` / ``cancel()``), the body raising mid-stream, server errors.  Oracle: the next borrower of the same
command gets *its own* answers to two probe calls, receives no log message, and sees no exception (a dirty
worker must have been discarded, not re-handed).
"""

from __future__ import annotations

import contextlib
import json
import logging
import types
from typing import Any, Protocol

from vf.core import sched as S
from vf.core.runner import Ctx
from vf.kit import mem, prog

PROPERTY = "C32"
LEVEL = "model_checking"
ENGINE = "E3-SCHED"
SHARDS = {"quick": 8, "thorough": 16}
RULE = (
    "(a) all schedules (preemption bound 2; env events cost 1 in quick, 0 in thorough) of 2-3 borrower threads doing "
    "1-2 `with pool.connect(cmd)` cycles over commands {A,B} against a real WorkerPool(max_idle in {0,1,2}) plus "
    "optional reaper tick (+ clock advance past idle_timeout), pool.close() and a worker-dies event; line-level "
    "scheduling points inside the pool methods; non-trivial = schedule with >=1 choice point. "
    "(b) every borrower script of the stated grammar (call kind x logs x consume mode x on_log-raise position) "
    "followed by a probing borrower; non-trivial = the second borrower was handed the first borrower's worker or "
    "the worker was discarded (class recorded)"
)
TECHNIQUE = (
    "stateless model checking of the real WorkerPool under a controlled thread scheduler (preemption-bounded, "
    "line-granular) with step invariants; exhaustive borrower-script enumeration against a real RpcServer for the "
    "message-boundary clause"
)
LEVEL_TEXT = (
    "Every schedule with <=2 preemptions of 2-3 real borrower threads, the reaper tick, pool.close() and a worker "
    "death against the real WorkerPool code is executed and the ownership / capacity / closed-pool invariants are "
    "checked after every step; the message-boundary clause is decided by running every borrower script of a finite "
    "grammar against a real RpcServer and probing the worker through the next borrow."
)
LEVEL_NOTE = (
    "Granularity is one source line inside the pool methods; the subprocess is a fake (pid/poll/close) in (a) and "
    "an in-process RpcServer thread over an in-memory pipe in (b); OS process semantics are trusted. Bounds: 2-3 "
    "borrowers, <=2 cycles each, 2 commands, max_idle 0..2, preemption bound 2."
)
ASSUMPTIONS = [
    "scheduling granularity is one source line inside WorkerPool/_PooledTransport methods (bytecode-level races inside a line are not explored)",
    "the subprocess is replaced by a fake: (a) pid/poll()/close() only, death is an environment event; (b) a thread running the real RpcServer.serve over an in-memory byte pipe",
    "the reaper thread is not started in (a); its body _reap_expired() is called by a harness task after a virtual clock advance",
    "(b) runs sequentially (one borrower at a time), the server thread is free-running but the byte stream it produces is deterministic",
]

IDLE_TIMEOUT = 30.0
_W: "World | None" = None  # world of the execution in flight (read by the fakes)


# ======================================================================================
# (a) E3 — fakes


class _NoThread:
    """Stands in for the reaper thread: never runs."""

    def __init__(self, *a: Any, **k: Any) -> None:
        self.daemon = True
        self.name = k.get("name", "nothread")

    def start(self) -> None:
        return None

    def join(self, timeout: float | None = None) -> None:
        return None

    def is_alive(self) -> bool:
        return False


class _FakeProc:
    def __init__(self, wid: int, args: list[str], tr: "_FakeTransport") -> None:
        self.pid = 4000 + wid
        self.args = list(args)
        self.returncode: int | None = None
        self._tr = tr

    def poll(self) -> int | None:
        S.point("poll")
        if self._tr.dead:
            self.returncode = -9
            return -9
        return None


class _FakeTransport:
    """What the pool sees instead of SubprocessTransport in part (a)."""

    def __init__(self, cmd: list[str], *, stderr: Any = None, stderr_logger: Any = None) -> None:
        w = _W
        assert w is not None
        S.point("spawn")
        self.wid = len(w.workers)
        self.cmd = tuple(cmd)
        self.proc = _FakeProc(self.wid, list(cmd), self)
        self.closed = False
        self.closes = 0
        self.dead = False
        self.dead_step: int | None = None
        self.holders: set[int] = set()
        w.workers.append(self)

    reader = None
    writer = None

    def close(self) -> None:
        w = _W
        assert w is not None
        S.point("tclose")
        if self.holders:
            w.violate("closed-while-held", f"worker {self.wid} closed while borrower(s) {sorted(self.holders)} hold it")
        self.closed = True
        self.closes += 1


class World:
    def __init__(self, cfg: dict[str, Any], s: S.Sched) -> None:
        self.cfg = cfg
        self.s = s
        self.clk = S.VClock(1000.0)
        self.workers: list[_FakeTransport] = []
        self.viol: list[tuple[str, str]] = []
        self.ops: list[dict[str, Any]] = []
        self.close_returned = False
        self.max_idle_seen = 0
        self.pool: Any = None
        self.reaped = 0

    def violate(self, key: str, msg: str) -> None:
        if not any(k == key for k, _ in self.viol):
            self.viol.append((key, f"{msg} (step {self.s.nsteps})"))

    def idle_list(self) -> list[Any]:
        return [e.transport for dq in self.pool._idle.values() for e in dq]

    def got(self, b: int, tr: Any, rec: dict[str, Any], cmd: str) -> None:
        rec["w"] = getattr(tr, "wid", None)
        if not isinstance(tr, _FakeTransport):
            self.violate("handed-foreign-object", f"borrower {b} got {tr!r}")
            return
        if tr.closed:
            self.violate("handed-closed-worker", f"borrower {b} was handed worker {tr.wid} which had been closed")
        if tr.holders:
            self.violate("double-hand-out", f"worker {tr.wid} handed to borrower {b} while {sorted(tr.holders)} hold it")
        if tr.cmd != (cmd,):
            self.violate("wrong-command-worker", f"borrower {b} asked for {cmd!r} and got a worker spawned for {tr.cmd!r}")
        if tr.dead and tr.dead_step is not None and tr.dead_step < rec["begin"]:
            self.violate("handed-dead-worker", f"borrower {b} was handed worker {tr.wid} that died before the borrow began")
        tr.holders.add(b)

    def step_invariants(self) -> Any:
        pool = self.pool
        idle = self.idle_list()
        for w in self.workers:
            if len(w.holders) > 1:
                self.violate("double-hand-out", f"worker {w.wid} held by borrowers {sorted(w.holders)}")
        seen: set[int] = set()
        for t in idle:
            if id(t) in seen:
                self.violate("idle-duplicate", f"worker {t.wid} is twice in the idle set")
            seen.add(id(t))
            if t.holders:
                self.violate("idle-and-held", f"worker {t.wid} is idle in the pool and held by {sorted(t.holders)}")
        lock_free = getattr(pool._lock, "owner", None) is None
        if lock_free:
            n = len(idle)
            self.max_idle_seen = max(self.max_idle_seen, n)
            mi = self.cfg["max_idle"]
            if n > mi:
                self.violate(
                    f"idle-exceeds-max_idle:max_idle={'0' if mi == 0 else '>=1'}",
                    f"{n} idle workers with max_idle={mi} (pool lock free)",
                )
            if self.close_returned and n:
                self.violate("closed-pool-holds-idle", f"{n} idle workers after close() returned")
            for t in idle:
                if t.closed:
                    self.violate("closed-worker-in-idle", f"worker {t.wid} was closed but sits in the idle set")
        return (
            tuple((k, tuple(e.transport.wid for e in dq)) for k, dq in sorted(pool._idle.items())),
            pool._closed,
            pool._active,
            tuple((w.closed, w.dead, tuple(sorted(w.holders))) for w in self.workers),
            self.clk.now,
        )


class _Proto(Protocol):
    """Trivial protocol for the borrowers of part (a) (no call is made)."""

    def ping(self, n: int) -> int:
        """Probe."""
        ...


@contextlib.contextmanager
def bound_pool_a():
    import vgi_rpc.pool as POOL

    saved = {k: getattr(POOL, k) for k in ("threading", "time", "atexit", "SubprocessTransport")}
    lg = logging.getLogger("vgi_rpc.pool")
    old_level = lg.level
    lg.setLevel(logging.CRITICAL + 10)
    POOL.threading = S.threading_shim(Thread=_NoThread)  # type: ignore[attr-defined]
    POOL.time = types.SimpleNamespace(monotonic=lambda: _W.clk.now)  # type: ignore[attr-defined,union-attr]
    POOL.atexit = types.SimpleNamespace(register=lambda f, *a, **k: f, unregister=lambda f: None)  # type: ignore[attr-defined]
    POOL.SubprocessTransport = _FakeTransport  # type: ignore[attr-defined,misc]
    try:
        yield POOL
    finally:
        for k, v in saved.items():
            setattr(POOL, k, v)
        lg.setLevel(old_level)


def make_setup(cfg: dict[str, Any]):
    def setup(s: S.Sched) -> Any:
        global _W
        import vgi_rpc.pool as POOL

        w = World(cfg, s)
        _W = w
        pool = POOL.WorkerPool(max_idle=cfg["max_idle"], idle_timeout=IDLE_TIMEOUT)
        w.pool = pool

        def borrower(i: int, cmds: list[str]) -> None:
            for c in cmds:
                rec: dict[str, Any] = {"b": i, "cmd": c, "begin": s.nsteps, "w": None, "res": None}
                w.ops.append(rec)
                S.point(f"b{i}:begin")
                rec["begin"] = s.nsteps
                try:
                    with pool.connect(_Proto, [c]) as proxy:
                        tr = proxy._transport._inner
                        w.got(i, tr, rec, c)
                        S.point(f"b{i}:hold")
                        if isinstance(tr, _FakeTransport):
                            tr.holders.discard(i)
                    rec["res"] = "ok"
                except RuntimeError as e:
                    if "closed" not in str(e):
                        raise
                    rec["res"] = "refused"

        for i, cmds in enumerate(cfg["progs"]):
            s.spawn(lambda i=i, cmds=cmds: borrower(i, cmds), f"b{i}")
        if cfg.get("reap"):
            def reaper() -> None:
                S.point("reaper:tick")
                before = len(w.idle_list())
                pool._reap_expired()
                w.reaped += before - len(w.idle_list()) if before >= len(w.idle_list()) else 0

            s.spawn(reaper, "reaper")
            s.spawn(lambda: w.clk.advance(IDLE_TIMEOUT), "clock", env=True)
        if cfg.get("close"):
            def closer() -> None:
                S.point("closer:begin")
                pool.close()
                w.close_returned = True

            s.spawn(closer, "closer")
        if cfg.get("die") is not None:
            k = cfg["die"]

            def die() -> None:
                if len(w.workers) > k and not w.workers[k].closed and not w.workers[k].dead:
                    w.workers[k].dead = True
                    w.workers[k].dead_step = s.nsteps

            s.spawn(die, "die", env=True)
        s.state_fn = w.step_invariants
        return w

    return setup


TRACE = S.trace_window(
    ("vgi_rpc/pool.py", "WorkerPool._borrow"),
    ("vgi_rpc/pool.py", "WorkerPool._return_worker"),
    ("vgi_rpc/pool.py", "WorkerPool._evict_oldest_locked"),
    ("vgi_rpc/pool.py", "WorkerPool._reap_expired"),
    ("vgi_rpc/pool.py", "WorkerPool.close"),
    ("vgi_rpc/pool.py", "WorkerPool.connect"),
    ("vgi_rpc/pool.py", "_PooledTransport.close"),
)


def oracle_a(ctx: Ctx, cfg: dict[str, Any], x: S.Exec, tier: str) -> Any:
    w: World = x.world
    rep = {"part": "a", "cfg": cfg, "tier": tier, **x.schedule()}
    tag = f"max_idle={cfg['max_idle']}"
    if x.deadlock:
        ctx.fail("a:deadlock", f"deadlock in WorkerPool under {cfg}", rep)
    for t in x.tasks:
        if t.exc is not None:
            ctx.fail(f"a:exception:{type(t.exc).__name__}", f"task {t.name} raised {t.exc!r} under {cfg}", rep)
    if not x.deadlock and not x.livelock:
        idle = {id(t) for t in w.idle_list()}
        for t in w.workers:
            if not t.closed and id(t) not in idle:
                w.violate("leaked-worker", f"worker {t.wid} is neither idle in the pool nor closed when all tasks finished")
        if w.pool._closed and w.close_returned:
            for t in w.workers:
                if not t.closed:
                    w.violate("closed-pool-live-worker", f"worker {t.wid} not closed although the pool was closed and all borrowers finished")
    for key, msg in w.viol:
        ctx.fail(f"a:{key}", f"{msg}; {tag}; cfg {cfg}", rep)
    return (
        tuple((o["b"], o["cmd"], o["w"], o["res"]) for o in w.ops),
        w.max_idle_seen,
        len(w.workers),
        sum(1 for t in w.workers if t.closed),
        tuple(k for k, _ in w.viol),
    )


def configs_a(ctx: Ctx) -> list[dict[str, Any]]:
    out: list[dict[str, Any]] = []

    def add(mi: int, progs: list[list[str]], bound: int = 2, **kw: Any) -> None:
        out.append({"max_idle": mi, "progs": progs, "bound": bound, **kw})

    two = [[["A"], ["A"]], [["A", "A"], ["A"]], [["A"], ["B"]], [["A", "B"], ["A"]]]
    if ctx.quick:
        for mi in (0, 1, 2):
            add(mi, two[0])
            add(mi, two[1])
        add(1, two[2])
        add(1, two[3])
        add(1, two[1], reap=True)
        add(2, two[1], reap=True)
        add(1, two[1], close=True)
        add(2, two[0], close=True)
        add(0, two[0], close=True)
        add(1, two[1], die=0)
        add(2, two[1], die=0)
        add(1, [["A"], ["A"], ["A"]], bound=1)
        return out
    for mi in (0, 1, 2):
        for p in two:
            add(mi, p)
            add(mi, p, reap=True)
            add(mi, p, close=True)
            add(mi, p, die=0)
        add(mi, two[1], reap=True, close=True)
        add(mi, two[1], close=True, die=0)
        add(mi, [["A"], ["A"], ["A"]])
        add(mi, [["A"], ["A"], ["B"]])
        add(mi, [["A", "A"], ["A"], ["A"]], bound=1, close=True)
    return out


def run_a(ctx: Ctx) -> None:
    with bound_pool_a():
        for cfg in configs_a(ctx):
            if not ctx.mine():
                continue
            st = S.explore(
                ctx, make_setup(cfg), lambda x, cfg=cfg: oracle_a(ctx, cfg, x, ctx.tier), bound=cfg["bound"],
                label="a:" + json.dumps(cfg, sort_keys=True), trace=TRACE, env_cost=1 if ctx.quick else 0,
            )
            ctx.extra["a_schedules"] += st["schedules"]
            ctx.extra["a_configs"] += 1
            ctx.extra["a_deadlocks"] += st["deadlocks"]
            ctx.extra["max_choice_points"] = max(ctx.extra["max_choice_points"], st["max_points"])
            ctx.extra["max_steps"] = max(ctx.extra["max_steps"], st["max_steps"])
            if st["bound_completed"] < cfg["bound"]:
                ctx.cap(f"bound {cfg['bound']} not completed for {cfg}")


def run(ctx: Ctx) -> None:
    ctx.extra.update({"a_schedules": 0, "a_configs": 0, "a_deadlocks": 0, "max_choice_points": 0, "max_steps": 0})
    run_a(ctx)


def replay(ctx: Ctx, case: dict[str, Any]) -> None:
    if case.get("part") == "a":
        cfg = case["cfg"]
        with bound_pool_a():
            x = S.run_one(make_setup(cfg), case["choices"], None, trace=TRACE, env_cost=1 if case.get("tier", "quick") == "quick" else 0)
            oracle_a(ctx, cfg, x, case.get("tier", "quick"))

"""C32 — Worker pool: exclusive ownership and clean reuse (E3 schedule exploration + E1 borrower scripts).

Part (a), E3.  The real ``vgi_rpc.pool.WorkerPool`` (``connect`` / ``_borrow`` / ``_return_worker`` /
``_evict_oldest_locked`` / ``_reap_expired`` / ``close`` and ``_PooledTransport.close``) runs under the baton
scheduler.  ``vgi_rpc.pool.threading`` is the cooperative shim (the reaper thread object is a stub that never
starts; a harness task calls ``pool._reap_expired()``), ``vgi_rpc.pool.time`` reads a virtual clock,
``vgi_rpc.pool.SubprocessTransport`` is a fake process (pid, ``proc.poll()`` answered by an environment "worker
dies" event, ``close()`` recorded).  Every source line of the pool methods is a scheduling point, so a dropped or
narrowed lock is still explored.

Invariants, evaluated after *every* step of every schedule (weakest reading):
  (own)   a fake worker is inside the ``with pool.connect(...)`` body of at most one borrower; a worker that sits
          in ``pool._idle`` is inside nobody's body; nobody closes a worker that is inside a borrower's body;
  (hand)  a worker handed to a borrower is not closed, was not already dead when the borrow began, and was spawned
          for the requested command;
  (cap)   whenever the pool lock is free, ``sum(len(idle deque)) <= max_idle``;
  (closed) once ``pool.close()`` has returned and the lock is free the pool holds no idle worker; when every task
          has finished, every worker that is not in the idle set has been closed (no leaked process);
  (live)  no deadlock, no exception other than ``RuntimeError("WorkerPool is closed")``.

Part (b), E1.  Sequential borrower scripts against a pool whose fake process is wired to a REAL ``RpcServer``
(script service of ``vf.kit.prog``) over the in-memory transport: clean unary / stream calls, streams abandoned
after k reads, ``on_log`` raising at every read position (unary, stream header, each tick / exchange, the drain in
``close()`` / ``cancel()``), the body raising mid-stream, server errors.  Oracle: the next borrower of the same
command gets *its own* answers to two probe calls, receives no log message, and sees no exception (a dirty
worker must have been discarded, not re-handed).
"""

from __future__ import annotations

import contextlib
import json
import logging
import os
import types
from typing import Any, Protocol

from vf.core import sched as S
from vf.core.runner import Ctx
from vf.kit import mem, prog

PROPERTY = "C32"
LEVEL = "model_checking"
ENGINE = "E3-SCHED"
SHARDS = {"quick": 8, "thorough": 16}
RULE = (
    "(a) all schedules (preemption bound 1-2 quick, 1-3 thorough; environment events cost one preemption, none in the "
    "thorough env_cost=0 configurations) of 2-3 borrower threads doing "
    "1-2 `with pool.connect(cmd)` cycles over commands {A,B} against a real WorkerPool(max_idle in {0,1,2}) plus "
    "optional reaper tick (+ clock advance past idle_timeout), pool.close() and a worker-dies event; line-level "
    "scheduling points inside the pool methods; non-trivial = schedule with >=1 choice point. "
    "(b) every borrower script of the stated grammar (call kind x logs x consume mode x on_log-raise position) "
    "followed by a probing borrower; non-trivial = the second borrower was handed the first borrower's worker or "
    "the worker was discarded (class recorded)"
)
TECHNIQUE = (
    "stateless model checking of the real WorkerPool under a controlled thread scheduler (preemption-bounded, "
    "line-granular in the traced configurations) with step invariants; exhaustive borrower-script enumeration against a real RpcServer for the "
    "message-boundary clause"
)
LEVEL_TEXT = (
    "Every schedule with <=2 preemptions of 2-3 real borrower threads, the reaper tick, pool.close() and a worker "
    "death against the real WorkerPool code is executed and the ownership / capacity / closed-pool invariants are "
    "checked after every step; the message-boundary clause is decided by running every borrower script of a finite "
    "grammar against a real RpcServer and probing the worker through the next borrow."
)
LEVEL_NOTE = (
    "Granularity is one source line inside the pool methods; the subprocess is a fake (pid/poll/close) in (a) and "
    "an in-process RpcServer thread over an in-memory pipe in (b); OS process semantics are trusted. Bounds: 2-3 "
    "borrowers, <=2 cycles each, 2 commands, max_idle 0..2, preemption bound 1-3 as listed per configuration."
)
ASSUMPTIONS = [
    "scheduling granularity is one source line inside WorkerPool/_PooledTransport methods (bytecode-level races inside a line are not explored)",
    "the subprocess is replaced by a fake: (a) pid/poll()/close() only, death is an environment event; (b) a thread running the real RpcServer.serve over an in-memory byte pipe",
    "the reaper thread is not started in (a); its body _reap_expired() is called by a harness task after a virtual clock advance",
    "(b) runs sequentially (one borrower at a time), the server thread is free-running but the byte stream it produces is deterministic",
]

IDLE_TIMEOUT = 30.0
_DEV_CAP = int(os.environ.get("VF_DEV_CAP", "0")) or None  # development only: cap schedules per config (reported as a cap)
_W: "World | None" = None  # world of the execution in flight (read by the fakes)


# ======================================================================================
# (a) E3 — fakes


def _monotonic() -> float:
    S.point("monotonic")
    return _W.clk.now  # type: ignore[union-attr]


class _NoThread:
    """Stands in for the reaper thread: never runs."""

    def __init__(self, *a: Any, **k: Any) -> None:
        self.daemon = True
        self.name = k.get("name", "nothread")

    def start(self) -> None:
        return None

    def join(self, timeout: float | None = None) -> None:
        return None

    def is_alive(self) -> bool:
        return False


class _FakeProc:
    def __init__(self, wid: int, args: list[str], tr: "_FakeTransport") -> None:
        self.pid = 4000 + wid
        self.args = list(args)
        self.returncode: int | None = None
        self._tr = tr

    def poll(self) -> int | None:
        S.point("poll")
        if self._tr.dead:
            self.returncode = -9
            return -9
        return None


class _FakeTransport:
    """What the pool sees instead of SubprocessTransport in part (a)."""

    def __init__(self, cmd: list[str], *, stderr: Any = None, stderr_logger: Any = None) -> None:
        w = _W
        assert w is not None
        S.point("spawn")
        self.wid = len(w.workers)
        self.cmd = tuple(cmd)
        self.proc = _FakeProc(self.wid, list(cmd), self)
        self.closed = False
        self.closes = 0
        self.dead = False
        self.dead_step: int | None = None
        self.holders: set[int] = set()
        w.workers.append(self)

    reader = None
    writer = None

    def close(self) -> None:
        w = _W
        assert w is not None
        S.point("tclose")
        if self.holders:
            w.violate("closed-while-held", f"worker {self.wid} closed while borrower(s) {sorted(self.holders)} hold it")
        self.closed = True
        self.closes += 1


class World:
    def __init__(self, cfg: dict[str, Any], s: S.Sched) -> None:
        self.cfg = cfg
        self.s = s
        self.clk = S.VClock(1000.0)
        self.workers: list[_FakeTransport] = []
        self.viol: list[tuple[str, str]] = []
        self.ops: list[dict[str, Any]] = []
        self.close_returned = False
        self.max_idle_seen = 0
        self.pool: Any = None
        self.reaped = 0

    def violate(self, key: str, msg: str) -> None:
        if not any(k == key for k, _ in self.viol):
            self.viol.append((key, f"{msg} (step {self.s.nsteps})"))

    def idle_list(self) -> list[Any]:
        return [e.transport for dq in self.pool._idle.values() for e in dq]

    def got(self, b: int, tr: Any, rec: dict[str, Any], cmd: str) -> None:
        rec["w"] = getattr(tr, "wid", None)
        if not isinstance(tr, _FakeTransport):
            self.violate("handed-foreign-object", f"borrower {b} got {tr!r}")
            return
        if tr.closed:
            self.violate("handed-closed-worker", f"borrower {b} was handed worker {tr.wid} which had been closed")
        if tr.holders:
            self.violate("double-hand-out", f"worker {tr.wid} handed to borrower {b} while {sorted(tr.holders)} hold it")
        if tr.cmd != (cmd,):
            self.violate("wrong-command-worker", f"borrower {b} asked for {cmd!r} and got a worker spawned for {tr.cmd!r}")
        if tr.dead and tr.dead_step is not None and tr.dead_step < rec["begin"]:
            self.violate("handed-dead-worker", f"borrower {b} was handed worker {tr.wid} that died before the borrow began")
        tr.holders.add(b)

    def step_invariants(self) -> Any:
        pool = self.pool
        idle = self.idle_list()
        for w in self.workers:
            if len(w.holders) > 1:
                self.violate("double-hand-out", f"worker {w.wid} held by borrowers {sorted(w.holders)}")
        seen: set[int] = set()
        for t in idle:
            if id(t) in seen:
                self.violate("idle-duplicate", f"worker {t.wid} is twice in the idle set")
            seen.add(id(t))
            if t.holders:
                self.violate("idle-and-held", f"worker {t.wid} is idle in the pool and held by {sorted(t.holders)}")
        lock_free = getattr(pool._lock, "owner", None) is None
        if lock_free:
            n = len(idle)
            self.max_idle_seen = max(self.max_idle_seen, n)
            mi = self.cfg["max_idle"]
            if n > mi:
                self.violate(
                    f"idle-exceeds-max_idle:max_idle={'0' if mi == 0 else '>=1'}",
                    f"{n} idle workers with max_idle={mi} (pool lock free)",
                )
            if self.close_returned and n:
                self.violate("closed-pool-holds-idle", f"{n} idle workers after close() returned")
            for t in idle:
                if t.closed:
                    self.violate("closed-worker-in-idle", f"worker {t.wid} was closed but sits in the idle set")
        return (
            tuple((k, tuple(e.transport.wid for e in dq)) for k, dq in sorted(pool._idle.items())),
            pool._closed,
            pool._active,
            tuple((w.closed, w.dead, tuple(sorted(w.holders))) for w in self.workers),
            self.clk.now,
        )


class _Proto(Protocol):
    """Trivial protocol for the borrowers of part (a) (no call is made)."""

    def ping(self, n: int) -> int:
        """Probe."""
        ...


@contextlib.contextmanager
def bound_pool_a():
    import vgi_rpc.pool as POOL

    saved = {k: getattr(POOL, k) for k in ("threading", "time", "atexit", "SubprocessTransport")}
    lg = logging.getLogger("vgi_rpc.pool")
    old_level = lg.level
    lg.setLevel(logging.CRITICAL + 10)
    POOL.threading = S.threading_shim(Thread=_NoThread)  # type: ignore[attr-defined]
    POOL.time = types.SimpleNamespace(monotonic=_monotonic)  # type: ignore[attr-defined]
    POOL.atexit = types.SimpleNamespace(register=lambda f, *a, **k: f, unregister=lambda f: None)  # type: ignore[attr-defined]
    POOL.SubprocessTransport = _FakeTransport  # type: ignore[attr-defined,misc]
    try:
        yield POOL
    finally:
        for k, v in saved.items():
            setattr(POOL, k, v)
        lg.setLevel(old_level)


def make_setup(cfg: dict[str, Any]):
    def setup(s: S.Sched) -> Any:
        global _W
        import vgi_rpc.pool as POOL

        w = World(cfg, s)
        _W = w
        pool = POOL.WorkerPool(max_idle=cfg["max_idle"], idle_timeout=IDLE_TIMEOUT)
        w.pool = pool

        def borrower(i: int, cmds: list[str]) -> None:
            for c in cmds:
                rec: dict[str, Any] = {"b": i, "cmd": c, "begin": s.nsteps, "w": None, "res": None}
                w.ops.append(rec)
                S.point(f"b{i}:begin")
                rec["begin"] = s.nsteps
                try:
                    with pool.connect(_Proto, [c]) as proxy:
                        tr = proxy._transport._inner
                        w.got(i, tr, rec, c)
                        S.point(f"b{i}:hold")
                        if isinstance(tr, _FakeTransport):
                            tr.holders.discard(i)
                    rec["res"] = "ok"
                except RuntimeError as e:
                    if "closed" not in str(e):
                        raise
                    rec["res"] = "refused"

        for i, cmds in enumerate(cfg["progs"]):
            s.spawn(lambda i=i, cmds=cmds: borrower(i, cmds), f"b{i}")
        if cfg.get("reap"):
            def reaper() -> None:
                S.point("reaper:tick")
                before = len(w.idle_list())
                pool._reap_expired()
                w.reaped += before - len(w.idle_list()) if before >= len(w.idle_list()) else 0

            s.spawn(reaper, "reaper")
            s.spawn(lambda: w.clk.advance(IDLE_TIMEOUT), "clock", env=True)
        if cfg.get("close"):
            def closer() -> None:
                S.point("closer:begin")
                pool.close()
                w.close_returned = True

            s.spawn(closer, "closer")
        if cfg.get("die") is not None:
            k = cfg["die"]

            def die() -> None:
                if len(w.workers) > k and not w.workers[k].closed and not w.workers[k].dead:
                    w.workers[k].dead = True
                    w.workers[k].dead_step = s.nsteps

            s.spawn(die, "die", env=True)
        s.state_fn = w.step_invariants
        return w

    return setup


TRACE = S.trace_window(
    ("vgi_rpc/pool.py", "WorkerPool._borrow"),
    ("vgi_rpc/pool.py", "WorkerPool._return_worker"),
    ("vgi_rpc/pool.py", "WorkerPool._evict_oldest_locked"),
    ("vgi_rpc/pool.py", "WorkerPool._reap_expired"),
    ("vgi_rpc/pool.py", "WorkerPool.close"),
)


def oracle_a(ctx: Ctx, cfg: dict[str, Any], x: S.Exec, tier: str) -> Any:
    w: World = x.world
    rep = {"part": "a", "cfg": cfg, "tier": tier, **x.schedule()}
    tag = f"max_idle={cfg['max_idle']}"
    if x.deadlock:
        ctx.fail("a:deadlock", f"deadlock in WorkerPool under {cfg}", rep)
    for t in x.tasks:
        if t.exc is not None:
            ctx.fail(f"a:exception:{type(t.exc).__name__}", f"task {t.name} raised {t.exc!r} under {cfg}", rep)
    if not x.deadlock and not x.livelock:
        idle = {id(t) for t in w.idle_list()}
        for t in w.workers:
            if not t.closed and id(t) not in idle:
                w.violate("leaked-worker", f"worker {t.wid} is neither idle in the pool nor closed when all tasks finished")
        if w.pool._closed and w.close_returned:
            for t in w.workers:
                if not t.closed:
                    w.violate("closed-pool-live-worker", f"worker {t.wid} not closed although the pool was closed and all borrowers finished")
    for key, msg in w.viol:
        ctx.fail(f"a:{key}", f"{msg}; {tag}; cfg {cfg}", rep)
    return (
        tuple((o["b"], o["cmd"], o["w"], o["res"]) for o in w.ops),
        w.max_idle_seen,
        len(w.workers),
        sum(1 for t in w.workers if t.closed),
        tuple(k for k, _ in w.viol),
    )


def configs_a(ctx: Ctx) -> list[dict[str, Any]]:
    """Deterministic list of harness configurations.  ``trace``: line-level points inside the pool methods (else only
    the lock / poll / spawn / close / clock operations are scheduling points); ``env_cost``: preemption cost of
    switching to an environment event (clock advance, worker death) while the running task could continue."""
    out: list[dict[str, Any]] = []

    def add(mi: int, progs: list[list[str]], bound: int = 2, trace: bool = False, env_cost: int = 1, **kw: Any) -> None:
        out.append({"max_idle": mi, "progs": progs, "bound": bound, "trace": trace, "env_cost": env_cost, **kw})

    two = [[["A"], ["A"]], [["A", "A"], ["A"]], [["A"], ["B"]], [["A", "B"], ["A"]]]
    three = [[["A"], ["A"], ["A"]], [["A"], ["A"], ["B"]]]
    if ctx.quick:
        for mi in (0, 1, 2):
            add(mi, two[0])
            add(mi, two[1])
            add(mi, two[0], bound=1, reap=True)
            add(mi, two[0], close=True)
            if mi < 2:
                add(mi, two[1], die=0)
                # line-granular: every pair of preemptions at every source line of the pool methods
                add(mi, two[0], bound=2, trace=True)
        add(1, two[1], bound=1, reap=True)
        add(1, two[2])
        add(1, two[3])
        add(1, two[3], bound=1, reap=True)
        add(1, three[0], bound=1)
        add(1, three[1], bound=1)
        add(2, three[0], bound=1, close=True)
        add(2, two[0], bound=1, trace=True)
        add(1, two[1], bound=1, trace=True)
        add(1, two[0], bound=1, trace=True, close=True)
        add(2, two[1], bound=1, trace=True, reap=True)
        add(1, two[1], bound=1, trace=True, die=0)
        return out
    for mi in (0, 1, 2):
        add(mi, two[0], bound=3)
        add(mi, two[1], bound=3)
        add(mi, two[2], bound=3)
        add(mi, two[3])
        add(mi, two[0], bound=1, reap=True, env_cost=0)
        add(mi, two[1], bound=1, reap=True)
        add(mi, two[3], bound=1, reap=True)
        add(mi, two[0], close=True)
        add(mi, two[1], close=True)
        add(mi, two[0], die=0, env_cost=0)
        add(mi, two[1], die=0)
        add(mi, two[1], bound=1, reap=True, close=True)
        add(mi, two[1], bound=1, close=True, die=0)
        add(mi, three[0])
        add(mi, three[1])
        add(mi, three[0], bound=1, close=True)
        add(mi, [["A", "A"], ["A"], ["A"]], bound=1, close=True)
        # line-granular
        add(mi, two[0], bound=2, trace=True)
        add(mi, two[2], bound=2, trace=True)
        add(mi, two[1], bound=1, trace=True)
        add(mi, two[0], bound=1, trace=True, close=True)
        add(mi, two[3], bound=1, trace=True, close=True)
        add(mi, two[1], bound=1, trace=True, reap=True)
        add(mi, two[1], bound=1, trace=True, die=0)
    return out


def run_a(ctx: Ctx) -> None:
    with bound_pool_a():
        for cfg in configs_a(ctx):
            if not ctx.mine():
                continue
            st = S.explore(
                ctx, make_setup(cfg), lambda x, cfg=cfg: oracle_a(ctx, cfg, x, ctx.tier), bound=cfg["bound"],
                label="a:" + json.dumps(cfg, sort_keys=True), trace=TRACE if cfg["trace"] else None,
                env_cost=cfg["env_cost"], max_execs=_DEV_CAP,
            )
            ctx.extra["a_schedules"] += st["schedules"]
            ctx.extra["config_sizes"].append(f"{json.dumps(cfg, sort_keys=True)} -> {st['schedules']}")
            ctx.extra["a_configs"] += 1
            ctx.extra["a_deadlocks"] += st["deadlocks"]
            ctx.extra["max_choice_points"] = max(ctx.extra["max_choice_points"], st["max_points"])
            ctx.extra["max_steps"] = max(ctx.extra["max_steps"], st["max_steps"])
            if st["bound_completed"] < cfg["bound"]:
                ctx.cap(f"bound {cfg['bound']} not completed for {cfg}")


# ======================================================================================
# (b) E1 — borrower scripts against a real RpcServer


class Boom(Exception):
    """Raised by the borrower's on_log callback / body (a client-side exception)."""


_B: dict[str, Any] = {"workers": [], "server": None}


class _MemProc:
    def __init__(self, wid: int, args: list[str], sth: mem.ServerThread) -> None:
        self.pid = 7000 + wid
        self.args = list(args)
        self.returncode: int | None = None
        self._sth = sth

    def poll(self) -> int | None:
        if self._sth.alive():
            return None
        self.returncode = 0
        return 0


class _MemWorker:
    """SubprocessTransport stand-in of part (b): the 'process' is a thread running the real RpcServer.serve on the
    server end of an in-memory pipe; stdin/stdout are the client end."""

    def __init__(self, cmd: list[str], *, stderr: Any = None, stderr_logger: Any = None) -> None:
        self.ct, self.sv = mem.make_mem_pair()
        self.sth = mem.ServerThread(_B["server"], self.sv).start()
        self.wid = len(_B["workers"])
        self.proc = _MemProc(self.wid, list(cmd), self.sth)
        self.closed = False
        self.stuck = False
        _B["workers"].append(self)

    @property
    def reader(self) -> Any:
        return self.ct.reader

    @property
    def writer(self) -> Any:
        return self.ct.writer

    def close(self) -> None:
        if self.closed:
            return
        self.closed = True
        if not self.sth.stop(self.ct, timeout=20):
            self.stuck = True


@contextlib.contextmanager
def bound_pool_b():
    import vgi_rpc.pool as POOL
    from vgi_rpc.rpc import RpcServer

    saved = POOL.SubprocessTransport
    lg = logging.getLogger("vgi_rpc.pool")
    old_level = lg.level
    lg.setLevel(logging.CRITICAL + 10)
    POOL.SubprocessTransport = _MemWorker  # type: ignore[misc]
    _B["server"] = RpcServer(prog.ScriptSvc, prog.ScriptImpl())
    try:
        yield POOL
    finally:
        POOL.SubprocessTransport = saved  # type: ignore[misc]
        lg.setLevel(old_level)


def _log(i: int) -> list[Any]:
    return ["log", "INFO", f"m{i}", {}]


def scenarios(ctx: Ctx) -> list[dict[str, Any]]:
    """Borrower-1 scripts (without the on_log-raise position, which is enumerated per script from the number of
    log messages the clean run delivered)."""
    out: list[dict[str, Any]] = []
    nlogs = (0, 1, 2) if ctx.quick else (0, 1, 2, 3)
    # unary
    for m in ("unary", "unary_none"):
        for n in nlogs:
            for end in ("ret", "raise"):
                acts = [_log(i) for i in range(n)] + ([["ret", 5]] if end == "ret" else [["raise", "ValueError", "bad"]])
                out.append({"fam": "unary", "method": m, "script": {"acts": acts}, "consume": "all", "inputs": []})
    # producers: 2-3 emitting steps, optional logs in init and before each emit
    shapes = [(2, 0, 0), (2, 1, 0), (2, 0, 1), (2, 1, 1)] if ctx.quick else [(2, 0, 0), (2, 1, 0), (2, 0, 1), (2, 1, 1), (3, 1, 1), (3, 0, 2)]
    takes = (0, 1, 2) if ctx.quick else (0, 1, 2, 3)
    for m in ("produce", "produce_h"):
        for nsteps, li, ls in shapes:
            steps = [[_log(10 * k + j) for j in range(ls)] + [["emit", 1, None]] for k in range(nsteps)] + [[["finish"]]]
            sc = {"init": [_log(90 + j) for j in range(li)], "hdr": 3, "steps": steps, "out": "is"}
            out.append({"fam": "producer", "method": m, "script": sc, "consume": "all", "inputs": []})
            for k in takes:
                if k > nsteps:
                    continue
                for fin in ("close", "cancel", "drop"):
                    out.append({"fam": "producer", "method": m, "script": sc, "consume": ["take", k, fin], "inputs": []})
            # server-side error in the second step
            sc2 = dict(sc, steps=[steps[0], [_log(50)] * ls + [["raise", "BoomError", "srv"]]])
            out.append({"fam": "producer", "method": m, "script": sc2, "consume": "all", "inputs": []})
    # exchanges: 2 inputs
    for m in ("exch", "exch_h"):
        for _, li, ls in shapes[:4]:
            steps = [[_log(10 * k + j) for j in range(ls)] + [["echo", 2, None]] for k in range(2)]
            sc = {"init": [_log(90 + j) for j in range(li)], "hdr": 4, "steps": steps}
            inputs = [[1, 2], [3]]
            out.append({"fam": "exchange", "method": m, "script": sc, "consume": "all", "inputs": inputs})
            for k in (0, 1, 2):
                for fin in ("close", "cancel", "drop"):
                    out.append({"fam": "exchange", "method": m, "script": sc, "consume": ["take", k, fin], "inputs": inputs})
            sc2 = dict(sc, steps=[steps[0], [_log(50)] * ls + [["raise", "BoomError", "srv"]]])
            out.append({"fam": "exchange", "method": m, "script": sc2, "consume": "all", "inputs": inputs})
    return out


def drive(proxy: Any, sc: dict[str, Any], st: dict[str, Any]) -> None:
    """Borrower 1's body.  ``st['phase']`` names the client operation in flight (for the finding key)."""
    from vgi_rpc.rpc import RpcError

    m = sc["method"]
    s = json.dumps(sc["script"])
    tr = st["trace"]
    st["phase"] = "unary" if m.startswith("unary") else "init"
    try:
        if m.startswith("unary"):
            r = proxy.unary(script=s, x=7) if m == "unary" else proxy.unary_none(script=s)
            tr.append(["result", r])
            return
        sess = getattr(proxy, m)(script=s)
    except RpcError as e:
        tr.append(["error", e.error_type])
        return
    take, fin = (None, "all") if sc["consume"] == "all" else (sc["consume"][1], sc["consume"][2])
    n = 0
    try:
        if m.startswith("produce"):
            while take is None or n < take:
                st["phase"] = "tick"
                try:
                    ab = sess.tick()
                except StopIteration:
                    tr.append(["end"])
                    return
                tr.append(["batch", ab.batch.num_rows])
                n += 1
        else:
            for spec in sc["inputs"]:
                if take is not None and n >= take:
                    break
                st["phase"] = "exchange"
                ab = sess.exchange(prog.input_batch(spec))
                tr.append(["batch", ab.batch.num_rows])
                n += 1
            if take is None:
                fin = "close"
    except RpcError as e:
        tr.append(["error", e.error_type])
        return
    if fin == "close":
        st["phase"] = "close-drain"
        sess.close()
        tr.append(["closed"])
    elif fin == "cancel":
        st["phase"] = "cancel-drain"
        sess.cancel()
        tr.append(["cancelled"])
    else:
        st["phase"] = "abandon"
        tr.append(["dropped"])
        if sc.get("body_raises"):
            raise Boom("body")


def run_case_b(ctx: Ctx, sc: dict[str, Any], raise_at: int | None, swallow: bool) -> dict[str, Any]:
    """One history: borrower 1 runs *sc* (its on_log raising at log index *raise_at*), then borrower 2 probes."""
    import vgi_rpc.pool as POOL

    _B["workers"] = []
    pool = POOL.WorkerPool(max_idle=2, idle_timeout=600.0)
    st: dict[str, Any] = {"phase": "-", "trace": [], "nlogs": 0, "boom": None}
    res: dict[str, Any] = {"nlogs": 0, "boom": None, "probe": None, "reused": None, "phase": None}

    def on_log1(msg: Any) -> None:
        i = st["nlogs"]
        st["nlogs"] += 1
        st["trace"].append(["log", msg.message])
        if raise_at is not None and i == raise_at:
            st["boom"] = st["phase"]
            raise Boom(f"on_log@{i}")

    try:
        w1 = None
        try:
            with pool.connect(prog.ScriptSvc, ["w"], on_log=on_log1) as p1:
                w1 = p1._transport._inner
                try:
                    drive(p1, sc, st)
                except Boom:
                    if not swallow:
                        raise
        except Boom:
            pass
        except Exception as e:  # noqa: BLE001 - borrower 1 misbehaving is its own business; record only
            st["trace"].append(["b1-exception", type(e).__name__])
        res["nlogs"] = st["nlogs"]
        res["boom"] = st["boom"]
        res["phase"] = st["boom"] or st["phase"]
        res["trace1"] = st["trace"]
        logs2: list[Any] = []
        probe: list[Any] = []
        try:
            with pool.connect(prog.ScriptSvc, ["w"], on_log=lambda m: logs2.append(m.message)) as p2:
                w2 = p2._transport._inner
                res["reused"] = w2 is w1
                probe.append(p2.echo(n=4242))
                probe.append(p2.unary(script=json.dumps({"acts": [["ret", 17]]}), x=1))
        except BaseException as e:  # noqa: BLE001
            probe.append(f"EXC:{type(e).__name__}:{str(e)[:120]}")
        res["probe"] = probe
        res["logs2"] = logs2
        # a third borrower: the worker must still be at a boundary after the probe
        try:
            with pool.connect(prog.ScriptSvc, ["w"]) as p3:
                res["probe3"] = p3.echo(n=99)
        except BaseException as e:  # noqa: BLE001
            res["probe3"] = f"EXC:{type(e).__name__}"
    finally:
        pool.close()
        for w in _B["workers"]:
            w.close()
        res["stuck"] = any(w.stuck for w in _B["workers"])
        res["nworkers"] = len(_B["workers"])
    return res


def judge_b(ctx: Ctx, sc: dict[str, Any], raise_at: int | None, swallow: bool, res: dict[str, Any]) -> None:
    case = {"part": "b", "sc": sc, "raise_at": raise_at, "swallow": swallow}
    cons = sc["consume"] if sc["consume"] == "all" else f"take{sc['consume'][1]}-{sc['consume'][2]}"
    how = "clean" if res["boom"] is None else f"on_log-raises@{res['boom']}"
    if res["boom"] is None and sc["consume"] != "all" and sc["consume"][2] == "drop":
        how = "abandoned"
    klass = f"{'unary' if sc['fam'] == 'unary' else 'stream'}:{how}"
    bad = None
    if res["probe"] != [4242, 17]:
        bad = f"the next borrower's probes returned {res['probe']!r} instead of [4242, 17]"
    elif res["logs2"]:
        bad = f"the next borrower received log messages {res['logs2']!r} that belong to the previous borrower"
    elif res.get("probe3") != 99:
        bad = f"the third borrower's probe returned {res.get('probe3')!r} instead of 99"
    if bad:
        ctx.fail(
            f"b:dirty-reuse:{klass}",
            f"{bad}; borrower 1 ran {sc['method']} consume={cons} raise_at={raise_at} (on_log raised during {res['boom']}), "
            f"worker re-handed={res['reused']}; borrower-1 trace {res.get('trace1')!r}",
            case,
        )
    if res["stuck"]:
        ctx.fail(f"b:worker-did-not-exit:{klass}", f"a worker thread did not leave serve() after its transport was closed ({sc['method']} {cons})", case)
    ctx.case(
        sample={"b": sc["method"], "consume": cons, "raise_at": raise_at, "reused": res["reused"], "probe": res["probe"]}
        if ctx.extra["b_cases"] in (0, 40, 400)
        else None,
        nontrivial=("b", klass, cons, bool(res["reused"])),
        outcome=("b", klass, cons, res["reused"], repr(res["probe"]), res["nworkers"]),
    )
    ctx.extra["b_cases"] += 1
    ctx.extra["b_reused"] += 1 if res["reused"] else 0
    ctx.extra["b_discarded"] += 0 if res["reused"] else 1


def run_b(ctx: Ctx) -> None:
    with bound_pool_b():
        for sc in scenarios(ctx):
            if not ctx.mine():
                continue
            res = run_case_b(ctx, sc, None, False)
            judge_b(ctx, sc, None, False, res)
            n = res["nlogs"]
            for j in range(n):
                for swallow in (False, True):
                    r = run_case_b(ctx, sc, j, swallow)
                    judge_b(ctx, sc, j, swallow, r)
            if sc["consume"] != "all" and sc["consume"][2] == "drop":
                sc2 = dict(sc, body_raises=True)
                judge_b(ctx, sc2, None, False, run_case_b(ctx, sc2, None, False))


def run(ctx: Ctx) -> None:
    ctx.extra.update({"a_schedules": 0, "a_configs": 0, "a_deadlocks": 0, "max_choice_points": 0, "max_steps": 0,
                      "b_cases": 0, "b_reused": 0, "b_discarded": 0, "config_sizes": []})
    run_a(ctx)
    run_b(ctx)


def replay(ctx: Ctx, case: dict[str, Any]) -> None:
    if case.get("part") == "a":
        cfg = case["cfg"]
        with bound_pool_a():
            x = S.run_one(make_setup(cfg), case["choices"], None, trace=TRACE if cfg.get("trace") else None, env_cost=cfg.get("env_cost", 1))
            oracle_a(ctx, cfg, x, case.get("tier", "quick"))
    else:
        ctx.extra.update({"b_cases": 0, "b_reused": 0, "b_discarded": 0})
        with bound_pool_b():
            res = run_case_b(ctx, case["sc"], case["raise_at"], case["swallow"])
            judge_b(ctx, case["sc"], case["raise_at"], case["swallow"], res)

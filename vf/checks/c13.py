"""C13 — Stream tokens are bound to the method that minted them (E1: exhaustive cross-method substitution).

Seam: raw ``POST /{method}/exchange`` requests (falcon ``TestClient`` on the real ``make_wsgi_app``) carrying
every (cursor, call) token pair minted during the lifetime of a stream of method *m1*, presented to the
exchange endpoint of every stream method *m2* of the same service.

Space (all combinations, no sampling):
  minting entry  m1 in the 10 entries of ``c12_tokens.METHODS`` (9 stream methods: two producers sharing one
                 state class, a producer with a distinct but identically-shaped state class, a producer with
                 call state, two exchanges sharing one state class, an exchange shaped like the producer state,
                 an exchange with call state, a union-state producer minted as either member)
  token          every cursor token of an N-turn lifetime (N = 3 quick / 5 thorough) + the stream's call token
  endpoint       m2 in the 9 stream methods
  worker         warm (the worker that ran m1's init, cache hit) | cold (another worker sharing the key, cache
                 emptied before the request) | nocache (capacity 0)
  request kind   continuation/exchange turn | cancel
  batch shape    zero-column tick | one-row ``x`` batch   (the attacker chooses what to send)
  identity       anonymous (quick) | anonymous, authenticated (thorough)

Oracle (weakest reading of the statement):
  * m2 is not the minting method  =>  the request is *rejected* (HTTP 4xx) and none of the recovered-state
    hooks ``bind_call_state`` / ``rehydrate`` / ``process`` / ``on_cancel`` ran for it.  A rejection that is
    only produced because deserializing the foreign state happened to fail is tolerated (counted in
    ``foreign_rejected_only_after_deserialize``) — the statement says "processes", not "parses".
  * m2 is the minting method and the batch shape fits  =>  200 without error (sanity / non-vacuity, key
    ``own-endpoint-refused``).
Finding keys name the relationship of the two methods' state classes, the only thing that decides whether the
substitution gets through, and the pair itself: ``foreign-state-processed:<same-state-class|same-shape-class|union|
other>:<m1>-><m2>`` and ``foreign-not-rejected:<...>:<m1>-><m2>`` (pair-specific, so that the recorded known finding
lists exactly the pairs that get through on the unmodified tree and any further pair is reported).
"""

from __future__ import annotations

from typing import Any

from vf.core.runner import Ctx
from vf.kit import c12_tokens as T

PROPERTY = "C13"
LEVEL = "exploration"
ENGINE = "E1-SEQ"
SHARDS = {"quick": 4, "thorough": 10}
RULE = (
    "all (minting entry m1 of 10) x (every cursor token of a 3/5-turn lifetime + call token) x (endpoint m2 of 9) "
    "x {warm, cold, nocache worker} x {turn, cancel} x {tick, x-batch} x identities; one evaluation per request; "
    "non-trivial = (state-class relation, worker, request kind, status class) of requests that reached the token layer"
)
TECHNIQUE = "exhaustive cross-method token substitution against the real WSGI app, hook-log oracle"
LEVEL_TEXT = (
    "Every token of every stream shape is presented to every other stream endpoint on warm, cold and cache-less "
    "workers; the space is the full cross product of a small closed alphabet, which is what the statement "
    "quantifies over and what example tests never cross."
)
LEVEL_NOTE = (
    "The service has 9 methods chosen to cover same-class, same-shape, different-shape, call-state and union "
    "relations; lifetimes are 3/5 turns. Token contents other than these shapes are not varied."
)
ASSUMPTIONS = [
    "os.urandom / uuid4 inside the token modules are replaced by a deterministic stream (token bytes are never compared)",
    "a 4xx produced after a failed deserialization of the foreign state counts as rejected (weakest reading)",
]

HOOKS = ("bind", "rehydrate", "process", "on_cancel")
KEY = b"C13-shared-token-key-0123456789ab"[:32]
IDENTS: dict[str, T.Ident] = {"anon": None, "auth": ("corp", "pat")}
WORKERS = ("warm", "cold", "nocache")
KINDS = ("turn", "cancel")
SHAPES = ("tick", "x")


def state_classes(name: str) -> tuple[str, ...]:
    return {
        "prod_a": ("CountState",), "prod_b": ("CountState",), "prod_t": ("CountTwin",), "prod_c": ("CallCount",),
        "exch": ("SumState",), "exch_b": ("SumState",), "exch_t": ("TwinEx",), "exch_c": ("CallSum",),
        "uni": ("CountState", "AltCount"),
    }[name]


MINTED = {"prod_a": "CountState", "prod_b": "CountState", "prod_t": "CountTwin", "prod_c": "CallCount",
          "exch": "SumState", "exch_b": "SumState", "exch_t": "TwinEx", "exch_c": "CallSum",
          "uni": "CountState", "uni_alt": "AltCount"}
SHAPE_OF = {"CountState": "oils", "CountTwin": "oils", "TwinEx": "oils", "CallCount": "oil", "AltCount": "oil",
            "SumState": "ots", "CallSum": "ot"}


def relation(m1: str, m2: str) -> str:
    minted = MINTED[m1]
    target = state_classes(m2)
    if len(target) > 1 or T.real_method(m1) == "uni":
        return "union"
    if minted == target[0]:
        return "same-state-class"
    if SHAPE_OF[minted] == SHAPE_OF[target[0]]:
        return "same-shape-class"
    return "other"


class World:
    """Three workers sharing one key + the deterministic clock/entropy."""

    def __init__(self) -> None:
        self.clock = T.VTime()
        T.install_clock(self.clock)
        T.install_entropy()
        self.warm = T.Worker(KEY)
        self.cold = T.Worker(KEY)
        self.nocache = T.Worker(KEY, cache_entries=0)

    def worker(self, kind: str) -> T.Worker:
        w: T.Worker = getattr(self, kind)
        if kind == "cold":
            w.cache.clear()
        return w


def mint(world: World, m1: str, ident: T.Ident, turns: int) -> tuple[list[bytes], bytes]:
    """Run m1's lifetime on the warm worker; return its cursor tokens and the call token."""
    T.ENTROPY.reset(f"c13/{m1}/{ident}")
    world.warm.cache.clear()
    r = world.warm.init(m1, ident)
    if r.status != 200 or r.cursor is None or r.call is None:
        raise RuntimeError(f"init of {m1} failed: {r.outcome()}")
    cursors = [r.cursor]
    call = r.call
    for _ in range(turns - 1):
        r = world.warm.turn(m1, cursors[-1], call, ident)
        if r.status != 200 or r.cursor is None:
            raise RuntimeError(f"own turn of {m1} failed: {r.outcome()}")
        cursors.append(r.cursor)
    return cursors, call


def present(world: World, m2: str, cursor: bytes, call: bytes, ident: T.Ident, wk: str, kind: str, shape: str) -> tuple[T.Resp, list[Any]]:
    # the body is framed for a method of the chosen *shape*: pick a framing entry with that batch shape
    framing = "exch" if shape == "x" else "prod_a"
    body = T.turn_body(framing, cursor, call, cancel=(kind == "cancel"))
    w = world.worker(wk)
    T.EVENTS.clear()
    r = w.post(f"/{m2}/exchange", body, ident)
    return r, list(T.EVENTS)


def judge(ctx: Ctx, case: dict[str, Any], r: T.Resp, events: list[Any]) -> tuple[Any, Any]:
    m1, m2 = case["m1"], case["m2"]
    own = T.real_method(m1) == m2
    hooks = [e for e in events if e[0] in HOOKS]
    rel = "own" if own else relation(m1, m2)
    accepted = r.status == 200 and not r.error_header
    rejected = 400 <= r.status < 500
    fits = (case["shape"] == "x") == bool(T.METHODS[m1]["exchange"]) or case["kind"] == "cancel"
    desc = f"{m1} tokens (cursor #{case['tok']}) at /{m2}/exchange on {case['worker']} worker, {case['kind']}/{case['shape']}, identity {case['ident']}"
    if own:
        if fits and not accepted:
            ctx.fail("own-endpoint-refused", f"{desc}: own endpoint answered {r.status} {r.error}", case)
    else:
        if hooks:
            seen = sorted({str(e[1:3]) for e in hooks if e[0] in ("process", "rehydrate", "on_cancel")})
            ctx.fail(
                f"foreign-state-processed:{rel}:{m1}->{m2}",
                f"{desc}: answered {r.status}{' +error' if r.error_header else ''} and ran "
                f"{[e[0] for e in hooks]} on state minted by {T.real_method(m1)} (state seen: {seen}); output {r.batches}",
                case,
            )
        elif not rejected:
            ctx.fail(f"foreign-not-rejected:{rel}:{m1}->{m2}", f"{desc}: answered {r.status} error={r.error}", case)
        elif any(e[0] == "deser-state" for e in events):
            ctx.extra["foreign_rejected_only_after_deserialize"] += 1
    reached = accepted or (r.error is not None and ("token" in r.error[1].lower() or "state" in r.error[1].lower()))
    nontrivial = (rel, case["worker"], case["kind"], r.status // 100, bool(hooks)) if reached else None
    outcome = (r.status, r.error_header, r.error[0] if r.error else None, tuple(e[0] for e in events))
    return nontrivial, outcome


def run(ctx: Ctx) -> None:
    ctx.extra.update({"requests": 0, "foreign_requests": 0, "own_requests": 0, "tokens_minted": 0,
                      "foreign_rejected_only_after_deserialize": 0, "foreign_2xx": 0})
    turns = 3 if ctx.quick else 5
    idents = ["anon"] if ctx.quick else ["anon", "auth"]
    endpoints = sorted({T.real_method(n) for n in T.METHODS})
    world = World()
    n = 0
    for m1 in T.METHODS:
        for idn in idents:
            if not ctx.mine():
                continue
            ident = IDENTS[idn]
            cursors, call = mint(world, m1, ident, turns)
            ctx.extra["tokens_minted"] += len(cursors) + 1
            for ti, cur in enumerate(cursors):
                for m2 in endpoints:
                    for wk in WORKERS:
                        for kind in KINDS:
                            for shape in SHAPES:
                                case = {"m1": m1, "ident": idn, "turns": turns, "tok": ti, "m2": m2, "worker": wk,
                                        "kind": kind, "shape": shape}
                                if wk == "warm":
                                    # an earlier accepted foreign request may have been served from / refreshed the
                                    # cache; warm means "holds the entry put by m1's init", which stays true
                                    pass
                                r, events = present(world, m2, cur, call, ident, wk, kind, shape)
                                nt, oc = judge(ctx, case, r, events)
                                n += 1
                                ctx.extra["requests"] += 1
                                own = T.real_method(m1) == m2
                                ctx.extra["own_requests" if own else "foreign_requests"] += 1
                                if not own and r.status == 200 and not r.error_header:
                                    ctx.extra["foreign_2xx"] += 1
                                ctx.case(sample=case if n in (1, 50, 500) else None, nontrivial=nt, outcome=oc)


def replay(ctx: Ctx, case: dict[str, Any]) -> None:
    ctx.extra.update({"foreign_rejected_only_after_deserialize": 0})
    world = World()
    ident = IDENTS[case["ident"]]
    cursors, call = mint(world, case["m1"], ident, case["turns"])
    r, events = present(world, case["m2"], cursors[case["tok"]], call, ident, case["worker"], case["kind"], case["shape"])
    judge(ctx, case, r, events)

"""C31 — External fetches are bounded, validated and credential-safe (E4: virtual-time asyncio loop).

The real ``vgi_rpc.external_fetch.fetch_url`` (and through it ``_fetch_with_probe``, ``_head_probe``,
``_range_probe``, ``_request_following_redirects``, ``_read_response_body``, ``_read_range_response_body``,
``_fetch_chunks_with_hedging``, ``_validate_url``, ``redact_url``, the reset-and-retry path and its log
records) runs on ``vf.core.vloop.VLoop`` against the scripted origin of ``vf.kit.c31_origin``.  Seams:
``external_fetch.asyncio.run_coroutine_threadsafe`` (drives the coroutine inline on the virtual loop),
``external_fetch.time`` (virtual clock), ``external_fetch._create_session`` (returns a fresh fake session on
reset), the pre-populated ``FetchConfig._pool``.  aiohttp itself is replaced by the fake session.

Space = behaviour scripts (fault grammar, see RULE) x, for every script, **every** order in which the pending
responses can arrive, with 0 or D virtual seconds before each arrival and with two arrivals optionally landing
in the same loop iteration (so hedge launches, hedge/original races, failures racing successes and
cancellation of in-flight requests are all enumerated, not sampled).

Oracle (weakest reading of the statement; the object is what a truthful full GET of the origin returns):
  O1  every URL contacted (request issued to the session) is accepted by the configured validator;
  O2  within one logical request (probe, plain GET, one range GET) at most ``max_redirects`` redirects are followed;
  O3  bytes pulled from one response <= max_fetch_bytes + one delivered piece; from a range response
      <= requested range size + one delivered piece; all ranges of one fetch attempt together (hedge duplicates
      counted once, over-range bytes not counted twice) <= max_fetch_bytes + one piece (pieces are the origin's
      delivery granularity, <= the size asked for in ``read(n)``/``iter_chunked(n)``: the scaled-down analogue of
      the 64 KiB "bounded chunk");
  O4  the decoder called by the fetcher never produces more than max_decompressed_bytes + 64 KiB, and a
      returned body is never longer than max_decompressed_bytes;
  O5  the call returns exactly the decoded object or raises (a hang is neither).  Origins only lie in ways
      HTTP metadata they send themselves contradicts (probe length vs Content-Range total, Content-Range vs
      requested range, Content-Length vs stream) — silent close-delimited truncation is not generated;
  O6  no secret value from the userinfo / query / fragment of the original URL, of a followed redirect target
      or of a rejected redirect target occurs in the raised exception (str/repr/args of the exception and of
      its displayed cause/context chain, notes, ``ClientResponseError.request_info``) or in any log record
      emitted on the ``vgi_rpc`` logger (message and extra fields).

Finding keys: ``contacted-rejected-url:<request class>:<how>``, ``redirects-exceeded:<class>``, ``overread[-range|-total]:<class>``,
``decode-overread:<codec>``, ``result-over-decoded-cap:<path>``, ``hang:<path>:<fault>``, ``wrong-bytes:<path>:<origin lie>``,
``secret-leak:exception:<exception type>:<url part>:<site>`` (site = validator message style | transport exception passed
through | external_fetch function that built the error), ``secret-leak:log:<url part>``.

Reproduced on the pinned tree (each with a standalone reproducer against real aiohttp, see the agent report):
  * ``secret-leak:exception:ConnectionTimeoutError:query:passthrough-request-timeout`` — aiohttp's connect-timeout text is
    ``"Connection timeout to host <req.url>"`` (query string kept); ``_request_following_redirects`` re-raises TimeoutError as is.
  * ``wrong-bytes:parallel:probe-length-short`` — probe (HEAD Content-Length / probe Content-Range total) smaller than the object:
    the parallel path returns a prefix although every 206 carries ``Content-Range: .../<true total>``.
  * ``wrong-bytes:parallel:range-shift`` — a 206 whose ``Content-Range`` names a different range of the same size is spliced in.
  * ``secret-leak:exception:ValueError:fragment:validator-msg-fragment`` / ``...:query:validator-msg-query`` — ``_validate_url``
    scrubs the whole URL, userinfo and *decoded* query values from validator messages, but not the fragment nor
    percent-encoded query values (validators that interpolate URL components rather than the URL).
"""

from __future__ import annotations

import asyncio
import contextlib
import logging
import types
from collections.abc import Iterator
from typing import Any
from urllib.parse import urlsplit

from vf.core import vloop as V
from vf.core.runner import Ctx
from vf.kit import c31_origin as O

PROPERTY = "C31"
LEVEL = "model_checking"
ENGINE = "E4-VLOOP"
SHARDS = {"quick": 8, "thorough": 16}
TECHNIQUE = (
    "stateless model checking of the real fetch coroutines on a virtual-time asyncio loop: exhaustive DFS over "
    "response-arrival orders / delays / same-iteration arrivals, crossed with an exhaustive origin fault grammar"
)
RULE = (
    "A: url kind {HEAD-probe, presigned range-probe} x object size {<threshold, 3 chunks, =max, max+1, >>max} x "
    "redirect chain {0..max+1 hops; allowed/relative/secret-bearing/validator-rejected/no-Location/invalid/loop; on all|probe|data} x "
    "probe behaviour {status, Content-Length/Content-Range absent|true|short|long|>max|junk, Accept-Ranges, probe body, 5 exceptions} x "
    "plain-GET behaviour {status, Content-Length, piece size, mid-body reset/payload/disconnect, request exceptions, reset-then-ok}; "
    "A2: Content-Encoding {gzip,zstd,zstd-stream; header spellings} x {small, parallel, corrupt, bombs around max_decompressed_bytes}; "
    "A3: URL shapes {userinfo x query x fragment x host/port/ipv6 x sigv4/sigv2} x every error site x validator message styles; "
    "B: parallel path, 3-4 chunks, one or two faulty range responses {404,500,200-ignored,short,long,junk,empty,shifted,wrong total,reset,"
    "disconnect,timeout,redirect ok/rejected, mid-body reset} x first-attempt-only|always x hedging {2.0,0.5,off} x hedge cap x "
    "max_parallel {8,2,1}; for every script all arrival orders x delay {0,D} x same-iteration pairs. "
    "Non-trivial = at least one request reached the origin or the validator rejected; class key = family/path/fault/outcome."
)
LEVEL_TEXT = (
    "Every script of the stated fault grammar is executed against the real fetch code and, for each, every "
    "interleaving of response arrivals (with virtual delays deciding hedge launches) is enumerated and judged; "
    "model checking is the right level because the property quantifies over origin behaviours *and* completion "
    "orders, which a test suite samples a handful of."
)
LEVEL_NOTE = (
    "aiohttp is replaced by a fake session that models its framing and exception texts; sizes are scaled down "
    "(threshold 8 / chunk 4 / max 12 bytes; 64..256 bytes for compressed objects); granularity of interleaving "
    "is one response arrival (headers) or one stalled body, not individual socket reads."
)
ASSUMPTIONS = [
    "the fake ClientSession reproduces the aiohttp 3.x behaviour the fetcher relies on (Content-Length framing, "
    "ClientPayloadError on short bodies, exception classes and message texts incl. ConnectionTimeoutError's URL)",
    "asyncio's ready queue is FIFO; nondeterminism enters only through I/O completion order and time, both enumerated",
    "set iteration order over tasks is explored for two deterministic orders (creation order and its reverse)",
    "the decoder is observed at vgi_rpc._codec.decompress (output length), not inside zlib/zstandard",
]

D = 5.0  # virtual seconds of the "slow" delay


# --------------------------------------------------------------------------------------
# seams


class _State:
    loop: V.VLoop | None = None
    create_session: Any = None
    decodes: list[tuple[int, Any, int]] = []
    logs: list[str] = []


CUR = _State()


class _Clock:
    @staticmethod
    def monotonic() -> float:
        return CUR.loop.vnow if CUR.loop is not None else 0.0

    time = perf_counter = monotonic


class _LogTap(logging.Handler):
    _STD = set(logging.LogRecord("x", 0, "x", 0, "", (), None).__dict__) | {"message", "asctime"}

    def emit(self, record: logging.LogRecord) -> None:
        try:
            msg = record.getMessage()
        except Exception as e:  # noqa: BLE001
            msg = f"<unformattable {e!r}> {record.msg!r} {record.args!r}"
        extras = {k: v for k, v in record.__dict__.items() if k not in self._STD}
        exc = ""
        if record.exc_info and record.exc_info[1] is not None:
            exc = " ".join(_error_texts(record.exc_info[1]))
        CUR.logs.append(f"{record.levelname} {record.name} {msg} {extras!r} {exc}")


@contextlib.contextmanager
def seams() -> Iterator[None]:
    import vgi_rpc._codec as codec
    from vgi_rpc import external_fetch as EF

    shim = types.ModuleType("asyncio")
    shim.__dict__.update({k: v for k, v in asyncio.__dict__.items() if not k.startswith("__")})
    shim.run_coroutine_threadsafe = V.run_coroutine_threadsafe  # type: ignore[attr-defined]

    def _no_real_loop() -> Any:
        raise V.HarnessError("external_fetch tried to create a real event loop")

    shim.new_event_loop = _no_real_loop  # type: ignore[attr-defined]

    async def _create_session(timeout: Any) -> Any:
        return CUR.create_session(timeout)

    real_decompress = codec.decompress

    def spy(encoding: Any, data: bytes, *a: Any, **kw: Any) -> bytes:
        cap = kw.get("max_output_size", a[0] if a else None)
        try:
            out = real_decompress(encoding, data, *a, **kw)
        except BaseException:
            CUR.decodes.append((len(data), cap, -1))
            raise
        CUR.decodes.append((len(data), cap, len(out)))
        return out

    saved = (EF.asyncio, EF.time, EF._create_session, codec.decompress)
    lg = logging.getLogger("vgi_rpc")
    tap = _LogTap(level=logging.DEBUG)
    old_level, old_prop = lg.level, lg.propagate
    EF.asyncio, EF.time, EF._create_session, codec.decompress = shim, _Clock, _create_session, spy  # type: ignore[assignment]
    lg.addHandler(tap)
    lg.setLevel(logging.DEBUG)
    lg.propagate = False
    try:
        yield
    finally:
        EF.asyncio, EF.time, EF._create_session, codec.decompress = saved  # type: ignore[assignment]
        lg.removeHandler(tap)
        lg.setLevel(old_level)
        lg.propagate = old_prop


# --------------------------------------------------------------------------------------
# one execution


def _error_texts(exc: BaseException) -> list[str]:
    """What an error report of *exc* displays: the exception and its displayed chain (cause, or context unless suppressed)."""
    out: list[str] = []
    seen: set[int] = set()
    todo: list[BaseException] = [exc]
    while todo:
        e = todo.pop()
        if id(e) in seen:
            continue
        seen.add(id(e))
        try:
            out.append(str(e))
            out.append(repr(e))
            out.append(repr(e.args))
        except Exception as err:  # noqa: BLE001
            out.append(f"<unprintable {type(e).__name__}: {err!r}>")
        for note in getattr(e, "__notes__", ()) or ():
            out.append(str(note))
        ri = getattr(e, "request_info", None)
        if ri is not None:
            out.append(f"{getattr(ri, 'url', '')} {getattr(ri, 'real_url', '')} {ri!r}")
        if isinstance(e, BaseExceptionGroup):
            todo.extend(e.exceptions)
        if e.__cause__ is not None:
            todo.append(e.__cause__)
        elif e.__context__ is not None and not e.__suppress_context__:
            todo.append(e.__context__)
    return out


VMSG = {
    "plain": lambda u: "destination not on the allow-list",
    "full": lambda u: f"destination not on the allow-list: {u}",
    "repr": lambda u: f"destination not on the allow-list: {u!r}",
    "netloc": lambda u: f"host {urlsplit(u).netloc} is not allowed",
    "hostonly": lambda u: f"host {urlsplit(u).hostname} is not allowed",
    # component-wise interpolation (less common validator styles)
    "query": lambda u: f"signed query not permitted here: {urlsplit(u).query}",
    "fragment": lambda u: f"unexpected fragment #{urlsplit(u).fragment} for {urlsplit(u).hostname}",
}


def execute(script: dict[str, Any], ch: V.Chooser) -> dict[str, Any]:
    from vgi_rpc import external_fetch as EF

    sched = script.get("sched", {})
    loop = V.VLoop(ch, hold=bool(sched.get("hold", False)), hash_mode=sched.get("hash", "asc"))
    origin = O.Origin(loop, script)
    sessions = [O.FakeSession(origin, "s0")]

    def new_session(timeout: Any) -> Any:
        s = O.FakeSession(origin, f"s{len(sessions)}")
        sessions.append(s)
        return s

    cfg = EF.FetchConfig(**script["cfg"])
    cfg._pool.loop, cfg._pool.session, cfg._pool.thread = loop, sessions[0], None  # type: ignore[assignment]
    vmsg = VMSG[script.get("vmsg", "full")]
    validator: Any
    if script.get("validator", True):

        def validator(u: str) -> None:
            origin.validated.append(u)
            if not O.policy_allows(u):
                raise ValueError(vmsg(u))
    else:
        validator = None
    CUR.loop, CUR.create_session, CUR.decodes, CUR.logs = loop, new_session, [], []
    loop.state_fn = lambda: tuple((r.cls, r.range, r.node, r.status, r.pulled, r.released) for r in origin.requests)
    w: dict[str, Any] = {"origin": origin, "result": None, "exc": None, "hang": False, "cfg": cfg, "sessions": sessions}
    try:
        w["result"] = EF.fetch_url(origin.url0, cfg, url_validator=validator)
    except V.Deadlock:
        w["hang"] = True
    except (V.HarnessError, V.Livelock):
        raise
    except BaseException as e:  # noqa: BLE001 - the fetch "fails"
        w["exc"] = e
    finally:
        cfg._pool.loop, cfg._pool.session = None, None
        w["leaked"] = loop.finish()
        CUR.loop = None
    w["decodes"], w["logs"], w["keys"], w["loop_errors"] = CUR.decodes, CUR.logs, loop.state_keys, loop.loop_errors
    w["trail"] = loop.trail
    return w


def _fault_of(script: dict[str, Any]) -> str:
    return script.get("lie") or script.get("tag") or "none"


def oracle(ctx: Ctx, script: dict[str, Any], x: V.Exec) -> Any:
    w = x.world
    o: O.Origin = w["origin"]
    cfg = script["cfg"]
    rep = {"script": script, "choices": x.choices, "trail": w["trail"][:200]}
    maxf = cfg["max_fetch_bytes"]
    maxr = cfg.get("max_redirects", 5)
    maxd = cfg.get("max_decompressed_bytes")
    maxd = maxf * 16 if maxd is None else maxd
    fam = script.get("fam", "?")
    use_validator = script.get("validator", True)

    # O1 validator
    if use_validator:
        for r in o.requests:
            if not r.allowed:
                how = "auto-redirect" if r.auto else ("initial-url" if r.seq == 0 else "redirect-target")
                ctx.fail(f"contacted-rejected-url:{r.cls}:{how}", f"{r.method} issued to {O.policy_allows.__name__}-rejected URL "
                         f"(host {urlsplit(r.url).hostname}, scheme {urlsplit(r.url).scheme}); script {script.get('name')}", rep)
            elif r.url not in o.validated:
                ctx.fail(f"contacted-unvalidated-url:{r.cls}", f"{r.method} issued to a URL never passed to the validator (node {r.node})", rep)
    # O2 redirects per logical request
    chains: dict[Any, int] = {}
    for r in o.requests:
        chains[r.chain] = chains.get(r.chain, 0) + 1
    for (_t, method, rng), n in chains.items():
        if n - 1 > maxr:
            cls = "probe" if method == "HEAD" else ("range" if rng else "get")
            ctx.fail(f"redirects-exceeded:{cls}", f"{n - 1} redirects followed for one {method} (max_redirects={maxr})", rep)
    # O3 bytes per response
    for r in o.requests:
        if r.pulled > maxf + r.maxpiece:
            ctx.fail(f"overread:{r.cls}", f"{r.pulled} bytes pulled from one {r.cls} response, max_fetch_bytes={maxf}, piece={r.maxpiece}", rep)
        if r.range is not None:
            want = r.range[1] - r.range[0] + 1
            if r.pulled > want + r.maxpiece:
                ctx.fail(f"overread-range:{r.cls}", f"{r.pulled} bytes pulled from a response to Range {r.range} ({want} bytes asked), piece={r.maxpiece}", rep)
    # O3' the ranges of one fetch attempt together: in-range bytes pulled (hedge duplicates counted once) <= max_fetch_bytes + a piece
    per_epoch: dict[int, dict[Any, int]] = {}
    piece_max = 0
    for r in o.requests:
        if r.cls == "chunk" and r.range is not None and r.node >= 0:
            want = r.range[1] - r.range[0] + 1
            d = per_epoch.setdefault(r.epoch, {})
            d[r.range] = max(d.get(r.range, 0), min(r.pulled, want))
            piece_max = max(piece_max, r.maxpiece)
    for _ep, d in per_epoch.items():
        tot = sum(d.values())
        if tot > maxf + piece_max:
            ctx.fail("overread-total:parallel", f"{tot} bytes pulled over {len(d)} ranges in one fetch, max_fetch_bytes={maxf}, piece={piece_max}", rep)
    # O4 decoded bound
    for n_in, _cap, n_out in w["decodes"]:
        if n_out > maxd + 65536:
            ctx.fail(f"decode-overread:{script['obj'].get('enc')}", f"decoder produced {n_out} bytes from {n_in}, max_decompressed_bytes={maxd}", rep)
    res = w["result"]
    path = "parallel" if any(r.cls == "chunk" for r in o.requests) else ("single" if any(r.cls == "data" for r in o.requests) else "none")
    if res is not None and len(res) > maxd:
        ctx.fail(f"result-over-decoded-cap:{path}", f"returned {len(res)} decoded bytes, max_decompressed_bytes={maxd}", rep)
    # O5 result
    if w["hang"]:
        ctx.fail(f"hang:{path}:{_fault_of(script)}", f"fetch never completes (no pending I/O, no timer); script {script.get('name')}", rep)
    if res is not None and not script.get("unjudged") and (o.raw is None or bytes(res) != o.raw):
        ctx.fail(f"wrong-bytes:{path}:{_fault_of(script)}",
                 f"returned {len(res)} bytes != the object's {'undecodable' if o.raw is None else len(o.raw)} decoded bytes (stored {len(o.stored)}); "
                 f"script {script.get('name')}", rep)
    # O6 secrets
    secrets = dict(O.url_secrets(script["url"]))
    secrets.update(o.hop_secrets())
    exc = w["exc"]
    if exc is not None:
        text = "\n".join(_error_texts(exc))
        for kind, val in secrets.items():
            if val in text:
                ctx.fail(f"secret-leak:exception:{type(exc).__name__}:{_part(kind)}:{_leak_site(script, o, exc)}",
                         f"{kind} of the URL appears in the raised {type(exc).__name__}: {text[:300]!r}", rep)
    for line in w["logs"]:
        for kind, val in secrets.items():
            if val in line:
                ctx.fail(f"secret-leak:log:{_part(kind)}", f"{kind} appears in a log record: {line[:300]!r}", rep)
    out_cls = "ok" if res is not None else ("hang" if w["hang"] else type(exc).__name__)
    return (path, out_cls, len(o.requests), tuple(sorted({(r.cls, r.status or 0) for r in o.requests})), len(w["logs"]))


def _leak_site(script: dict[str, Any], o: O.Origin, exc: BaseException) -> str:
    """Stable name of the input class of a leaking error: validator message style, the transport fault that was
    passed through, or (for errors the fetcher built itself) the external_fetch.py function that raised it."""
    if isinstance(exc, ValueError) and "URL rejected" in str(exc):
        return "validator-msg-" + script.get("vmsg", "full")
    for e, site in o.raised:
        if e is exc:
            return "passthrough-" + site
    fn = "?"
    tb = exc.__traceback__
    while tb is not None:  # innermost external_fetch.py frame = the call site that built the error
        if tb.tb_frame.f_code.co_filename.endswith("external_fetch.py"):
            fn = tb.tb_frame.f_code.co_name
        tb = tb.tb_next
    return "raised-in-" + fn


def _part(kind: str) -> str:
    """URL part a secret kind belongs to (finding keys name the part, not the individual parameter)."""
    if "userinfo" in kind or "password" in kind:
        return "userinfo"
    return "query" if "query" in kind else ("fragment" if "fragment" in kind else kind)


def _walk_specs(sec: dict[str, Any]) -> Iterator[dict[str, Any]]:
    if any(isinstance(v, dict) for v in sec.values()):
        for v in sec.values():
            if isinstance(v, dict):
                yield v
        yield {k: v for k, v in sec.items() if not isinstance(v, dict)}
    else:
        yield sec


# --------------------------------------------------------------------------------------
# script grammar

# families A/A2/A3 are pure fault enumerations: max_parallel_requests=1 serialises the range requests (one pending response
# at a time, hence one schedule per script); arrival orders are family B's job, which sets its own max_parallel_requests
CFG_A = {"parallel_threshold_bytes": 8, "chunk_size_bytes": 4, "max_parallel_requests": 1, "max_fetch_bytes": 12, "max_redirects": 2,
         "speculative_retry_multiplier": 2.0, "max_speculative_hedges": 4}
FULL_URL = {"userinfo": True, "query": True, "fragment": True}
EXCS = ("reset", "disc", "timeout", "readtimeout", "totaltimeout", "invalidurl", "oserror", "generic")


def head_probes(n: int, maxf: int, thr: int, quick: bool) -> list[tuple[str, dict[str, Any], str | None]]:
    """(name, spec, lie) for a HEAD-probed object of n stored bytes."""
    out: list[tuple[str, dict[str, Any], str | None]] = [
        ("honest", {"st": 200, "cl": "true", "ar": "bytes"}, None),
        ("noranges", {"st": 200, "cl": "true", "ar": None}, None),
        ("ar-none", {"st": 200, "cl": "true", "ar": "none"}, None),
        ("ar-upper", {"st": 200, "cl": "true", "ar": "Bytes"}, None),
        ("cl-absent", {"st": 200, "cl": None, "ar": "bytes"}, None),
        ("cl-junk", {"st": 200, "cl": "12abc", "ar": "bytes"}, None),
        ("cl-neg", {"st": 200, "cl": -4, "ar": "bytes"}, "probe-length-short"),
        ("cl-zero", {"st": 200, "cl": 0, "ar": "bytes"}, "probe-length-short"),
        ("cl-short", {"st": 200, "cl": max(n - 2, 1), "ar": "bytes"}, "probe-length-short"),
        ("cl-thr", {"st": 200, "cl": thr, "ar": "bytes"}, "probe-length-short" if n > thr else ("probe-length-long" if n < thr else None)),
        ("cl-long", {"st": 200, "cl": n + 3, "ar": "bytes"}, "probe-length-long"),
        ("cl-over", {"st": 200, "cl": maxf + 1, "ar": "bytes"}, "probe-length-long" if n <= maxf else None),
        ("cl-max", {"st": 200, "cl": maxf, "ar": "bytes"}, None if n == maxf else ("probe-length-short" if n > maxf else "probe-length-long")),
        ("st403", {"st": 403}, None), ("st405", {"st": 405}, None), ("st501", {"st": 501}, None),
        ("st404", {"st": 404}, None), ("st500", {"st": 500}, None), ("st204", {"st": 204}, None),
    ]
    for e in (EXCS[:3] + EXCS[5:7] if quick else EXCS):
        out.append(("exc-" + e, {"exc": e}, None))
    out.append(("reset-then-ok", {"#0": {"exc": "reset"}, "st": 200, "cl": "true", "ar": "bytes"}, None))
    return out


def range_probes(n: int, maxf: int, thr: int, quick: bool) -> list[tuple[str, dict[str, Any], str | None]]:
    out: list[tuple[str, dict[str, Any], str | None]] = [
        ("honest", {"st": 206, "total": "true"}, None),
        ("ar-none", {"st": 206, "total": "true", "ar": "none"}, None),
        ("cr-absent", {"st": 206, "total": None}, None),
        ("cr-star", {"st": 206, "total": "star"}, None),
        ("cr-junk", {"st": 206, "total": "1x"}, None),
        ("cr-short", {"st": 206, "total": max(n - 2, 1)}, "probe-length-short"),
        ("cr-thr", {"st": 206, "total": thr}, "probe-length-short" if n > thr else ("probe-length-long" if n < thr else None)),
        ("cr-long", {"st": 206, "total": n + 3}, "probe-length-long"),
        ("cr-over", {"st": 206, "total": maxf + 1}, "probe-length-long" if n <= maxf else None),
        ("cr-max", {"st": 206, "total": maxf}, None if n == maxf else ("probe-length-short" if n > maxf else "probe-length-long")),
        ("body2", {"st": 206, "total": "true", "body": 2}, None),
        ("bodyfull", {"st": 206, "total": "true", "body": "full", "piece": 3}, None),
        ("body0", {"st": 206, "total": "true", "body": 0}, None),
        ("body-reset", {"st": 206, "total": "true", "body": 0, "end": "reset"}, None),
        ("st200", {"st": 200}, None), ("st403", {"st": 403}, None), ("st405", {"st": 405}, None), ("st501", {"st": 501}, None),
        ("st404", {"st": 404}, None), ("st500", {"st": 500}, None), ("st416", {"st": 416}, None),
    ]
    for e in (EXCS[:3] + EXCS[5:7] if quick else EXCS):
        out.append(("exc-" + e, {"exc": e}, None))
    out.append(("reset-then-ok", {"#0": {"exc": "reset"}, "st": 206, "total": "true"}, None))
    return out


def data_specs(n: int, quick: bool) -> list[tuple[str, dict[str, Any]]]:
    out: list[tuple[str, dict[str, Any]]] = [
        ("ok-cl", {"st": 200, "cl": "true", "piece": 3}),
        ("ok-nocl", {"st": 200, "cl": None, "piece": 3}),
        ("ok-bigpiece", {"st": 200, "cl": None, "piece": 64}),
        ("ok-piece1", {"st": 200, "cl": "true", "piece": 1}),
        ("cl-long", {"st": 200, "cl": n + 2, "piece": 3}),
        ("cut-reset", {"st": 200, "cl": "true", "cut": 2, "end": "reset", "piece": 3}),
        ("cut-payload", {"st": 200, "cl": None, "cut": 2, "end": "payload", "piece": 3}),
        ("cut-disc", {"st": 200, "cl": None, "cut": 2, "end": "disc", "piece": 3}),
        ("cut-then-ok", {"#0": {"st": 200, "cl": None, "cut": 2, "end": "disc", "piece": 3}, "st": 200, "cl": "true", "piece": 3}),
        ("st404", {"st": 404}), ("st500", {"st": 500}), ("st403", {"st": 403}),
        ("reset-then-ok", {"#0": {"exc": "reset"}, "st": 200, "cl": "true", "piece": 3}),
    ]
    for e in (EXCS[:3] + EXCS[5:7] if quick else EXCS):
        out.append(("exc-" + e, {"exc": e}))
    return out


def chains(quick: bool) -> list[tuple[str, dict[str, Any]]]:
    hopsets = [
        ["ok"], ["ok", "ok"], ["ok", "ok", "ok"], ["rel"], ["rel", "oksecret"], ["oksecret"], ["evil"], ["ok", "evil"], ["evilhttp"],
        ["ok", "ok", "evil"], ["none"], ["ok", "none"], ["bad"], ["loop"], ["evilfile"],
    ]
    out: list[tuple[str, dict[str, Any]]] = [("direct", {"hops": [], "on": "all"})]
    for hs in hopsets:
        for on in ("all", "probe", "data"):
            if quick and on != "all" and hs not in (["ok"], ["evil"], ["ok", "ok", "ok"], ["ok", "evil"]):
                continue
            out.append(("-".join(hs) + "@" + on, {"hops": hs, "on": on}))
    return out


def family_a(ctx: Ctx) -> Iterator[tuple[dict[str, Any], list[tuple[str, dict[str, Any]]]]]:
    """Yields (base script, data variants): one top-level item per (url kind, object, chain, probe)."""
    q = ctx.quick
    sizes = (5, 10, 13, 20, 40) if q else (5, 8, 10, 12, 13, 16, 20, 40)
    for kind in ("head", "presigned"):
        for n in sizes:
            probes = (head_probes if kind == "head" else range_probes)(n, CFG_A["max_fetch_bytes"], CFG_A["parallel_threshold_bytes"], q)
            for cname, chain in chains(q):
                for pname, probe, lie in probes:
                    for maxr in ((2,) if (q or not chain["hops"]) else (2, 0)):
                        base = {
                            "fam": "A", "name": f"A/{kind}/n{n}/{cname}/{pname}/r{maxr}", "cfg": dict(CFG_A, max_redirects=maxr),
                            "url": dict(FULL_URL, kind=kind), "obj": {"n": n}, "chain": chain, "probe": probe, "lie": lie,
                            "tag": pname if chain["hops"] == [] else cname, "vmsg": "full", "sched": {"dts": [0], "hold": False},
                        }
                        yield base, data_specs(n, q)


def family_a2(ctx: Ctx) -> Iterator[tuple[dict[str, Any], list[tuple[str, dict[str, Any]]]]]:
    """Content-Encoding, corrupt frames and decompression bombs."""
    q = ctx.quick
    cfg = dict(CFG_A, parallel_threshold_bytes=64, chunk_size_bytes=32, max_fetch_bytes=256)
    objs: list[tuple[str, dict[str, Any], int | None]] = []
    for enc in ("gzip", "zstd", "zstdstream"):
        objs.append((f"{enc}-small", {"n": 30, "enc": enc, "fill": "text"}, None))
        objs.append((f"{enc}-par", {"n": 70, "enc": enc}, None))  # incompressible: stored >= 64 -> 3 chunks
        objs.append((f"{enc}-corrupt", {"n": 30, "enc": enc, "fill": "text", "corrupt": 11}, None))
        for maxd in (None, 300):
            cap = 256 * 16 if maxd is None else maxd
            for nn in (cap - 1, cap, cap + 1, cap + 65536 + 50) + (() if q else (cap + 70, 300_000)):
                objs.append((f"{enc}-zeros{nn}-cap{maxd}", {"n": nn, "enc": enc, "fill": "zeros"}, maxd))
    for ce in ("GZIP", " gzip ", "gzip; q=1.0", "Gzip;x"):
        objs.append((f"gzip-hdr{ce!r}", {"n": 30, "enc": "gzip", "fill": "text", "ce": ce}, None))
    objs.append(("identity-hdr", {"n": 30, "enc": "none", "ce": "identity"}, None))
    objs.append(("identity-cap", {"n": 30, "enc": "none"}, 29))
    objs.append(("identity-cap-eq", {"n": 30, "enc": "none"}, 30))
    objs.append(("identity-cap0", {"n": 3, "enc": "none"}, 0))
    for kind in ("head", "presigned"):
        for oname, obj, maxd in objs:
            probes: list[tuple[str, dict[str, Any]]] = [("honest", {}), ("st403", {"st": 403})]
            if kind == "head":
                probes.append(("noranges", {"st": 200, "cl": "true", "ar": None}))
            else:
                probes.append(("st200", {"st": 200}))
            for pname, probe in probes:
                c = dict(cfg)
                if maxd is not None:
                    c["max_decompressed_bytes"] = maxd
                base = {"fam": "A2", "name": f"A2/{kind}/{oname}/{pname}", "cfg": c, "url": dict(FULL_URL, kind=kind), "obj": obj,
                        "chain": {"hops": [], "on": "all"}, "probe": probe, "tag": oname.split("-")[1][:5], "vmsg": "full",
                        "sched": {"dts": [0], "hold": False}}
                yield base, [("ok-cl", {"st": 200, "cl": "true", "piece": 64}), ("ok-nocl", {"st": 200, "cl": None, "piece": 7})]


def family_a3(ctx: Ctx) -> Iterator[tuple[dict[str, Any], list[tuple[str, dict[str, Any]]]]]:
    """URL shapes x error sites x validator message styles (credential-safety clause)."""
    q = ctx.quick
    shapes: list[dict[str, Any]] = []
    for kind in ("head", "presigned", "sigv2"):
        for ui in (False, True, "user", "pw"):
            for query in (False, True):
                for frag in (False, True):
                    for host in (("plain",) if q and ui in ("user", "pw") else ("plain", "port", "ipv6")):
                        shapes.append({"kind": kind, "userinfo": ui, "query": query, "fragment": frag, "host": host})
    sites: list[tuple[str, dict[str, Any]]] = [
        ("probe404", {"probe": {"st": 404}}),
        ("probe500", {"probe": {"st": 500}}),
        ("data404", {"probe": {"st": 403}, "data": {"st": 404}}),
        ("data500", {"probe": {"st": 403}, "data": {"st": 500}}),
        ("cl-over", {"probe": {"st": 200, "cl": 13, "ar": "bytes", "total": 13}}),
        ("body-over", {"probe": {"st": 403}, "obj": {"n": 40}}),
        ("redirect-limit", {"chain": {"hops": ["ok", "ok", "ok"], "on": "all"}}),
        ("redirect-limit-secret", {"chain": {"hops": ["oksecret", "oksecret", "oksecret"], "on": "all"}}),
        ("no-location", {"chain": {"hops": ["oksecret", "none"], "on": "all"}}),
        ("bad-location", {"chain": {"hops": ["oksecret", "bad"], "on": "all"}}),
        ("evil-hop", {"chain": {"hops": ["evil"], "on": "all"}}),
        ("evil-hop-data", {"chain": {"hops": ["oksecret", "evil"], "on": "data"}, "probe": {"st": 405}}),
        ("chunk404", {"chunks": {"4-7": {"st": 404}}}),
        ("chunk200", {"chunks": {"4-7": {"mode": "full200"}}}),
        ("chunk-short", {"chunks": {"0-3": {"mode": "short"}}}),
        ("chunk-long", {"chunks": {"0-3": {"mode": "long"}}}),
        ("chunk-evil", {"chunks": {}, "chain": {"hops": ["evil"], "on": "chunk"}}),
        ("decode-fail", {"probe": {"st": 403}, "obj": {"n": 30, "enc": "gzip", "fill": "text", "corrupt": 11}, "cfg": {"max_fetch_bytes": 256}}),
        ("decoded-cap", {"probe": {"st": 403}, "obj": {"n": 10}, "cfg": {"max_decompressed_bytes": 5}}),
        ("ok", {}),
    ]
    for e in EXCS:
        sites.append((f"probe-exc-{e}", {"probe": {"exc": e}}))
        sites.append((f"data-exc-{e}", {"probe": {"st": 405}, "data": {"exc": e}}))
        sites.append((f"chunk-exc-{e}", {"chunks": {"4-7": {"exc": e}}}))
    for e in ("reset", "disc", "payload", "readtimeout"):
        sites.append((f"data-mid-{e}", {"probe": {"st": 405}, "data": {"st": 200, "cl": None, "cut": 2, "end": e, "piece": 3}}))
        sites.append((f"chunk-mid-{e}", {"chunks": {"4-7": {"cut": 1, "end": e}}}))
    for shape in shapes:
        for sname, over in sites:
            vmsgs = tuple(VMSG) if sname.startswith("evil") or sname == "chunk-evil" else ("full",)
            for vm in vmsgs:
                cfg = dict(CFG_A)
                cfg.update(over.get("cfg", {}))
                nm = "A3/{kind}/ui{userinfo}/q{query}/f{fragment}/{host}".format(**shape) + f"/{sname}/{vm}"
                base = {"fam": "A3", "name": nm, "cfg": cfg, "url": shape, "obj": over.get("obj", {"n": 10}),
                        "chain": over.get("chain", {"hops": [], "on": "all"}), "probe": over.get("probe", {}), "chunks": over.get("chunks", {}),
                        "tag": sname, "vmsg": vm, "sched": {"dts": [0], "hold": False}}
                yield base, [("d", over.get("data", {"st": 200, "cl": "true", "piece": 3}))]
    # the initial URL itself is rejected (plain http), every message style
    for vm in VMSG:
        for ui in (False, True):
            shape = {"kind": "http", "userinfo": ui, "query": True, "fragment": True, "presigned_query": ui}
            base = {"fam": "A3", "name": f"A3/http/ui{ui}/{vm}", "cfg": dict(CFG_A), "url": shape, "obj": {"n": 10}, "chain": {"hops": [], "on": "all"},
                    "probe": {}, "tag": "initial-rejected", "vmsg": vm, "sched": {"dts": [0], "hold": False}}
            yield base, [("d", {"st": 200, "cl": "true", "piece": 3})]
    # no validator configured at all: everything else must still hold
    for kind in ("head", "presigned"):
        for cname, chain in chains(True):
            if any(h.startswith("evil") for h in chain["hops"]):
                continue  # without a validator nothing is "rejected"; the bait host is not part of the object
            base = {"fam": "A3", "name": f"A3/novalidator/{kind}/{cname}", "cfg": dict(CFG_A), "url": dict(FULL_URL, kind=kind), "obj": {"n": 10},
                    "chain": chain, "probe": {}, "tag": "noval-" + cname[:8], "validator": False, "sched": {"dts": [0], "hold": False}}
            yield base, [("d", {"st": 200, "cl": "true", "piece": 3})]


CHUNK_FAULTS: list[tuple[str, dict[str, Any], str | None]] = [
    ("st404", {"st": 404}, None),
    ("st500", {"st": 500}, None),
    ("full200", {"mode": "full200"}, None),
    ("short", {"mode": "short"}, "range-short"),
    ("long", {"mode": "long"}, "range-long"),
    ("longjunk", {"mode": "longjunk", "extra": 7}, "range-long"),
    ("rest", {"mode": "rest"}, "range-long"),
    ("empty", {"mode": "empty"}, "range-short"),
    ("shift", {"mode": "shift"}, "range-shift"),
    ("badtotal", {"cr": "badtotal"}, "content-range-total"),
    ("nocr", {"cr": None, "cl": None}, None),
    ("exc-reset", {"exc": "reset"}, None),
    ("exc-disc", {"exc": "disc"}, None),
    ("exc-timeout", {"exc": "timeout"}, None),
    ("exc-generic", {"exc": "generic"}, None),
    ("mid-reset", {"cut": 1, "end": "reset"}, None),
    ("mid-payload", {"cut": 1, "end": "payload"}, None),
    ("stall", {"stall": True}, None),
]


def family_b(ctx: Ctx) -> Iterator[tuple[dict[str, Any], list[tuple[str, dict[str, Any]]]]]:
    """Parallel path: faulty range responses x hedging configuration, all arrival orders."""
    q = ctx.quick
    dvar = [("d", {"st": 200, "cl": "true", "piece": 3})]

    def mk(name: str, n: int, chunks: dict[str, Any], lie: str | None, tag: str, *, kind: str = "head", mult: float = 2.0, hedges: int = 4,
           par: int = 8, dts: tuple[float, ...] = (0, D), hold: bool = True, hash_: str = "asc", chain: dict[str, Any] | None = None,
           maxf: int = 12, probe: dict[str, Any] | None = None) -> dict[str, Any]:
        cfg = dict(CFG_A, speculative_retry_multiplier=mult, max_speculative_hedges=hedges, max_parallel_requests=par, max_fetch_bytes=maxf)
        return {"fam": "B", "name": f"B/{kind}/n{n}/{name}/m{mult}/h{hedges}/p{par}/{hash_}/{'hold' if hold else 'seq'}", "cfg": cfg,
                "url": dict(FULL_URL, kind=kind), "obj": {"n": n}, "chain": chain or {"hops": [], "on": "all"}, "probe": probe or {},
                "chunks": chunks, "lie": lie, "tag": tag, "vmsg": "full", "sched": {"dts": list(dts), "hold": hold, "hash": hash_}}

    # 1. honest origin, every hedging configuration
    for n in (10, 12):
        for mult in (2.0, 0.5, 0.0):
            for hedges in (4, 1):
                for par in (8, 2, 1):
                    if mult == 0.0 and hedges == 1:
                        continue
                    yield mk("honest", n, {}, None, "honest", mult=mult, hedges=hedges, par=par, hold=True), dvar
    # four chunks: the smallest object on which two hedges can be in flight at once
    yield mk("honest4", 14, {}, None, "honest4", mult=0.5, maxf=16, hold=False), dvar
    if not q:
        for kind in ("head", "presigned"):
            for mult in (2.0, 0.5):
                if (kind, mult) != ("head", 0.5):
                    yield mk("honest4", 14, {}, None, "honest4", kind=kind, mult=mult, maxf=16, hold=False), dvar
        yield mk("honest", 10, {}, None, "honest", hash_="desc", mult=0.5), dvar
        yield mk("honest4", 14, {}, None, "honest4", mult=2.0, maxf=16, hold=True), dvar
        yield mk("honest4", 14, {}, None, "honest4", mult=2.0, maxf=16, hold=False, dts=(0, D, 4 * D)), dvar
        yield mk("honest", 10, {}, None, "honest", mult=0.5, dts=(0, D, 4 * D)), dvar
        # 4 chunks, multiplier 2.0: a hedge needs three completions and a straggler slower than 2x the median
        for fname, fault, lie in CHUNK_FAULTS:
            for scope in ("", "#0"):
                retrying = fname in ("exc-reset", "exc-disc", "mid-reset")
                yield mk(f"{fname}@4-7{scope}/4chunks", 14, {"4-7" + scope: fault}, lie, fname, mult=2.0, maxf=16, hold=not retrying,
                         dts=(0,) if retrying else (0, D)), dvar
                yield mk(f"{fname}@12-13{scope}/4chunks", 14, {"12-13" + scope: fault}, lie, fname, mult=0.5, maxf=16, hold=False,
                         dts=(0,) if retrying or fname == "stall" else (0, D)), dvar
                if not retrying:
                    yield mk(f"{fname}@0-3{scope}/3dts", 10, {"0-3" + scope: fault}, lie, fname, mult=0.5, hold=False, dts=(0, D, 4 * D)), dvar
                    yield mk(f"{fname}@4-7{scope}/h1", 10, {"4-7" + scope: fault}, lie, fname, mult=0.5, hedges=1), dvar
                    yield mk(f"{fname}@4-7{scope}/p2", 10, {"4-7" + scope: fault}, lie, fname, mult=0.5, par=2), dvar
    # 2. one faulty range, on every attempt or on the first attempt only (so that a hedge or the retry succeeds)
    ranges10 = ("0-3", "4-7", "8-9")
    for fname, fault, lie in CHUNK_FAULTS:
        for ri, rkey in enumerate(ranges10):
            for scope in ("", "#0"):
                retrying = fname in ("exc-reset", "exc-disc", "mid-reset")  # fetch_url retries the whole fetch: two explorations multiply
                for mult in ((0.5,) if q else (0.5, 2.0)):
                    hold = not retrying
                    dts: tuple[float, ...] = (0,) if retrying else (0, D)
                    yield mk(f"{fname}@{rkey}{scope}", 10, {rkey + scope: fault}, lie, fname, mult=mult, dts=dts, hold=hold), dvar
        if not q:
            yield mk(f"{fname}@4-7/desc", 10, {"4-7": fault}, lie, fname, mult=0.5, hash_="desc"), dvar
            yield mk(f"{fname}@4-7/presigned", 10, {"4-7": fault}, lie, fname, mult=0.5, kind="presigned", hold=False), dvar
            yield mk(f"{fname}@4-7/par1", 10, {"4-7": fault}, lie, fname, mult=0.5, par=1, hold=False), dvar
    # 3. redirects inside range requests (each hop is one more arrival to interleave)
    for cname, hops in (("ok", ["ok"]), ("evil", ["evil"]), ("ok-evil", ["ok", "evil"]), ("3ok", ["ok", "ok", "ok"]), ("rel-secret", ["rel", "oksecret"])):
        yield mk(f"chain-{cname}@chunk", 10, {}, None, "chain-" + cname, chain={"hops": hops, "on": "chunk"}, mult=0.5,
                 dts=(0,), hold=False), dvar
        if not q:
            yield mk(f"chain-{cname}@all", 10, {}, None, "chain-" + cname, chain={"hops": hops, "on": "all"}, mult=0.5, dts=(0,), hold=False), dvar
    # 4. probe lies leading onto the parallel path
    for pname, probe, n, lie in (
        ("cl-short", {"st": 200, "cl": 8, "ar": "bytes"}, 10, "probe-length-short"),
        ("cl-short9", {"st": 200, "cl": 9, "ar": "bytes"}, 10, "probe-length-short"),
        ("cl-long", {"st": 200, "cl": 12, "ar": "bytes"}, 10, "probe-length-long"),
        ("cl-long-416", {"st": 200, "cl": 12, "ar": "bytes"}, 8, "probe-length-long"),
        ("cl-small-oversize", {"st": 200, "cl": 10, "ar": "bytes"}, 40, "probe-length-short"),
    ):
        yield mk(f"probe-{pname}", n, {}, lie, "probe-" + pname, probe=probe, mult=0.5, hold=False), dvar
        yield mk(f"probe-{pname}", n, {}, lie, "probe-" + pname, probe={"st": 206, "total": probe["cl"]}, kind="presigned", mult=0.5, hold=False), dvar
    # 5. two faulty ranges
    if not q:
        for f1, s1, l1 in CHUNK_FAULTS[:9]:
            for f2, s2, l2 in (CHUNK_FAULTS[0], CHUNK_FAULTS[3], CHUNK_FAULTS[10], CHUNK_FAULTS[16]):
                yield mk(f"{f1}@0-3+{f2}@8-9", 10, {"0-3": s1, "8-9#0": s2}, l1 or l2, f1 + "+" + f2, mult=0.5,
                         hold=f2 not in ("exc-reset",), dts=(0,) if f2 == "exc-reset" else (0, D)), dvar


def scripts(ctx: Ctx) -> Iterator[tuple[dict[str, Any], list[tuple[str, dict[str, Any]]]]]:
    yield from family_b(ctx)
    yield from family_a2(ctx)
    yield from family_a3(ctx)
    yield from family_a(ctx)


# --------------------------------------------------------------------------------------


def run_script(ctx: Ctx, script: dict[str, Any]) -> tuple[dict[str, int], set[str]]:
    consulted: set[str] = set()

    def ex(ch: V.Chooser) -> dict[str, Any]:
        return execute(script, ch)

    def chk(x: V.Exec) -> Any:
        consulted.update(x.world["origin"].consulted)
        return oracle(ctx, script, x)

    def count(x: V.Exec, outcome: Any, n: int) -> None:
        o = x.world["origin"]
        reached = bool(o.requests) or bool(o.validated)
        nt = (script["fam"], outcome[0], _fault_of(script), outcome[1]) if reached else None
        sample = None
        if n == 1 and ctx.extra["scripts"] % 701 == 0:
            sample = {"script": script["name"], "choices": x.choices, "requests": [(r.method, r.cls, r.range, r.status, r.pulled) for r in o.requests][:12],
                      "outcome": outcome[1]}
        ctx.case(sample=sample, nontrivial=nt, outcome=(script["fam"], _fault_of(script), outcome))
        ctx.extra["requests"] += len(o.requests)
        ctx.extra["max_requests_per_fetch"] = max(ctx.extra["max_requests_per_fetch"], len(o.requests))
        ctx.extra["max_choice_points"] = max(ctx.extra["max_choice_points"], len(x.points))
        hedged = sum(1 for r in o.requests if r.cls == "chunk" and r.attempt > 0 and r.node == 0)
        if hedged:
            ctx.extra["executions_with_hedge_or_retry"] += 1
        if x.world["loop_errors"]:
            ctx.extra["loop_error_executions"] += 1
        if x.world["leaked"]:
            ctx.extra["leaked_task_executions"] += 1
        if outcome[1] == "ok":
            ctx.extra["fetch_ok"] += 1
        else:
            ctx.extra["fetch_failed"] += 1
        if outcome[0] == "parallel":
            ctx.extra["parallel_path_executions"] += 1

    # the cap never fires on the pinned tree (largest script: 3116 quick / 13924 thorough schedules); it keeps the run
    # finite on a changed tree that issues more requests than the scripts anticipate
    st = V.explore(ctx, ex, chk, label=script["name"], state_keys=lambda w: w["keys"], count=count,
                   max_execs=20000 if ctx.quick else 60000)
    return st, consulted


def run(ctx: Ctx) -> None:
    ctx.extra.update({
        "scripts": 0, "scripts_pruned_equivalent": 0, "requests": 0, "max_requests_per_fetch": 0, "max_choice_points": 0,
        "executions_with_hedge_or_retry": 0, "loop_error_executions": 0, "leaked_task_executions": 0, "fetch_ok": 0, "fetch_failed": 0,
        "parallel_path_executions": 0, "max_schedules_per_script": 0,
    })
    with seams():
        for base, variants in scripts(ctx):
            if not ctx.mine():
                continue
            for i, (dname, dspec) in enumerate(variants):
                script = dict(base, data=dspec, name=base["name"] + "/" + dname)
                st, consulted = run_script(ctx, script)
                ctx.extra["scripts"] += 1
                ctx.extra["max_schedules_per_script"] = max(ctx.extra["max_schedules_per_script"], st["execs"])
                if "data" not in consulted:
                    # no execution of this script ever looked at the plain-GET behaviour: the remaining variants
                    # are the same script (the origin is a deterministic function of the consulted sections)
                    ctx.extra["scripts_pruned_equivalent"] += len(variants) - i - 1
                    break


def replay(ctx: Ctx, case: dict[str, Any]) -> None:
    ctx.extra.update({k: 0 for k in ("requests", "max_requests_per_fetch", "max_choice_points")})
    script = case["script"]
    with seams():
        x = V.run_one(lambda ch: execute(script, ch), list(case.get("choices", [])))
        oracle(ctx, script, x)

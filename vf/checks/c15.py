"""C15 — HTTP status codes and body shapes follow the mapping (E1: exhaustive request grid).

Every request of the grid

    route {unary, init, exchange} x method {known-ok, known-failing, unknown, kind-mismatched, ...}
    x body {valid, corrupt head, truncated, empty, schema-only, garbage, wrong metadata..., bad tokens...}
    x content type {right, wrong, missing, right+parameter} x content encoding {none, zstd, gzip, identity,
    unknown, unsupported, corrupt...} x auth {off, rejecting} x oversize {no, yes}

is sent to the real WSGI app (falcon in-process TestClient) built by ``make_sync_client`` over the script
service of ``vf.kit.prog``.  Request bodies are hand-framed with pyarrow; state tokens come from a real
``/init`` answer of the same app.

Reference (docs/WIRE_PROTOCOL.md section 13 + the property statement) — a *decision table over the set of
faults present*, with no precedence invented: every fault has one status

    rejecting auth 401 | wrong / missing content type 415 | unsupported content coding 415 |
    undecodable (corrupt) coded body 400 | oversize (encoded or decoded) 413 | unknown method 404 |
    route/method kind mismatch 400 | malformed IPC / missing or wrong metadata / wrong row count 400 |
    missing or tampered state token 400

and the admissible statuses of a request are the union of the statuses of its faults; 200 is admissible
only when no *certain* fault is present.  Inputs whose faultiness the documents leave open (Content-Encoding
identity, a content-type parameter, an upper-case coding token, a tampered/missing *call* token that a warm
cache may never open) are "possible" faults: their status is admissible and so is the fault-free outcome.

Checked on every response:
  (a) status < 500;
  (b) status is admissible;
  (c) status not in {401, 415} => the body is a decodable Arrow IPC stream;
  (d) status 200 => the X-VGI-RPC-Error marker is present exactly when the body carries an EXCEPTION batch,
      and for a fault-free request exactly when the called method fails (raises).
"""

from __future__ import annotations

import io
import itertools
import json
import zlib
from typing import Any

import pyarrow as pa

from vf.core.runner import Ctx
from vf.kit import prog

PROPERTY = "C15"
LEVEL = "exploration"
ENGINE = "E1-SEQ"
SHARDS = {"quick": 8, "thorough": 16}
RULE = (
    "full product route{unary,init,exchange} x method class (4-6 per route) x body kind (12 unary/init, 13 exchange incl. "
    "token faults) x content type (3 quick / 4 thorough) x content encoding (6 quick / 11 thorough) x auth{off,rejecting} "
    "x oversize{no,yes}; one evaluation = one HTTP request through the real WSGI app; "
    "non-trivial class = (route, set of faults present, observed status)"
)
TECHNIQUE = "exhaustive enumeration of a finite HTTP request grid against a fault-set decision table (union of admissible statuses, no precedence)"
LEVEL_TEXT = (
    "The status mapping is a total function over the request space; the whole stated product is executed against "
    "the real falcon app and every response is judged by a decision table, including the absence of 5xx and the "
    "body shape, which per-request example tests cannot establish."
)
LEVEL_NOTE = "In-process WSGI (no real socket, no chunked bodies); the body/encoding/token alphabets are the stated bounds."
ASSUMPTIONS = [
    "falcon's TestClient delivers headers and body to the app as a real WSGI server would (Content-Length always present)",
    "pyarrow decides whether a response body is a decodable Arrow IPC stream",
]

CT = "application/vnd.apache.arrow.stream"
CAP = 4096
KEY = b"k" * 32

F_SCRIPT = pa.field("script", pa.utf8(), nullable=False)
F_X = pa.field("x", pa.int64(), nullable=False)
F_N = pa.field("n", pa.int64(), nullable=False)
IN_X = pa.schema([pa.field("x", pa.int64())])
EMPTY = pa.schema([])


# ------------------------------------------------------------------------------ framing


def frame(method: bytes | None, fields: list[pa.Field], row: dict[str, Any], version: bytes | None = b"1", rows: int = 1) -> bytes:
    schema = pa.schema(fields)
    md: dict[bytes, bytes] = {}
    if method is not None:
        md[b"vgi_rpc.method"] = method
    if version is not None:
        md[b"vgi_rpc.request_version"] = version
    arrays = [pa.array([row[f.name]] * rows, type=f.type) for f in schema]
    batch = pa.RecordBatch.from_arrays(arrays, schema=schema)
    buf = io.BytesIO()
    with pa.ipc.new_stream(buf, schema) as w:
        w.write_batch(batch, custom_metadata=pa.KeyValueMetadata(md) if md else None)
    return buf.getvalue()


def xframe(schema: pa.Schema, cols: dict[str, list[Any]], md: dict[bytes, bytes]) -> bytes:
    buf = io.BytesIO()
    with pa.ipc.new_stream(buf, schema) as w:
        if len(schema):
            b = pa.RecordBatch.from_pydict(cols, schema=schema)
        else:
            b = pa.RecordBatch.from_arrays([], schema=schema)
        w.write_batch(b, custom_metadata=pa.KeyValueMetadata(md) if md else None)
    return buf.getvalue()


def schema_only(schema: pa.Schema) -> bytes:
    buf = io.BytesIO()
    with pa.ipc.new_stream(buf, schema):
        pass
    return buf.getvalue()


def decode_body(data: bytes) -> dict[str, Any]:
    """Is *data* one or more complete, decodable Arrow IPC streams? Does it carry an EXCEPTION batch?"""
    res = {"arrow": False, "error_batch": False, "streams": 0}
    if not data:
        return res
    try:
        f = io.BytesIO(data)
        while f.tell() < len(data):
            r = pa.ipc.open_stream(f)
            while True:
                try:
                    _, cm = r.read_next_batch_with_custom_metadata()
                except StopIteration:
                    break
                if cm is not None and cm.get(b"vgi_rpc.log_level") == b"EXCEPTION":
                    res["error_batch"] = True
            res["streams"] += 1
        res["arrow"] = res["streams"] >= 1
    except Exception:  # noqa: BLE001
        res["arrow"] = False
    return res


def local_decode_exc(data: bytes) -> str:
    """Class name of what pyarrow raises when asked for the first batch of *data* (finding keys only)."""
    try:
        pa.ipc.open_stream(io.BytesIO(data)).read_next_batch()
    except BaseException as e:  # noqa: BLE001
        return type(e).__name__
    return "none"


# ------------------------------------------------------------------------------ apps and tokens


def reject(req: Any) -> Any:
    raise ValueError("credentials rejected")


class Env:
    def __init__(self) -> None:
        import logging

        from vgi_rpc.http._testing import make_sync_client
        from vgi_rpc.rpc import RpcServer

        logging.getLogger("vgi_rpc").setLevel(logging.CRITICAL)
        self.sink = io.StringIO()
        self.apps = {
            "off": make_sync_client(RpcServer(prog.ScriptSvc, prog.ScriptImpl(), server_id="srv"), token_key=KEY, max_request_bytes=CAP),
            "rejecting": make_sync_client(
                RpcServer(prog.ScriptSvc, prog.ScriptImpl(), server_id="srv"), token_key=KEY, max_request_bytes=CAP, authenticate=reject
            ),
        }
        self.tokens: dict[str, dict[bytes, bytes]] = {}
        for name, method, script in (
            ("exch-ok", "exch", {"steps": [[["echo", 2, None]]]}),
            ("exch-fail", "exch", {"steps": [[["raise", "ValueError", "step failed"]]]}),
            ("prod-ok", "produce", {"steps": [[["emit", 1]], [["emit", 1]], [["emit", 1]], [["finish"]]]}),
        ):
            st, _, body = self.post("off", f"/{method}/init", frame(method.encode(), [F_SCRIPT], {"script": json.dumps(script)}), {"Content-Type": CT})
            toks: dict[bytes, bytes] = {}
            f = io.BytesIO(body)
            while f.tell() < len(body):
                r = pa.ipc.open_stream(f)
                while True:
                    try:
                        _, cm = r.read_next_batch_with_custom_metadata()
                    except StopIteration:
                        break
                    for k, v in (cm or {}).items():
                        if k in (b"vgi_rpc.stream_state#b64", b"vgi_rpc.call_state#b64"):
                            toks[k] = v
            if st != 200 or b"vgi_rpc.stream_state#b64" not in toks:
                raise RuntimeError(f"could not mint tokens for {name}: status {st}")
            self.tokens[name] = toks

    def post(self, app: str, path: str, body: bytes, headers: dict[str, str]) -> tuple[int, dict[str, str], bytes]:
        self.sink.seek(0)
        self.sink.truncate()
        r = self.apps[app]._client.simulate_post(path, body=body, headers=headers, extras={"wsgi.errors": self.sink})
        return r.status_code, {k.lower(): v for k, v in dict(r.headers).items()}, r.content


# ------------------------------------------------------------------------------ dimensions

ROUTES = ["unary", "init", "exchange"]
METHODS = {
    # class -> (url method, method named in metadata, param fields, script, fault or None, fails?)
    "unary": {
        "ok": ("unary_opt", None),
        "fail": ("unary", None),
        "unknown": ("nope", ("unknown-method", 404)),
        "kind": ("produce", ("kind-mismatch", 400)),
    },
    "init": {
        "ok": ("exch", None),
        "ok-producer": ("produce", None),
        "fail": ("produce", None),
        "fail-inband": ("produce", None),
        "unknown": ("nope", ("unknown-method", 404)),
        "kind": ("unary_opt", ("kind-mismatch", 400)),
    },
    "exchange": {
        "ok": ("exch", None),
        "fail": ("exch", None),
        "ok-producer": ("produce", None),
        "unknown": ("nope", ("unknown-method", 404)),
        "kind": ("unary_opt", ("kind-mismatch", 400)),
    },
}
FAILS = {("unary", "fail"), ("init", "fail"), ("init", "fail-inband"), ("exchange", "fail")}

BODIES_CALL = ["valid", "corrupt-head", "corrupt-meta", "truncated", "empty", "schema-only", "garbage", "no-method", "no-version", "bad-version", "method-mismatch", "two-rows"]
BODIES_EXCH = [
    "valid", "corrupt-head", "corrupt-meta", "truncated", "empty", "schema-only", "garbage",
    "no-state-token", "tampered-state-token", "garbage-state-token", "empty-state-token", "tampered-call-token", "no-call-token",
]  # fmt: skip
CTYPES_Q = ["right", "wrong", "missing", "suffix", "longer", "prefix"]
CTYPES_T = CTYPES_Q + ["param", "subtype", "case", "ws"]
ENC_Q = ["none", "zstd", "gzip", "identity", "br", "corrupt-zstd"]
ENC_T = ENC_Q + ["deflate", "corrupt-gzip", "truncated-zstd", "truncated-gzip", "upper-gzip"]
AUTHS = ["off", "rejecting"]
OVERS = [False, True]


def pad(big: bool) -> str:
    return "p" * (CAP + 2000) if big else ""


def valid_body(env: Env, route: str, mclass: str, big: bool, variant: str) -> bytes | None:
    """The body for (route, method class) with body kind *variant* applied at the IPC level (None = impossible)."""
    url = METHODS[route][mclass][0]
    named = url.encode()
    version: bytes | None = b"1"
    rows = 1
    md_method: bytes | None = named
    if variant == "no-method":
        md_method = None
    elif variant == "no-version":
        version = None
    elif variant == "bad-version":
        version = b"2"
    elif variant == "method-mismatch":
        md_method = b"echo"
    elif variant == "two-rows":
        rows = 2
    if route in ("unary", "init"):
        if url in ("unary_opt", "nope"):
            script = {"acts": [["ret", 1]], "pad": pad(big)}
            if variant == "schema-only":
                return schema_only(pa.schema([F_SCRIPT]))
            return frame(md_method, [F_SCRIPT], {"script": json.dumps(script)}, version, rows)
        if url == "unary":
            script = {"acts": [["raise", "ValueError", "method failed"]], "pad": pad(big)}
            if variant == "schema-only":
                return schema_only(pa.schema([F_SCRIPT, F_X]))
            return frame(md_method, [F_SCRIPT, F_X], {"script": json.dumps(script), "x": 1}, version, rows)
        # stream methods: produce / exch
        if mclass == "fail":
            script = {"init": [["raise", "ValueError", "init failed"]]}
        elif mclass == "fail-inband":
            script = {"steps": [[["raise", "ValueError", "first step failed"]]]}
        elif url == "produce":
            script = {"steps": [[["emit", 1]], [["finish"]]]}
        else:
            script = {"steps": [[["echo", 2, None]]]}
        script["pad"] = pad(big)
        if variant == "schema-only":
            return schema_only(pa.schema([F_SCRIPT]))
        return frame(md_method, [F_SCRIPT], {"script": json.dumps(script)}, version, rows)
    # exchange route
    tk = {"ok": "exch-ok", "fail": "exch-fail", "ok-producer": "prod-ok", "unknown": "exch-ok", "kind": "exch-ok"}[mclass]
    toks = dict(env.tokens[tk])
    sk, ck = b"vgi_rpc.stream_state#b64", b"vgi_rpc.call_state#b64"

    def flip(v: bytes) -> bytes:
        i = len(v) // 2
        return v[:i] + (b"A" if v[i : i + 1] != b"A" else b"B") + v[i + 1 :]

    if variant == "no-state-token":
        toks.pop(sk)
    elif variant == "tampered-state-token":
        toks[sk] = flip(toks[sk])
    elif variant == "garbage-state-token":
        toks[sk] = b"!!not base64!!\xff"
    elif variant == "empty-state-token":
        toks[sk] = b""
    elif variant == "tampered-call-token":
        if ck not in toks:
            return None
        toks[ck] = flip(toks[ck])
    elif variant == "no-call-token":
        if ck not in toks:
            return None
        toks.pop(ck)
    producer = tk == "prod-ok"
    schema = EMPTY if producer else IN_X
    if variant == "schema-only":
        return schema_only(schema)
    if producer:
        if big:
            toks[b"padding"] = pad(True).encode()
        return xframe(schema, {}, toks)
    n = (CAP + 2000) // 8 if big else 1
    return xframe(schema, {"x": list(range(n))}, toks)


BODY_FAULT = {
    "corrupt-head": ("malformed-ipc", 400, True),
    "corrupt-meta": ("malformed-ipc", 400, True),
    "truncated": ("malformed-ipc", 400, True),
    "empty": ("malformed-ipc", 400, True),
    "schema-only": ("malformed-ipc", 400, True),
    "garbage": ("malformed-ipc", 400, True),
    "no-method": ("missing-metadata", 400, True),
    "no-version": ("missing-metadata", 400, True),
    "bad-version": ("wrong-metadata", 400, True),
    "method-mismatch": ("wrong-metadata", 400, True),
    "two-rows": ("row-count", 400, True),
    "no-state-token": ("bad-token", 400, True),
    "tampered-state-token": ("bad-token", 400, True),
    "garbage-state-token": ("bad-token", 400, True),
    "empty-state-token": ("bad-token", 400, True),
    "tampered-call-token": ("bad-call-token", 400, False),
    "no-call-token": ("bad-call-token", 400, False),
}


def mangle(body: bytes, variant: str, big: bool) -> bytes | None:
    if variant == "corrupt-head":
        return b"\xab" * 8 + body[8:]
    if variant == "corrupt-meta":
        return body[:16] + b"\xab" * 32 + body[48:]
    if variant == "truncated":
        return body[: len(body) // 2]
    if variant == "empty":
        return None if big else b""
    if variant == "garbage":
        return (b"\x13\x37garbage\x00" * ((CAP + 2000) // 10 if big else 8))
    return body


def encode(body: bytes, enc: str, big: bool) -> tuple[bytes, str | None]:
    import zstandard

    if enc == "none":
        return body, None
    if enc == "zstd":
        return zstandard.ZstdCompressor().compress(body), "zstd"
    if enc == "gzip":
        return zlib.compress(body, 6, 31), "gzip"
    if enc == "upper-gzip":
        return zlib.compress(body, 6, 31), "GZIP"
    if enc == "identity":
        return body, "identity"
    if enc == "br":
        return body, "br"
    if enc == "deflate":
        return zlib.compress(body), "deflate"
    junk = b"this is not a compressed frame " * ((CAP + 2000) // 30 if big else 1)
    if enc == "corrupt-zstd":
        return junk, "zstd"
    if enc == "corrupt-gzip":
        return junk, "gzip"
    if enc == "truncated-zstd":
        z = zstandard.ZstdCompressor().compress(body if not big else body + bytes(range(256)) * 40)
        return z[: max(6, len(z) // 2)], "zstd"
    if enc == "truncated-gzip":
        z = zlib.compress(body if not big else body + bytes(range(256)) * 40, 6, 31)
        return z[: max(12, len(z) // 2)], "gzip"
    raise ValueError(enc)


ENC_FAULT = {
    "identity": ("coding-identity", 415, False),
    "br": ("unsupported-coding", 415, True),
    "deflate": ("unsupported-coding", 415, True),
    "corrupt-zstd": ("corrupt-coding", 400, True),
    "corrupt-gzip": ("corrupt-coding", 400, True),
    "truncated-zstd": ("corrupt-coding", 400, True),
    "truncated-gzip": ("corrupt-coding", 400, True),
    "upper-gzip": ("coding-case", 415, False),
}
CT_FAULT = {
    "wrong": ("content-type", 415, True), "missing": ("content-type", 415, True), "param": ("content-type-param", 415, False),
    # near misses: other media types that merely share characters with the Arrow stream type
    "suffix": ("content-type", 415, True), "longer": ("content-type", 415, True), "prefix": ("content-type", 415, True), "subtype": ("content-type", 415, True),
    # media types compare case-insensitively and optional white space may surround them: either reading is admissible
    "case": ("content-type-case", 415, False), "ws": ("content-type-ws", 415, False),
}
CT_VALUE = {
    "right": CT, "wrong": "application/json", "missing": None, "param": CT + "; charset=utf-8", "suffix": CT + "+json", "longer": CT + "ing",
    "prefix": CT.rsplit(".", 1)[0], "subtype": CT + "/x", "case": CT.upper(), "ws": " " + CT + " ",
}


# ------------------------------------------------------------------------------ one request


def one(ctx: Ctx, env: Env, route: str, mclass: str, bodyk: str, ctk: str, enc: str, auth: str, big: bool, sample: bool = False) -> None:
    url, mfault = METHODS[route][mclass]
    raw = valid_body(env, route, mclass, big, bodyk)
    if raw is None:
        return
    raw2 = mangle(raw, bodyk, big)
    if raw2 is None:
        return
    if big and len(raw2) <= CAP and enc in ("none", "identity", "br", "zstd", "gzip", "upper-gzip", "deflate"):
        return  # the body kind cannot be made oversize (e.g. truncated to below the cap)
    body, ce = encode(raw2, enc, big)
    faults: list[tuple[str, int, bool]] = []
    if auth == "rejecting":
        faults.append(("auth", 401, True))
    if ctk in CT_FAULT:
        faults.append(CT_FAULT[ctk])
    if enc in ENC_FAULT:
        faults.append(ENC_FAULT[enc])
    if big:
        # oversize is certain when the bytes on the wire exceed the cap, or when a supported coding expands
        # beyond it; a corrupt frame that is small on the wire has no decoded size
        wire_over = len(body) > CAP
        decoded_over = enc in ("zstd", "gzip", "upper-gzip") and len(raw2) > CAP
        if wire_over or decoded_over:
            faults.append(("oversize", 413, enc != "upper-gzip" or wire_over))
        else:
            return
    if mfault is not None:
        faults.append((mfault[0], mfault[1], True))
    if bodyk in BODY_FAULT:
        faults.append(BODY_FAULT[bodyk])
    certain = [f for f in faults if f[2]]
    admissible = {f[1] for f in faults} | (set() if certain else {200})
    headers: dict[str, str] = {}
    if CT_VALUE[ctk] is not None:
        headers["Content-Type"] = CT_VALUE[ctk]  # type: ignore[assignment]
    if ce is not None:
        headers["Content-Encoding"] = ce
    path = {"unary": f"/{url}", "init": f"/{url}/init", "exchange": f"/{url}/exchange"}[route]
    del prog.EVENTS[:]
    status, rh, content = env.post(auth, path, body, headers)
    dec = decode_body(content)
    marker = rh.get("x-vgi-rpc-error")
    fnames = sorted({f[0] for f in faults})
    rep = {"route": route, "mclass": mclass, "body": bodyk, "ct": ctk, "enc": enc, "auth": auth, "big": big}
    desc = f"POST {path} body={bodyk} content-type={ctk} content-encoding={enc} auth={auth} oversize={big} (faults {fnames or 'none'})"
    ctx.case(
        sample={**rep, "faults": fnames, "status": status, "admissible": sorted(admissible)} if sample else None,
        nontrivial=(route, tuple(fnames), status),
        outcome=(status, bool(marker), dec["arrow"], dec["error_batch"]),
    )
    bf = BODY_FAULT.get(bodyk)
    btag = None if bf is None else (f"{bf[0]}/{local_decode_exc(raw2)}" if bf[0] == "malformed-ipc" else bodyk)
    primary = [mfault[0]] if mfault is not None else ([btag] if btag is not None else [])
    tag = "+".join(primary) if primary else ("+".join(fnames) or "none")
    if status >= 500:
        ctx.fail(f"5xx:{route}:{tag}", f"{desc}: status {status}", rep)
        return
    if status not in admissible:
        ctx.fail(f"status-not-admissible:{status}:{route}:{tag}", f"{desc}: status {status}, admissible {sorted(admissible)}", rep)
    if status not in (401, 415) and not dec["arrow"]:
        title = "non-json"
        try:
            title = str(json.loads(content.decode("utf-8")).get("title", "json-without-title"))
        except Exception:  # noqa: BLE001
            pass
        ctx.fail(
            f"body-not-arrow:{status}:{title}",
            f"{desc}: status {status} with content-type {rh.get('content-type')!r} and a body that is not a decodable Arrow IPC stream "
            f"(body starts {content[:80]!r})",
            rep,
        )
    if status == 200 and dec["arrow"]:
        if bool(marker) != dec["error_batch"]:
            ctx.fail(
                f"marker-mismatch:{route}:{mclass}",
                f"{desc}: status 200, X-VGI-RPC-Error={marker!r} but body error batch present={dec['error_batch']}",
                rep,
            )
        elif not faults and dec["error_batch"] != ((route, mclass) in FAILS):
            ctx.fail(
                f"call-outcome-mismatch:{route}:{mclass}",
                f"{desc}: fault-free request, method {'fails' if (route, mclass) in FAILS else 'succeeds'} but error batch present={dec['error_batch']}",
                rep,
            )


def dims(ctx: Ctx) -> tuple[list[str], list[str]]:
    return (CTYPES_Q, ENC_Q) if ctx.quick else (CTYPES_T, ENC_T)


def run(ctx: Ctx) -> None:
    env = Env()
    cts, encs = dims(ctx)
    ctx.extra.update({"requests_skipped_impossible": 0, "top_items": 0})
    n = 0
    for route in ROUTES:
        bodies = BODIES_EXCH if route == "exchange" else BODIES_CALL
        for mclass in METHODS[route]:
            for bodyk in bodies:
                if not ctx.mine():
                    continue
                ctx.extra["top_items"] += 1
                for ctk, enc, auth, big in itertools.product(cts, encs, AUTHS, OVERS):
                    before = ctx.evaluations
                    n += 1
                    one(ctx, env, route, mclass, bodyk, ctk, enc, auth, big, sample=(n % 97 == 1))
                    if ctx.evaluations == before:
                        ctx.extra["requests_skipped_impossible"] += 1


def replay(ctx: Ctx, case: dict[str, Any]) -> None:
    env = Env()
    one(ctx, env, case["route"], case["mclass"], case["body"], case["ct"], case["enc"], case["auth"], case["big"])

"""C28 — Shared-memory allocations never overlap or overflow (E2 BFS over the real allocator + E1 over batches).

Part (a) — allocator.  The real ``ShmAllocator`` runs on a ``bytearray`` of ``HEADER_SIZE + N`` bytes (N = 1..10
data bytes) with the module global ``MAX_ALLOCS`` rebound to a small limit so that the entry limit is reachable.
Breadth-first search over *all* reachable allocation tables: events are ``allocate(size)`` for every size
1..N+1 (N+1 never fits) and ``free`` of every live entry.  Canonical state = the allocation table; this is sound
because ``allocate``/``free`` read nothing but the header table and the (fixed) segment size.  Every transition
is judged by a one-step relation written from the header-format documentation, not from the allocator code:

  * the header is read back with an independent ``struct`` reader (count at byte 16, 16-byte entries at 24);
  * post table is sorted, entries have positive length, are pairwise disjoint, lie inside
    ``[HEADER_SIZE, total)`` and are at most ``limit`` many;
  * ``allocate(size)`` may return ``None`` only if the table is full or no run of ``size`` consecutive free
    *bytes* exists (byte bitmap of the pre-state — not a gap walk);  a returned offset must be a run of free
    bytes, and the post table is exactly pre-table + the new entry;  a failed allocation leaves the table alone;
  * ``free(offset)`` removes exactly that entry;
  * the magic/version/data_size fields and the data region bytes are never touched by the allocator.
  First-fit placement is *not* demanded (the statement does not) — it is only counted (``first_fit_offsets``).

One linear history drives the real limit: 4094 one-byte allocations (unpatched ``MAX_ALLOCS``), then the
boundary operations (allocate when full, free in the middle, re-allocate, ...), judged by the same relation.

Part (b) — batches.  For every batch shape of a finite grammar (kind x columns x schema-metadata bytes x rows)
the real ``maybe_write_to_shm`` -> ``ShmSegment.allocate_and_write`` writes into a real ``ShmSegment`` whose data
region is pre-filled with a sentinel pattern and in which the only gap large enough is (hole) directly in front
of a live *victim* batch or (tail) ends exactly at the segment end.  The gap has exactly the length the real
code itself requests (learned by a dry run on the same segment).  Oracle: the call does not raise; the reported
length is <= the allocation length in the table; no byte of the data region outside the batch's own allocation
changed; the victim batch still deserialises to its original value.

Finding keys (b): ``write-exceeds-allocation:<path>:<cause>`` with path = nondict|dict (which branch of
``allocate_and_write``) and cause = ``schema-message`` (the schema message alone is larger than the fixed
allowance), ``nested-dictionary`` (dictionary messages of a nested dictionary column are not counted),
``other`` (nondict) or ``payload`` (dict branch, which writes no schema message).
"""

from __future__ import annotations

import bisect
import logging
import struct
from typing import Any

import pyarrow as pa

from vf.core import bfs as B
from vf.core.runner import Ctx

PROPERTY = "C28"
LEVEL = "model_checking"
ENGINE = "E2-BFS"
SHARDS = {"quick": 8, "thorough": 16}
RULE = (
    "(a) BFS to fixpoint over all tables reachable by allocate(1..N+1)/free(live entry) on the real ShmAllocator, "
    "data region N=1..7 (quick) / 1..10 (thorough) bytes, MAX_ALLOCS rebound to 2..3 (quick) / 1..4 (thorough); "
    "one linear history to the real 4094-entry limit plus boundary operations; (b) every batch of the grammar "
    "kind{int64,utf8,dict,struct,listdict,fieldmd} x columns x schema-metadata bytes x rows x placement{hole "
    "before a live batch, tail of segment} written by the real maybe_write_to_shm between sentinels; "
    "non-trivial = distinct canonical table (a) / distinct batch shape whose allocation really was adjacent to "
    "the victim or the segment end (b)"
)
TECHNIQUE = "explicit-state BFS of the real allocator against a byte-bitmap step relation; exhaustive sentinel-guarded writes over a batch-shape grammar"
LEVEL_TEXT = (
    "Every allocation table reachable on segments of up to 10 data bytes with up to 4 entries is visited and every "
    "allocate/free transition out of it is executed on the real ShmAllocator and judged, so sortedness, "
    "non-overlap, bounds, entry limit and failure-only-when-no-gap are checked as inductive one-step invariants "
    "rather than on sampled sequences; the real 4094 limit is driven once linearly.  The write-size clause is "
    "checked by executing the real write path for every shape of a stated batch grammar with byte-exact "
    "sentinels around the allocation."
)
LEVEL_NOTE = (
    "Small-scope: the allocator's arithmetic is size-independent Python integer code, so N<=10 bytes / <=4 entries "
    "plus one run at the real limit is taken as representative; larger segments are not enumerated.  The batch "
    "grammar is finite (6 kinds, <=400 columns, <=64 KiB schema metadata, <=1000 rows)."
)
ASSUMPTIONS = [
    "ShmAllocator behaviour depends only on the header table and total size (canonical state = table)",
    "module global vgi_rpc.shm.MAX_ALLOCS is the only place the entry limit lives (rebound to a small value for the BFS; the linear run uses the real value)",
    "single-threaded use of the allocator (the lockstep protocol's own assumption); concurrent access is not explored here",
    "pyarrow's IPC writer output for a given batch is deterministic",
]

PATTERN = 0xA5
HDR_FMT = "<4sIQII"  # from the module docstring of vgi_rpc/shm.py (language-agnostic header format)
TABLE_AT = 24
COUNT_AT = 16
ENTRY = 16

# ------------------------------------------------------------------------------------------------ (a) allocator


def read_header(buf: Any, total: int) -> tuple[tuple[Any, ...], tuple[tuple[int, int], ...] | None, int]:
    """Independent reader of the documented header layout -> (fixed fields, table or None if count is absurd, count)."""
    magic, ver, dsize, n, pad = struct.unpack_from(HDR_FMT, buf, 0)
    if TABLE_AT + n * ENTRY > total:
        return (magic, ver, dsize, pad), None, n
    flat = struct.unpack_from(f"<{2 * n}Q", buf, TABLE_AT) if n else ()
    return (magic, ver, dsize, pad), tuple(zip(flat[0::2], flat[1::2])), n


def wellformed(table: tuple[tuple[int, int], ...], header: int, total: int, limit: int) -> list[tuple[str, str]]:
    bad: list[tuple[str, str]] = []
    if len(table) > limit:
        bad.append(("table-exceeds-entry-limit", f"{len(table)} entries > limit {limit}: {table[:6]}"))
    prev_end = None
    for off, ln in table:
        if ln <= 0:
            bad.append(("table-entry-nonpositive-length", f"entry {(off, ln)} in {table[:6]}"))
        if off < header or off + ln > total:
            bad.append(("table-entry-outside-data-region", f"entry {(off, ln)} outside [{header},{total})"))
        if prev_end is not None and off < prev_end:
            bad.append(("table-unsorted-or-overlapping", f"entry {(off, ln)} starts before previous end {prev_end}: {table[:6]}"))
        prev_end = max(prev_end or 0, off + ln)
    return bad


def occupancy(table: tuple[tuple[int, int], ...], header: int, total: int) -> bytearray:
    occ = bytearray(total - header)
    for off, ln in table:
        a, b = max(off - header, 0), min(off + ln - header, total - header)
        if b > a:
            occ[a:b] = b"\x01" * (b - a)
    return occ


def judge_step(
    op: str,
    arg: int,
    ret: Any,
    exc: BaseException | None,
    pre: tuple[tuple[int, int], ...],
    post: tuple[tuple[int, int], ...] | None,
    count: int,
    header: int,
    total: int,
    limit: int,
    stats: dict[str, int] | None = None,
) -> list[tuple[str, str]]:
    """One-step relation of the allocator, from the docs.  Returns [(key, message)]."""
    bad: list[tuple[str, str]] = []
    ctxs = f"{op}({arg}) on table {pre[:6]}{'...' if len(pre) > 6 else ''} (data {total - header} bytes, limit {limit})"
    if post is None:
        return [("table-count-corrupt", f"{ctxs}: num_allocs={count} does not fit the header")]
    bad += [(k, f"{ctxs}: {m}") for k, m in wellformed(post, header, total, limit)]
    if exc is not None:
        bad.append((f"{op}-raised:{type(exc).__name__}", f"{ctxs}: raised {exc!r}"))
        return bad
    if op == "alloc":
        occ = occupancy(pre, header, total)
        has_gap = bytes(arg) in bytes(occ) if arg <= len(occ) else False
        if ret is None:
            if has_gap and len(pre) < limit:
                bad.append(("alloc-spurious-failure", f"{ctxs}: returned None although {arg} consecutive free bytes exist and the table has room"))
            if post != pre:
                bad.append(("failed-alloc-changed-table", f"{ctxs}: returned None but table became {post[:6]}"))
        else:
            if not isinstance(ret, int) or ret < header or ret + arg > total:
                bad.append(("alloc-outside-data-region", f"{ctxs}: returned {ret!r}"))
            elif any(occ[ret - header : ret - header + arg]):
                bad.append(("alloc-overlaps-live-region", f"{ctxs}: returned {ret}, bytes already allocated"))
            if len(pre) >= limit:
                bad.append(("alloc-beyond-entry-limit", f"{ctxs}: succeeded with a full table"))
            want = tuple(sorted(pre + ((ret, arg),))) if isinstance(ret, int) else None
            if post != want:
                bad.append(("alloc-table-mismatch", f"{ctxs}: returned {ret!r}, table became {post[:8]} expected {want[:8] if want else None}"))
            if stats is not None and isinstance(ret, int):
                first = bytes(occ).find(bytes(arg)) + header
                stats["first_fit_offsets" if first == ret else "non_first_fit_offsets"] += 1
    else:  # free
        want = tuple(e for e in pre if e[0] != arg)
        if ret is not None:
            bad.append(("free-returned-value", f"{ctxs}: returned {ret!r}"))
        if post != want:
            bad.append(("free-table-mismatch", f"{ctxs}: table became {post[:8]} expected {want[:8]}"))
    return bad


class AllocWorld:
    """A real ShmAllocator on a bytearray; ``step`` applies one event and judges it."""

    def __init__(self, n: int, limit: int | None) -> None:
        import vgi_rpc.shm as M

        self.M = M
        self.header = M.HEADER_SIZE
        self.total = M.HEADER_SIZE + n
        self.limit = limit if limit is not None else (M.HEADER_SIZE - 24) // 16
        self.raw = bytearray(self.total)
        self.raw[self.header :] = bytes([PATTERN]) * n
        self.mv = memoryview(self.raw)
        M.ShmAllocator.initialize(self.mv, self.total)
        self.alloc = M.ShmAllocator(self.mv, self.total)
        self.fixed0, tab, _ = read_header(self.raw, self.total)
        self.table: tuple[tuple[int, int], ...] = tab or ()
        self.bad: list[tuple[str, str]] = []
        self.stats = {"first_fit_offsets": 0, "non_first_fit_offsets": 0}
        if self.fixed0 != (b"VGIS", 1, n, 0) or self.table != ():
            self.bad.append(("initialize-wrong-header", f"fresh header fields {self.fixed0} table {self.table}"))

    def step(self, ev: tuple[str, int], judge: bool = True, light: bool = False) -> Any:
        op, a = ev
        pre = self.table
        arg = a if op == "alloc" else pre[a][0]  # free: a = index of the live entry
        ret: Any = None
        exc: BaseException | None = None
        try:
            ret = self.alloc.allocate(arg) if op == "alloc" else self.alloc.free(arg)
        except Exception as e:  # noqa: BLE001
            exc = e
        fixed, post, count = read_header(self.raw, self.total)
        if judge and light and op == "alloc" and exc is None and isinstance(ret, int) and post is not None:
            # O(log n) form of the same relation, valid when *pre* is well formed (inductively true in the fill
            # phase, re-established by the full relation every 128 steps): the new entry fits between its
            # neighbours and the table is pre + entry.
            i = bisect.bisect_left(pre, (ret, 0))
            ok = (
                ret >= self.header and ret + arg <= self.total and len(pre) < self.limit
                and (i == 0 or pre[i - 1][0] + pre[i - 1][1] <= ret)
                and (i == len(pre) or ret + arg <= pre[i][0])
                and post == pre[:i] + ((ret, arg),) + pre[i:]
            )
            self.bad = [] if ok else judge_step(op, arg, ret, exc, pre, post, count, self.header, self.total, self.limit, None)
            if fixed != self.fixed0:
                self.bad.append(("header-fixed-fields-changed", f"{op}({arg}): magic/version/data_size/padding became {fixed}"))
        elif judge:
            self.bad = judge_step(op, arg, ret, exc, pre, post, count, self.header, self.total, self.limit, self.stats)
            if fixed != self.fixed0:
                self.bad.append(("header-fixed-fields-changed", f"{op}({arg}): magic/version/data_size/padding became {fixed}"))
            if self.raw[self.header :] != bytes([PATTERN]) * (self.total - self.header):
                self.bad.append(("allocator-wrote-data-region", f"{op}({arg}) on {pre[:6]}: bytes of the data region changed"))
        self.table = post if post is not None else pre
        return ret


def _set_limit(limit: int | None) -> Any:
    """Rebind the entry limit in the real module (None = restore the real value). Returns the module."""
    import vgi_rpc.shm as M

    real = (M.HEADER_SIZE - 24) // 16
    M.MAX_ALLOCS = real if limit is None else limit
    logging.getLogger("vgi_rpc.shm").setLevel(logging.CRITICAL)  # the 80% warning is not under test
    return M


def bfs_harness(ctx: Ctx, n: int, limit: int) -> dict[str, int]:
    label = f"alloc:N{n}:L{limit}"
    agg = {"first_fit_offsets": 0, "non_first_fit_offsets": 0}

    def build(hist: tuple[Any, ...]) -> AllocWorld:
        _set_limit(limit)
        w = AllocWorld(n, limit)
        for i, ev in enumerate(hist):
            w.step(tuple(ev), judge=(i == len(hist) - 1))
        for k in agg:
            agg[k] += w.stats[k]
        return w

    def enabled(w: AllocWorld) -> list[tuple[str, int]]:
        return [("alloc", s) for s in range(1, n + 2)] + [("free", i) for i in range(len(w.table))]

    def invariant(w: AllocWorld, hist: tuple[Any, ...]) -> Any:
        return w.bad[0] if w.bad else None

    try:
        st = B.bfs(ctx, build, enabled, lambda w: (n, limit, w.table), invariant, max_depth=10_000, label=label, shard_first_event=False)
    finally:
        _set_limit(None)
    for k in agg:
        ctx.extra[k] = ctx.extra.get(k, 0) + agg[k]
    return st


def linear_real_limit(ctx: Ctx) -> None:
    """4094 one-byte allocations with the real MAX_ALLOCS, then boundary operations; every step judged."""
    M = _set_limit(None)
    real = (M.HEADER_SIZE - 24) // 16
    w = AllocWorld(real + 6, None)
    if M.MAX_ALLOCS != real:
        ctx.fail("max-allocs-not-4094", f"MAX_ALLOCS is {M.MAX_ALLOCS}, the header holds {real}", {"part": "linear"})

    def do(ev: tuple[str, int], cls: str, full: bool) -> Any:
        # the fill phase uses the O(n) full step relation every 128 steps and its O(log n) form in between
        r = w.step(ev, judge=True, light=not full)
        ctx.case(sample={"part": "linear", "op": list(ev), "entries": len(w.table), "returned": r} if cls == "free-mid" else None,
                 nontrivial=f"lin:{cls}", outcome=("lin", cls, r is None, len(w.table) == real))
        ctx.trace()
        for k, m in w.bad:
            ctx.fail(k, f"[linear run to the real limit, {len(w.table)} entries] {m}", {"part": "linear", "class": cls})
        return r

    for i in range(real):
        do(("alloc", 1), "fill", full=(i % 128 == 0 or i < 8 or i >= real - 8))
    ctx.extra["max_entries_reached"] = max(ctx.extra.get("max_entries_reached", 0), len(w.table))
    if len(w.table) != real:
        ctx.fail("cannot-reach-entry-limit", f"only {len(w.table)} of {real} one-byte allocations succeeded in {real + 6} bytes", {"part": "linear"})
    do(("alloc", 1), "full-reject", True)  # 6 bytes free, table full
    do(("alloc", 6), "full-reject", True)
    do(("free", real // 2), "free-mid", True)
    do(("alloc", 2), "refill-tail", True)  # only the tail gap fits 2
    do(("alloc", 1), "full-reject", True)
    do(("free", 0), "free-first", True)
    do(("alloc", 1), "refill-gap", True)
    do(("free", real - 1), "free-last", True)
    do(("alloc", 7), "nogap-reject", True)  # room in the table, no gap of 7
    do(("alloc", 4), "refill-tail", True)
    do(("alloc", 1), "full-reject", True)
    for k, v in w.stats.items():
        ctx.extra[k] = ctx.extra.get(k, 0) + v


# ------------------------------------------------------------------------------------------------ (b) batches

KINDS = ("int64", "utf8", "dict", "struct", "listdict", "fieldmd")


def batch_space(ctx: Ctx) -> list[dict[str, Any]]:
    cols = (1, 10, 100) if ctx.quick else (1, 10, 100, 400)
    mds = (0, 1000, 4000, 5000) if ctx.quick else (0, 1000, 4000, 5000, 65536)
    rows = (1, 1000)
    out: list[dict[str, Any]] = []
    for kind in KINDS:
        for nc in cols:
            if kind == "listdict" and nc > 10:
                continue
            for md in mds:
                if kind == "fieldmd" and md == 0:
                    continue
                for r in rows:
                    if ctx.quick and r == 1000 and nc == 100 and kind in ("utf8", "dict"):
                        continue  # quick: the widest x longest string shapes are left to the thorough tier
                    for place in ("hole", "tail"):
                        out.append({"kind": kind, "cols": nc, "md": md, "rows": r, "place": place})
    return out


def make_batch(kind: str, nc: int, md: int, rows: int) -> pa.RecordBatch:
    meta = {"k": "m" * md} if md else None
    ints = pa.array(range(rows), pa.int64())
    if kind in ("int64", "fieldmd"):
        fields = [pa.field(f"c{i}", pa.int64()) for i in range(nc)]
        if kind == "fieldmd":
            fields[0] = fields[0].with_metadata(meta)
            meta = None
        return pa.RecordBatch.from_arrays([ints] * nc, schema=pa.schema(fields, metadata=meta))
    if kind == "utf8":
        s = pa.array([f"s{i}" for i in range(rows)], pa.utf8())
        return pa.RecordBatch.from_arrays([s] * nc, schema=pa.schema([pa.field(f"c{i}", pa.utf8()) for i in range(nc)], metadata=meta))
    if kind == "dict":
        d = pa.array([("a", "bb", "ccc", "dddd", "e")[i % 5] for i in range(rows)], pa.utf8()).dictionary_encode()
        return pa.RecordBatch.from_arrays([d] * nc, schema=pa.schema([pa.field(f"c{i}", d.type) for i in range(nc)], metadata=meta))
    if kind == "struct":
        st = pa.StructArray.from_arrays([ints] * nc, names=[f"f{i}" for i in range(nc)])
        return pa.RecordBatch.from_arrays([st], schema=pa.schema([pa.field("s", st.type)], metadata=meta))
    if kind == "listdict":
        t = pa.list_(pa.dictionary(pa.int32(), pa.utf8()))
        arr = pa.array([[f"value-{i:06d}"] for i in range(rows)], pa.list_(pa.utf8())).cast(t)
        return pa.RecordBatch.from_arrays([arr] * nc, schema=pa.schema([pa.field(f"c{i}", t) for i in range(nc)], metadata=meta))
    raise ValueError(kind)


def _has_nested_dictionary(t: pa.DataType) -> bool:
    if pa.types.is_dictionary(t):
        return True
    return any(_has_nested_dictionary(t.field(i).type) for i in range(t.num_fields))


def run_batch_case(ctx: Ctx, case: dict[str, Any]) -> None:
    import vgi_rpc.shm as M
    from vgi_rpc.metadata import SHM_LENGTH_KEY, SHM_OFFSET_KEY

    batch = make_batch(case["kind"], case["cols"], case["md"], case["rows"])
    victim = pa.RecordBatch.from_pydict({"v": list(range(17))})
    ref = pa.BufferOutputStream()
    with pa.ipc.new_stream(ref, batch.schema) as wr:
        wr.write_batch(batch)
    stream_size = ref.getvalue().size
    schema_msg = batch.schema.serialize().size
    top_dict = any(pa.types.is_dictionary(f.type) for f in batch.schema)
    path = "dict" if top_dict else "nondict"
    if top_dict:
        cause = "payload"  # the dict branch writes no schema message: dictionaries + record batch only
    elif schema_msg + 8 > 4096:
        cause = "schema-message"
    elif any(_has_nested_dictionary(f.type) for f in batch.schema):
        cause = "nested-dictionary"
    else:
        cause = "other"
    H = M.HEADER_SIZE
    old_min = M.SHM_MIN_BATCH_BYTES
    M.SHM_MIN_BATCH_BYTES = 0
    seg = M.ShmSegment.create(H + 4 * (stream_size + 16384) + 65536)
    try:
        dry = seg.allocate_and_write(batch)  # learn the length the real code requests for this batch
        if dry is None:  # a very generous estimate: retry once on a much larger segment
            seg.close()
            seg.unlink()
            seg = M.ShmSegment.create(H + 8 * (stream_size + 16384) + (32 << 20))
            dry = seg.allocate_and_write(batch)
        total = seg.size
        buf = seg.buf
        A = seg.allocator
        if dry is None:
            ctx.fail("dry-run-did-not-fit", f"{case}: allocate_and_write returned None on an empty {total - H}-byte segment", case)
            ctx.case(outcome="dry-none")
            return
        _, tab, _ = read_header(buf, total)
        L = dict(tab or ())[dry[0]]
        seg.free(dry[0])
        buf[H:total] = bytes([PATTERN]) * (total - H)
        try:
            A.allocate(64)
            if case["place"] == "hole":
                hole = A.allocate(L)
                v = seg.allocate_and_write(victim)
                assert hole is not None and v is not None
                seg.free(hole)
            else:
                v = seg.allocate_and_write(victim)
                assert v is not None
                _, tab, _ = read_header(buf, total)
                end = max(o + n for o, n in tab)  # type: ignore[union-attr]
                assert A.allocate(total - end - L) is not None
        except (AssertionError, ValueError, TypeError) as e:
            # the allocator itself misbehaves (part (a) reports that); this case cannot be laid out
            ctx.note(f"batch case {case} could not be laid out: {e!r}")
            ctx.extra["b_layout_failed"] = ctx.extra.get("b_layout_failed", 0) + 1
            ctx.case(outcome="layout-failed")
            del buf, A
            return
        v_bytes = bytes(buf[v[0] : v[0] + v[1]])
        _, pre, _ = read_header(buf, total)
        assert pre is not None
        snap = bytes(buf[H:total])
        exc: BaseException | None = None
        pb = cm = None
        try:
            pb, cm = M.maybe_write_to_shm(batch, None, seg)
        except Exception as e:  # noqa: BLE001
            exc = e
        after = bytes(buf[H:total])
        _, post, cnt = read_header(buf, total)
        key = f"write-exceeds-allocation:{path}:{cause}"
        shape = f"{case['kind']} cols={case['cols']} schema-md={case['md']}B rows={case['rows']} place={case['place']} (IPC stream {stream_size}B, schema message {schema_msg}B, allocation {L}B)"
        new = [e for e in (post or ()) if e not in pre]
        adjacent = False
        outcome: Any
        if post is None or len(new) > 1 or any(e not in post for e in pre):
            ctx.fail("write-corrupted-table", f"{shape}: table {pre} -> {post} (count {cnt})", case)
            outcome = "table-corrupt"
        elif exc is not None:
            own = new[0] if new else None
            stray = _stray(snap, after, own, H)
            adjacent = own is not None and (own[0] + own[1] == v[0] or own[0] + own[1] == total)
            ctx.fail(key, f"{shape}: write raised {type(exc).__name__}: {exc} after allocating {own}; "
                          f"{'bytes outside the allocation changed at +' + str(stray) if stray is not None else 'the segment end stopped the write'}", case)
            ctx.extra["b_raised"] = ctx.extra.get("b_raised", 0) + 1
            outcome = ("raised", type(exc).__name__, stray is not None)
        elif cm is None or cm.get(SHM_OFFSET_KEY) is None:
            if after != snap or post != pre:
                ctx.fail("nofit-but-wrote", f"{shape}: batch returned inline but segment changed", case)
            outcome = "inline"
        else:
            off, ln = int(cm.get(SHM_OFFSET_KEY)), int(cm.get(SHM_LENGTH_KEY))
            own = new[0] if new else None
            if own is None or own[0] != off:
                ctx.fail("pointer-without-table-entry", f"{shape}: pointer ({off},{ln}) but new entries {new}", case)
                outcome = "no-entry"
            else:
                adjacent = own[0] + own[1] == v[0] or own[0] + own[1] == total
                stray = _stray(snap, after, own, H)
                over = ln > own[1]
                vic_ok = bytes(buf[v[0] : v[0] + v[1]]) == v_bytes
                if vic_ok:
                    try:
                        got = M._deserialize_from_shm(seg.read_buffer(v[0], v[1]), victim.schema)
                        vic_ok = got.equals(victim)
                        del got
                    except Exception:  # noqa: BLE001
                        vic_ok = False
                if over or stray is not None or not vic_ok:
                    ctx.fail(key, f"{shape}: wrote {ln} bytes into an allocation of {own[1]} at {own[0]}"
                                  f"{'; first foreign byte changed at data offset +' + str(stray) if stray is not None else ''}"
                                  f"{'; the live batch behind it is corrupted' if not vic_ok else ''}", case)
                    ctx.extra["b_overruns"] = ctx.extra.get("b_overruns", 0) + 1
                    if not vic_ok:
                        ctx.extra["b_victim_corrupted"] = ctx.extra.get("b_victim_corrupted", 0) + 1
                outcome = ("shm", over, stray is not None, vic_ok)
        ctx.extra["b_cases"] = ctx.extra.get("b_cases", 0) + 1
        ctx.case(
            sample={"part": "batch", **case, "stream_bytes": stream_size, "allocation": L, "outcome": repr(outcome)}
            if case["md"] in (0, 5000) and case["cols"] == 10 and case["rows"] == 1 and case["place"] == "hole" and len(ctx.samples) < 2 else None,
            nontrivial=("b", case["kind"], case["cols"], case["md"], case["rows"], case["place"]) if adjacent else None,
            outcome=("b", path, cause, outcome),
        )
        del buf, A
    finally:
        M.SHM_MIN_BATCH_BYTES = old_min
        try:
            seg.close()
        finally:
            seg.unlink()


def _stray(before: bytes, after: bytes, own: tuple[int, int] | None, header: int) -> int | None:
    """Data-region offset of the first changed byte outside *own* allocation (None = none)."""
    if before == after:
        return None
    a, b = (own[0] - header, own[0] - header + own[1]) if own else (0, 0)
    if before[:a] != after[:a]:
        return next(i for i in range(a) if before[i] != after[i])
    if before[b:] != after[b:]:
        tail_b, tail_a = before[b:], after[b:]
        return b + next(i for i in range(len(tail_b)) if tail_b[i] != tail_a[i])
    return None


# ------------------------------------------------------------------------------------------------ driver


def bfs_configs(ctx: Ctx) -> list[tuple[int, int]]:
    if ctx.quick:
        return [(n, lim) for n in range(1, 8) for lim in (2, 3)]
    return [(n, lim) for n in range(1, 11) for lim in (1, 2, 3, 4)]


def run(ctx: Ctx) -> None:
    ctx.extra.update({"bfs_states": 0, "bfs_transitions": 0, "max_bfs_depth": 0, "b_cases": 0, "b_overruns": 0, "b_raised": 0, "b_victim_corrupted": 0})
    # order: batches, linear run, BFS harnesses (largest first) — one enumeration, sharded item by item
    for case in batch_space(ctx):
        if not ctx.mine():
            continue
        run_batch_case(ctx, case)
    if ctx.mine():
        linear_real_limit(ctx)
    for n, lim in sorted(bfs_configs(ctx), key=lambda c: (-c[0], -c[1])):
        if not ctx.mine():
            continue
        st = bfs_harness(ctx, n, lim)
        ctx.extra["bfs_states"] += st["states"]
        ctx.extra["bfs_transitions"] += st["transitions"]
        ctx.extra["max_bfs_depth"] = max(ctx.extra["max_bfs_depth"], st["max_depth"])


def replay(ctx: Ctx, case: dict[str, Any]) -> None:
    if "harness" in case:  # BFS history
        _, n, lim = case["harness"].split(":")
        _set_limit(int(lim[1:]))
        try:
            w = AllocWorld(int(n[1:]), int(lim[1:]))
            for i, ev in enumerate(case["history"]):
                w.step(tuple(ev), judge=(i == len(case["history"]) - 1))
            for k, m in w.bad:
                ctx.fail(k, m, case)
        finally:
            _set_limit(None)
    elif case.get("part") == "linear":
        linear_real_limit(ctx)
    else:
        run_batch_case(ctx, case)

"""C25 — Sticky sessions are isolated by worker and identity (E2: BFS over session lifecycles).

World: two real sticky-enabled WSGI apps ("A", "B") sharing one AEAD ``token_key`` but with different
``RpcServer(server_id=...)``; an ``authenticate`` callback deriving the identity from a request header; the
virtual clock / no-reaper / sequential-session-id seams of ``vf.kit.c25_sticky``.  Every request goes through
the real client (``http_connect``) and the real Falcon middleware stack.

BFS events: open(worker, identity[, per-call ttl in {0, 2}]) | close-in-method(token) | DELETE(token) (both by the owner, on a live
session) | tick(+1) | tick(+TTL) | tick(+TTL+1) | reap(worker) = ``registry.drain_expired()`` | (thorough) drain(worker),
shutdown(worker).  Canonical state = clock offset, drain flags and the *multiset* of minted tokens
(worker, identity, expiry offset, closed-by-model, present-in-registry).  Soundness of the projection: the
registry holds nothing but (session id -> state, expires_at, principal_key) and the drain flag, tokens are
independent of each other and of mint order, and the middleware is stateless besides the registry.

In every *new* canonical state (and once more with the owner only in every revisit) every token minted so
far — live, closed, deleted, expired, reaped — is presented under every (worker, identity) pair both as a
call (``VGI-Session`` on a unary request) and as ``DELETE /__session__``.  In the shallow states the byte-level
mutations and truncations of every token are presented as well.

Reference model (written from docs/sticky-sessions-spec.md, not from the code): a token is *live* iff it was
not closed/deleted/shut down/reaped and now < expires; now == expires is left open (either outcome accepted).

Oracle (weakest reading of the statement):
  * ok := (presenting worker == minting worker) and (presenting identity == opening identity) and live.
  * call, ok      -> success, exactly one dispatch on that worker, ``ctx.session`` is the very state object of
                     that session, nothing dispatched on the other worker.
  * call, not ok  -> error with ``vgi_rpc.error_kind == session_lost`` in the response batch metadata,
                     **zero** dispatches on both workers, registry unchanged (an expired entry may be
                     evicted in-line: unobservable).
  * DELETE, ok    -> 204, ``state.close()`` called once, entry gone, and a repeated DELETE is then "not ok".
  * DELETE, not ok-> status 200 and the whole response (status, body, all headers except the random
                     ``x-request-id``) identical to the response of a DELETE that carries no token at all.
  * a presentation never changes any *other* session.
Token bytes, request ids, error texts are never compared.
"""

from __future__ import annotations

import base64
from typing import Any

from vf.core import bfs as B
from vf.core.runner import Ctx, h
from vf.kit import c25_sticky as K

PROPERTY = "C25"
LEVEL = "model_checking"
ENGINE = "E2-BFS"
SHARDS = {"quick": 8, "thorough": 16}
TECHNIQUE = "explicit-state BFS over session lifecycles of two real workers; exhaustive token x worker x identity presentation matrix (+ every bit flip / truncation) in every state, judged against a spec-derived liveness model"
RULE = (
    "BFS (depth 3 quick / 4 thorough, <=3 tokens per history) over open(worker in {A,B}, identity)/close/DELETE/"
    "tick(TTL)/tick(TTL+1)/reap(/drain/shutdown) on two real sticky apps with a shared key; in every new canonical state "
    "sessions are opened by 4 identities (anonymous, d/alice, d/bob, ''/anonymous); every minted token is presented x {A,B} x identities (the same 4 quick; 6 thorough: + d2/alice, d/alice\\0x) x {call, DELETE}; "
    "token mutations (every bit of the sealed bytes, every prefix truncation, char drop/append/replace) in all states of depth <=1 (quick, "
    "one flip per byte + all truncations under the owner pair, sparse set under the others) / <=2 (thorough, full set under the owner pair, one flip per byte + all truncations under the other identities on the minting worker at depth 1, sparse set otherwise); "
    "non-trivial class = (token status, same-worker, same-identity, op, observed outcome)"
)
LEVEL_TEXT = (
    "All lifecycle histories up to the depth bound are executed on the real middleware/registry/client and, in each reached state, "
    "the complete presentation matrix is judged; the statement quantifies over histories x presentations, which example tests sample twice."
)
LEVEL_NOTE = (
    "Bounds: 2 workers, <=3 tokens, depth 3/4, identity alphabet of 4/6, TTLs {default, 0, 2}, unary calls. AEAD strength is trusted "
    "(mutations are single-bit / truncation / char edits, not forgeries). Clock, reaper and session-id source are replaced by deterministic seams."
)
ASSUMPTIONS = [
    "vgi_rpc.http.server._sticky reads time only through its module global `time` (rebound to a virtual clock)",
    "the reaper thread is replaced by an explicit registry.drain_expired() event; no free-running thread exists in the deciding path",
    "identity = (domain, principal) produced by the authenticate callback; domains contain no NUL byte",
    "a token string variant that base64url-decodes to the identical sealed bytes is not a tampered token and is skipped",
    "at now == expires_at either outcome (live or lost) is accepted",
    "session ids are a worker-local sequence, i.e. the n-th sessions of the two workers collide on purpose (adversarial for the server_id check)",
]

TTL = 10.0
MAX_TOKENS = 3


OPEN_IDS: list[str | None] = [None, "alice", "bob", "anonish"]  # identities that open sessions (event alphabet)


def ids_for(ctx_or_tier: Any) -> list[str | None]:
    """Identities under which tokens are *presented*."""
    tier = ctx_or_tier if isinstance(ctx_or_tier, str) else ctx_or_tier.tier
    if tier == "quick":
        return list(OPEN_IDS)
    return [None, "alice", "bob", "alice@d2", "anonish", "alice-nul"]


# ------------------------------------------------------------------------------------------------------
# world


class World:
    def __init__(self) -> None:
        self.clock = K.VTime()
        self.t0 = self.clock.now
        self.sec = K.install(self.clock)
        self.w = {"A": K.Worker("A", TTL), "B": K.Worker("B", TTL)}
        self.minted_on = {"A": 0, "B": 0}
        self.draining = {"A": False, "B": False}
        self.tokens: list[dict[str, Any]] = []  # model + the real token string
        self.problems: list[tuple[str, str]] = []  # divergences seen while executing events
        self._base: dict[str, Any] = {}

    # -- model ---------------------------------------------------------------------------------
    def live(self, k: int) -> bool | None:
        t = self.tokens[k]
        if t["closed"]:
            return False
        if self.clock.now < t["exp"]:
            return True
        if self.clock.now > t["exp"]:
            return False
        return None

    def in_registry(self, k: int) -> bool:
        t = self.tokens[k]
        return t["label"] in self.w[t["w"]].live_labels()

    def canon(self) -> Any:
        toks = sorted(
            (t["w"], str(t["i"]), t["exp"] - self.t0, t["closed"], self.in_registry(k)) for k, t in enumerate(self.tokens)
        )
        return (self.clock.now - self.t0, self.draining["A"], self.draining["B"], tuple(toks))

    # -- events --------------------------------------------------------------------------------
    def apply(self, ev: Any) -> None:
        kind = ev[0]
        if kind == "open":
            wn, ident = ev[1], ev[2]
            ttl = ev[3] if len(ev) > 3 else None  # per-call TTL passed to ctx.open_session (None = the server default)
            # worker-local session-id sequence: the n-th session of A and the n-th session of B get the SAME
            # session id, so only the token's server_id (not luck) keeps the two registries apart
            self.sec.n = self.minted_on[wn]
            o = self.w[wn].call("open" if ttl is None else f"open:{ttl}", ident=ident, accept="true")
            self.minted_on[wn] = self.sec.n
            if self.draining[wn]:
                if o["minted"] or "server_draining" not in o["kinds"]:
                    self.problems.append(("event:open-while-draining", f"open on draining worker gave {brief(o)}"))
                return
            if o["err"] is not None or not o["minted"]:
                self.problems.append(("event:open-failed", f"opt-in open under {ident!r} on {wn} gave {brief(o)}"))
                return
            label = o["ret"].split("|")[-1]
            self.tokens.append({"w": wn, "i": ident, "exp": self.clock.now + (TTL if ttl is None else ttl), "closed": False, "label": label, "tok": o["minted"]})
        elif kind == "close":
            t = self.tokens[ev[1]]
            o = self.w[t["w"]].call("close", ident=t["i"], token=t["tok"])
            if o["err"] is not None or o["close_hdr"] != "true":
                self.problems.append(("event:owner-close-failed", f"owner close of a live session gave {brief(o)}"))
            t["closed"] = True
        elif kind == "delete":
            t = self.tokens[ev[1]]
            r = self.w[t["w"]].delete(ident=t["i"], token=t["tok"])
            if r.status != 204:
                self.problems.append(("event:owner-delete-not-204", f"owner DELETE of a live session gave {r.status}"))
            t["closed"] = True
        elif kind == "tick":
            self.clock.now += ev[1]
        elif kind == "reap":
            self.w[ev[1]].registry.drain_expired()
            for t in self.tokens:
                if t["w"] == ev[1] and self.clock.now > t["exp"]:
                    t["closed"] = True
        elif kind == "drain":
            self.w[ev[1]].handle.drain()
            self.draining[ev[1]] = True
        elif kind == "shutdown":
            self.w[ev[1]].handle.shutdown()
            for t in self.tokens:
                if t["w"] == ev[1]:
                    t["closed"] = True
        else:
            raise AssertionError(ev)

    def snap(self) -> Any:
        return (self.w["A"].snapshot(), self.w["B"].snapshot())

    def base(self, wn: str) -> Any:
        """Signature of the response to a DELETE that carries no token (reference for 'indistinguishable')."""
        if wn not in self._base:
            self._base[wn] = del_sig(self.w[wn].delete(ident=None, token=None))
        return self._base[wn]

    def logs(self) -> tuple[int, int]:
        return (len(self.w["A"].impl.log), len(self.w["B"].impl.log))


def brief(o: dict[str, Any]) -> str:
    return f"ret={o['ret']!r} err={o['err']} kinds={o['kinds']} minted={'yes' if o['minted'] else 'no'} close={o['close_hdr']} dispatched={o['dispatched']}"


def build(hist: tuple[Any, ...]) -> World:
    w = World()
    for ev in hist:
        w.apply(tuple(ev))
    return w


def make_enabled(tier: str):
    ids = OPEN_IDS

    def enabled(w: World) -> list[Any]:
        evs: list[Any] = []
        if len(w.tokens) < MAX_TOKENS:
            for wn in ("A", "B"):
                for i in ids:
                    evs.append(("open", wn, i))
                # explicit per-call TTLs, including zero (expired on arrival) and one shorter than the default
                evs.append(("open", wn, "alice", 0.0))
                evs.append(("open", wn, "alice", 2.0))
        for k in range(len(w.tokens)):
            if w.live(k) is True:
                evs.append(("close", k))
                evs.append(("delete", k))
        evs.append(("tick", 1.0))
        evs.append(("tick", TTL))
        evs.append(("tick", TTL + 1))
        for wn in ("A", "B"):
            if any(t["w"] == wn and not t["closed"] and w.clock.now > t["exp"] for t in w.tokens):
                evs.append(("reap", wn))
        if tier == "thorough":
            for wn in ("A", "B"):
                if not w.draining[wn]:
                    evs.append(("drain", wn))
                if any(t["w"] == wn and not t["closed"] for t in w.tokens):
                    evs.append(("shutdown", wn))
        return evs

    return enabled


# ------------------------------------------------------------------------------------------------------
# token mutations


def _dec(s: str) -> bytes | None:
    try:
        return base64.urlsafe_b64decode((s + "=" * (-len(s) % 4)).encode("ascii"))
    except Exception:
        return None


def _enc(b: bytes) -> str:
    return base64.urlsafe_b64encode(b).rstrip(b"=").decode("ascii")


def variants(tok: str, level: str) -> list[tuple[str, str]]:
    """(name, token string). level: 'full' | 'perbyte' | 'sparse'. Variants decoding to the original bytes are dropped."""
    raw = _dec(tok)
    assert raw is not None
    out: list[tuple[str, str]] = []
    n = len(raw)
    if level == "full":
        bits = [(i, b) for i in range(n) for b in range(8)]
    elif level == "perbyte":
        bits = [(i, i % 8) for i in range(n)]
    else:
        bits = [(i, (i // 5) % 8) for i in range(0, n, 5)] + [(n - 1, 0), (0, 7)]
    for i, b in bits:
        m = bytearray(raw)
        m[i] ^= 1 << b
        out.append((f"flip:{i}.{b}", _enc(bytes(m))))
    step = 1 if level in ("full", "perbyte") else 9
    for cut in range(1, len(tok), step):
        out.append((f"trunc:{cut}", tok[:cut]))
    for cut in range(1, n, 1 if level == "full" else 11):
        out.append((f"rawtrunc:{cut}", _enc(raw[:cut])))
    out.append(("dropfirst", tok[1:]))
    out.append(("append:AA", tok + "AA"))
    out.append(("append:AAAA", tok + "AAAA"))
    out.append(("double", tok + tok))
    out.append(("swapcase", tok.swapcase()))
    out.append(("reverse", tok[::-1]))
    if level == "full":
        for p in range(len(tok)):
            out.append((f"bang:{p}", tok[:p] + "!" + tok[p + 1 :]))
            out.append((f"eq:{p}", tok[:p] + "=" + tok[p + 1 :]))
    res = []
    for name, s in out:
        if not s or s.strip() != s:
            continue
        if _dec(s) == raw:
            continue
        res.append((name, s))
    return res


# ------------------------------------------------------------------------------------------------------
# the invariant


def del_sig(r: K.Resp) -> Any:
    return (r.status, r.content, tuple(sorted((k, v) for k, v in r.headers.items() if k != "x-request-id")))


def status_of(w: World, k: int) -> str:
    t = w.tokens[k]
    lv = w.live(k)
    if lv is True:
        return "live"
    if lv is None:
        return "boundary"
    if not t["closed"]:
        return "expired"
    return "closed" if w.clock.now < t["exp"] else "dead"


class Checker:
    def __init__(self, ctx: Ctx) -> None:
        self.ctx = ctx
        self.ids = ids_for(ctx)
        self.full_seen: set[str] = set()
        ctx.extra.setdefault("presentations", 0)
        ctx.extra.setdefault("mutated_presentations", 0)
        ctx.extra.setdefault("dispatching_presentations", 0)
        ctx.extra.setdefault("delete_204", 0)
        ctx.extra.setdefault("rebuilds", 0)
        ctx.extra.setdefault("states_fully_probed", 0)
        ctx.extra.setdefault("states_mutation_probed", 0)

    # one presentation; returns the (possibly rebuilt) world
    def present(self, w: World, hist: tuple[Any, ...], k: int, wn: str, ident: str | None, op: str, tokstr: str | None, vname: str | None) -> World:
        ctx = self.ctx
        t = w.tokens[k]
        tok = t["tok"] if tokstr is None else tokstr
        mutated = tokstr is not None
        lv = w.live(k)
        same_w, same_i = wn == t["w"], ident == t["i"]
        if mutated:
            ok: bool | None = False
        elif same_w and same_i:
            ok = lv
        else:
            ok = False
        st = status_of(w, k)
        rel = ("mut:" + vname.split(":")[0] if mutated else "orig", same_w, same_i)
        rep = {"history": [list(e) for e in hist], "probe": {"k": k, "worker": wn, "ident": ident, "op": op, "variant": vname}, "tier": ctx.tier}
        # finding-key suffix: what kind of foreign presentation this is
        if mutated:
            cls = "tampered"
        elif not same_w:
            cls = "other-worker"
        elif not same_i:
            cls = f"other-identity[{t['i'] or 'anon'}->{ident or 'anon'}]"
        else:
            cls = st
        before = w.snap()
        logs0 = w.logs()
        base = w.base(wn) if op == "delete" else None
        changed_ok = False
        outcome: Any
        if op == "call":
            o = w.w[wn].call("noop", ident=ident, token=tok)
            logs1 = w.logs()
            ndisp = (logs1[0] - logs0[0]) + (logs1[1] - logs0[1])
            lost = "session_lost" in o["kinds"] and o["err"] is not None
            served = o["err"] is None and ndisp == 1
            outcome = ("call", "served" if served else ("lost" if lost and ndisp == 0 else "other"))
            if served:
                ctx.extra["dispatching_presentations"] += 1
            if ok is False:
                if ndisp != 0:
                    ctx.fail(f"dispatched:{cls}", f"{st} token of ({t['w']},{t['i']}) presented on ({wn},{ident}) variant={vname}: method dispatched ({brief(o)})", rep)
                elif not lost:
                    ctx.fail(f"not-session-lost:{cls}", f"{st} token presented on ({wn},{ident}) variant={vname}: expected a session_lost error, got {brief(o)} status={o['status']}", rep)
                if o["minted"] or o["close_hdr"]:
                    ctx.fail(f"session-headers-on-reject:{cls}", f"rejected presentation carried session headers: {brief(o)}", rep)
            elif ok is True:
                rec = w.w[wn].impl.log[-1] if ndisp == 1 else None
                if not served:
                    ctx.fail(f"owner-denied:{st}", f"live token presented by its owner on its worker was not served: {brief(o)}", rep)
                elif rec is None or rec["entry"] != t["label"] or o["ret"] != f"{t['label']}|{t['label']}":
                    ctx.fail("wrong-session-bound", f"owner call bound session {rec and rec['entry']!r}, expected {t['label']!r} ({brief(o)})", rep)
                elif (logs1[0] - logs0[0], logs1[1] - logs0[1]) != ((1, 0) if wn == "A" else (0, 1)):
                    ctx.fail("dispatch-on-wrong-worker", f"dispatch counts {logs0}->{logs1} for a call on {wn}", rep)
            else:  # boundary: either clean outcome
                if not (served or (lost and ndisp == 0)):
                    ctx.fail("boundary-unclean", f"token at now==expires gave neither a clean serve nor a clean session_lost: {brief(o)}", rep)
        else:
            r = w.w[wn].delete(ident=ident, token=tok)
            sig = del_sig(r)
            outcome = ("delete", r.status, sig == base)
            logs1 = w.logs()
            if logs1 != logs0:
                ctx.fail("delete-dispatched-method", "a DELETE dispatched an RPC method", rep)
            if ok is False or (ok is None and r.status != 204):
                if r.status == 204:
                    ctx.fail(f"delete-204:{cls}", f"DELETE with {st} token of ({t['w']},{t['i']}) presented on ({wn},{ident}) variant={vname} returned 204", rep)
                elif r.status != 200:
                    ctx.fail(f"delete-status-{r.status}:{cls}", f"DELETE for a non-owned/non-live session returned {r.status}, expected 200", rep)
                elif sig != base:
                    ctx.fail(f"delete-distinguishable:{cls}", f"DELETE response differs from the no-token DELETE response: {sig!r} vs {base!r}", rep)
            else:  # ok True, or boundary answered 204
                if r.status != 204:
                    ctx.fail(f"owner-delete-not-204:{st}", f"owner DELETE of a live session returned {r.status}", rep)
                else:
                    ctx.extra["delete_204"] += 1
                    changed_ok = True
                    state = next(s for s in w.w[wn].impl.states if s.label == t["label"])
                    if w.in_registry(k) or state.closed != 1:
                        ctx.fail("delete-204-did-not-close", f"204 but entry present={w.in_registry(k)} close() calls={state.closed}", rep)
                    r2 = w.w[wn].delete(ident=ident, token=tok)
                    if r2.status != 200 or del_sig(r2) != base:
                        ctx.fail("delete-not-idempotent", f"second DELETE after a 204 gave {r2.status} / differs from the no-token response", rep)
                    o2 = w.w[wn].call("noop", ident=ident, token=tok)
                    if o2["dispatched"] or "session_lost" not in o2["kinds"]:
                        ctx.fail("served-after-delete", f"call after a 204 DELETE: {brief(o2)}", rep)
        ctx.extra["presentations"] += 1
        if mutated:
            ctx.extra["mutated_presentations"] += 1
        ctx.case(
            sample=rep["probe"] | {"token_status": st, "outcome": list(map(str, outcome)), "depth": len(hist)} if ctx.extra["presentations"] in (3, 40, 400, 4000) else None,
            nontrivial=(st, rel, op, outcome),
            outcome=(st, rel, op, outcome),
        )
        after = w.snap()
        if after != before:
            # legitimate changes: the presented session itself went away because (a) owner DELETE 204, or
            # (b) it was expired and got evicted in-line.  Anything else is a side effect on some session.
            gone = (set(before[0]) | set(before[1])) - (set(after[0]) | set(after[1]))
            new = (set(after[0]) | set(after[1])) - (set(before[0]) | set(before[1]))
            only_self = not new and all(g[3] == t["label"] for g in gone)
            expired_self = only_self and w.clock.now >= t["exp"] and not mutated and same_w
            if not (only_self and (changed_ok or expired_self)):
                ctx.fail(f"presentation-side-effect:{cls}:{op}", f"registry changed by a presentation that must not change it: gone={sorted(gone)} new={sorted(new)}", rep)
            ctx.extra["rebuilds"] += 1
            w = build(hist)
        return w

    def invariant(self, w: World, hist: tuple[Any, ...]) -> Any:
        ctx = self.ctx
        for key, msg in w.problems:
            ctx.fail(key, msg, {"history": [list(e) for e in hist], "probe": None, "tier": ctx.tier})
        ck = h(w.canon())
        first = ck not in self.full_seen
        self.full_seen.add(ck)
        ntok = len(w.tokens)
        if first:
            ctx.extra["states_fully_probed"] += 1
            for k in range(ntok):
                for wn in ("A", "B"):
                    for ident in self.ids:
                        for op in ("call", "delete"):
                            w = self.present(w, hist, k, wn, ident, op, None, None)
            mut_depth = 1 if ctx.quick else 2
            if len(hist) <= mut_depth and ntok:
                ctx.extra["states_mutation_probed"] += 1
                for k in range(ntok):
                    t = dict(w.tokens[k])
                    for wn in ("A", "B"):
                        for ident in self.ids:
                            owner = wn == t["w"] and ident == t["i"]
                            if ctx.quick:
                                level = "perbyte" if owner else "sparse"
                            else:
                                level = "full" if owner else ("perbyte" if wn == t["w"] and len(hist) <= 1 else "sparse")
                            # variant *names* are positional; the string is re-derived from the token of the
                            # current build (a rebuild re-mints the token with a fresh nonce)
                            names = [n for n, _ in variants_by_name(w.tokens[k]["tok"], level)]
                            for vname in names:
                                for op in ("call", "delete"):
                                    s = dict(variants_by_name(w.tokens[k]["tok"], level)).get(vname)
                                    if s is not None:
                                        w = self.present(w, hist, k, wn, ident, op, s, vname)
        else:
            # revisit through another history: differential re-check with the owner only
            for k in range(ntok):
                t = w.tokens[k]
                w = self.present(w, hist, k, t["w"], t["i"], "call", None, None)
        return None


_VCACHE: dict[tuple[str, str], list[tuple[str, str]]] = {}


def variants_by_name(tok: str, level: str) -> list[tuple[str, str]]:
    key = (tok, level)
    v = _VCACHE.get(key)
    if v is None:
        if len(_VCACHE) > 64:
            _VCACHE.clear()
        v = _VCACHE[key] = variants(tok, level)
    return v


def run(ctx: Ctx) -> None:
    chk = Checker(ctx)
    depth = 3 if ctx.quick else 4
    st = B.bfs(ctx, build, make_enabled(ctx.tier), lambda w: w.canon(), chk.invariant, max_depth=depth, label="c25")
    ctx.extra["max_depth_reached"] = st["max_depth"]
    ctx.extra["bfs_states_this_shard_sum"] = st["states"]


def replay(ctx: Ctx, case: dict[str, Any]) -> None:
    hist = tuple(tuple(e) for e in case["history"])
    ctx.tier = case.get("tier", ctx.tier)
    ctx.quick, ctx.thorough = ctx.tier == "quick", ctx.tier == "thorough"
    chk = Checker(ctx)
    w = build(hist)
    p = case.get("probe")
    if not p:
        chk.invariant(w, hist)
        return
    tokstr = None
    if p.get("variant"):
        for level in ("full", "perbyte", "sparse"):
            d = dict(variants(w.tokens[p["k"]]["tok"], level))
            if p["variant"] in d:
                tokstr = d[p["variant"]]
                break
    chk.present(w, hist, p["k"], p["worker"], p["ident"], p["op"], tokstr, p.get("variant"))
    for key, msg in w.problems:
        ctx.fail(key, msg, case)

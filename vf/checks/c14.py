"""C14 — The call-state cache never changes a request's outcome (E2: BFS over request histories on a worker fleet).

Seam: 2-3 real ``make_wsgi_app`` workers sharing one token key (each with its own ``_CallStateCache`` of
capacity 0..3), driven with hand-framed ``/init`` and ``/exchange`` requests; the module-global ``time`` of
``_state_token`` / ``_app_stream`` is a virtual clock (token ttl = 10 s).

Events (the transition labels of the explored graph):
  init(s, w)            stream slot s (fixed identity per slot, e.g. A, B, A) is initialised on worker w (once per slot)
  cont(s, w, variant)   the next continuation of stream s is sent to worker w; the call token presented is
                        echo (the genuine one) | omit | tamper (one tag bit flipped) | other (the genuine call token
                        of the next initialised slot) ; thorough adds xid (genuine tokens, presented by the identity
                        of another slot).  An accepted continuation advances the stream's cursor.
  tick(d)               the clock advances by d in {ttl/2, ttl/2 + 1}  (so every age relation around the ttl —
                        entry expired / call token expired / cursor expired — is reachable in <= 3 ticks)
Exploration: explicit-state BFS to depth 5 (quick) / 4-6 (thorough, see ``configs``) per fleet configuration.  Successors are
computed by restoring the fleet to the predecessor state (clock, client-held tokens, the cache entries the real
code produced) and executing the event through the real code; every 4th newly found state is additionally rebuilt
by replaying its whole history on emptied caches and must canonicalise identically (else harness error).

Canonical state (deduplication key) = (ages of each stream's cursor and call token, each clamped at ttl+2; the
stream position; per worker the *ordered* list of cache entries as (slot, identity, remaining life clamped at 0)).
Sound because a response is a function of the presented tokens (determined by slot, position, ages), the
caller identity (fixed per slot), the clock relative to the mint times, and the worker's cache (keys, expiry,
LRU order, capacity) — nothing else is consulted by ``_unpack_and_recover_state``; ids and nonces are random
but only compared for equality, which the slot mapping preserves.

Oracle, evaluated on every cont transition: the same request bytes, at the same clock, are sent to a worker with
an *empty* cache sharing the key; (accepted?, decoded output batches) respectively (status, error type) must
be equal.  In addition an accepted continuation's output must be built from call state whose owner is the
presenting identity.
Finding keys: ``hit-serves-request-without-call-token`` / ``hit-serves-tampered-call-token`` /
``hit-serves-foreign-call-token`` (warm accepts what cold rejects, by variant), ``hit-outlives-call-token-ttl``
(genuine but expired call token), ``cache-rejects:<variant>``, ``cache-changes-output:<variant>``,
``cache-changes-rejection:<variant>``, ``foreign-identity-call-state``, ``cache-changes-init`` (a well-formed /init
refused by a worker because of what its cache holds).
"""

from __future__ import annotations

import base64
import collections
import itertools
import json
from typing import Any

from vf.core.runner import Ctx, HarnessError, h
from vf.kit import c12_tokens as T

PROPERTY = "C14"
LEVEL = "model_checking"
ENGINE = "E2-BFS"
SHARDS = {"quick": 8, "thorough": 16}
RULE = (
    "BFS over all histories of init/cont(echo|omit|tamper|other[|xid])/tick events for every fleet configuration: quick "
    "2 workers x capacities {0,1,2}^2, 2 streams (identities AB / AA alternating), depth 5, plus 3 streams (ABA / AAB, genuine "
    "tokens only) on capacities [2,0] and [3,1]; thorough 2 workers x {0..3}^2, "
    "3 streams ABA, 5 variants, depth 5 + 2 workers x {0,1,2}^2 x {AB, AA}, depth 6 + three 3-worker fleets (AB depth 5, "
    "ABA depth 4); states "
    "deduplicated on (token ages, positions, ordered cache contents); one evaluation per transition, non-trivial = "
    "distinct successor state"
)
TECHNIQUE = "explicit-state BFS of the real worker fleet with a differential cold-worker oracle on every continuation"
LEVEL_TEXT = (
    "All request/clock histories up to the depth bound are executed against real workers and every continuation is "
    "compared with an empty-cache worker at the same virtual time; histories, not single requests, are what the "
    "statement quantifies over, and the cache/expiry/LRU interplay only shows after specific event orders."
)
LEVEL_NOTE = (
    "Depth 5/6, ttl 10 s with ticks of 5 and 6 s, 2-3 streams of one method shape (producer with call state), "
    "capacities 0..3. The oracle worker is an emptied cache, not a new process."
)
ASSUMPTIONS = [
    "a worker's only cross-request state is its _CallStateCache (emptied via its own clear())",
    "os.urandom / uuid4 inside the token modules are replaced by a deterministic stream; `time` there is virtual",
    "clients always continue from the newest cursor they hold",
]

TTL = 10
H = TTL // 2
KEY = b"C14-shared-token-key-0123456789ab"[:32]
A: T.Ident = ("corp", "alice")
Bq: T.Ident = ("corp", "bob")
IDENT = {"A": A, "B": Bq}
SUBJECT = "prod_c"
T0 = 1_000_000.0
REPLAY_EVERY = 4  # every 4th newly found state is re-derived by full history replay


def owner(ident: T.Ident) -> str:
    return "<anon>" if ident is None else json.dumps(list(ident))


_POOL: dict[tuple[int, ...], list[T.Worker]] = {}
_ORACLE: list[T.Worker] = []
CLOCK = T.VTime(T0)


def fleet(caps: tuple[int, ...]) -> list[T.Worker]:
    if caps not in _POOL:
        _POOL[caps] = [T.Worker(KEY, cache_entries=c, token_ttl=TTL) for c in caps]
    return _POOL[caps]


def oracle_worker() -> T.Worker:
    if not _ORACLE:
        _ORACLE.append(T.Worker(KEY, token_ttl=TTL))
    _ORACLE[0].cache.clear()
    return _ORACLE[0]


class World:
    """The fleet after a history; built by replay."""

    def __init__(self, cfg: dict[str, Any]) -> None:
        self.cfg = cfg
        self.workers = fleet(tuple(cfg["caps"]))
        for w in self.workers:
            w.cache.clear()
        CLOCK.now = T0
        self.idents: list[T.Ident] = [IDENT[c] for c in cfg["idents"]]
        self.slots: list[dict[str, Any] | None] = [None] * len(self.idents)
        self.last: dict[str, Any] | None = None
        self.error: str | None = None

    # -- events
    def apply(self, ev: list[Any] | tuple[Any, ...]) -> None:
        self.last = None
        kind = ev[0]
        if kind == "tick":
            CLOCK.advance(ev[1])
        elif kind == "init":
            _, s, w = ev
            r = self.workers[w].init(SUBJECT, self.idents[s], {"limit": 50, "base": 100 * (s + 1)})
            if r.status != 200 or r.cursor is None or r.call is None:
                # a well-formed /init must succeed whatever the worker's cache holds: compare with an empty-cache worker
                cold = oracle_worker().init(SUBJECT, self.idents[s], {"limit": 50, "base": 100 * (s + 1)})
                if cold.status != 200:
                    raise HarnessError(f"/init fails on an empty-cache worker too: {cold.outcome()}")
                self.error = (f"init(stream {s}, worker {w} cap {self.cfg['caps'][w]}) answered {r.outcome()} on a worker whose cache held "
                              f"{len(self.workers[w].cache._entries)} entries, while an empty-cache worker accepts the same request")
                return
            self.slots[s] = {"cursor": r.cursor, "call": r.call, "pos": 1, "cursor_t": CLOCK.now, "call_t": CLOCK.now,
                             "cid": call_id_of(r.cursor, self.idents[s])}
        else:
            _, s, w, variant = ev
            sl = self.slots[s]
            assert sl is not None
            ident = self.idents[s]
            call: bytes | None = sl["call"]
            if variant == "omit":
                call = None
            elif variant == "tamper":
                raw = bytearray(base64.b64decode(sl["call"]))
                raw[-1] ^= 1
                call = base64.b64encode(bytes(raw))
            elif variant == "other":
                call = self.slots[other_slot(self.slots, s)]["call"]  # type: ignore[index]
            elif variant == "xid":
                ident = Bq if self.idents[s] == A else A
            body = T.turn_body(SUBJECT, sl["cursor"], call)
            T.EVENTS.clear()
            r = self.workers[w].post(f"/{SUBJECT}/exchange", body, ident)
            self.last = {"body": body, "ident": ident, "resp": r, "variant": variant, "slot": s, "worker": w,
                         "call_age": CLOCK.now - sl["call_t"], "cursor_age": CLOCK.now - sl["cursor_t"]}
            if r.status == 200 and not r.error_header and r.cursor is not None:
                sl["cursor"], sl["pos"], sl["cursor_t"] = r.cursor, sl["pos"] + 1, CLOCK.now


def other_slot(slots: list[dict[str, Any] | None], s: int) -> int | None:
    n = len(slots)
    for k in range(1, n):
        if slots[(s + k) % n] is not None:
            return (s + k) % n
    return None


def call_id_of(cursor: bytes, ident: T.Ident) -> bytes:
    """Instrument only (canonical state): the call id a cursor token names, via the real opener."""
    from vgi_rpc.http.server._state_token import _compute_aad
    from vgi_rpc.http.server._state_token import _open_cursor_token
    from vgi_rpc.rpc import AuthContext

    auth = None if ident is None else AuthContext(domain=ident[0], authenticated=True, principal=ident[1])
    try:
        return bytes(_open_cursor_token(cursor, KEY, _compute_aad(auth), 0)[1])
    except Exception:
        return cursor[:24]


_EPOCH = [0]


def fresh_entropy() -> None:
    """New deterministic entropy epoch: call ids / nonces never repeat within a process (a repeated call id
    would be a harness-made cache-key collision)."""
    _EPOCH[0] += 1
    T.ENTROPY.reset(f"c14/{_EPOCH[0]}")


def build(cfg: dict[str, Any], hist: tuple[Any, ...]) -> World:
    fresh_entropy()
    w = World(cfg)
    for ev in hist:
        w.apply(ev)
    return w


def enabled(world: World) -> list[tuple[Any, ...]]:
    cfg = world.cfg
    evs: list[tuple[Any, ...]] = []
    nw = len(world.workers)
    for s, sl in enumerate(world.slots):
        if sl is None:
            # symmetry: slots with the same identity are interchangeable — initialise them in index order
            if any(world.slots[k] is None and world.idents[k] == world.idents[s] for k in range(s)):
                continue
            for w in range(nw):
                evs.append(("init", s, w))
    for s, sl in enumerate(world.slots):
        if sl is None:
            continue
        for w in range(nw):
            for variant in cfg["variants"]:
                if variant == "other" and other_slot(world.slots, s) is None:
                    continue
                evs.append(("cont", s, w, variant))
    for d in (H, H + 1):
        evs.append(("tick", d))
    return evs


def _clamp_age(x: float) -> float:
    return min(x, TTL + 2)


def canon(world: World) -> Any:
    now = CLOCK.now
    cids = {sl["cid"]: i for i, sl in enumerate(world.slots) if sl is not None}
    slots = tuple(
        None if sl is None else (sl["pos"], _clamp_age(now - sl["cursor_t"]), _clamp_age(now - sl["call_t"]))
        for sl in world.slots
    )
    caches = []
    for w in world.workers:
        ents = []
        for key, val in list(w.cache._entries.items()):
            parts = key if isinstance(key, tuple) else (key,)
            slot = next((cids[p] for p in parts if isinstance(p, bytes) and p in cids), "?")
            ident = tuple(p for p in parts if isinstance(p, str))
            exp = next((v for v in (val if isinstance(val, tuple) else (val,)) if isinstance(v, (int, float))), None)
            ents.append((slot, ident, None if exp is None else max(0.0, exp - now)))
        caches.append(tuple(ents))
    return (slots, tuple(caches), world.error)


def summary(r: T.Resp) -> tuple[Any, ...]:
    ok = r.status == 200 and not r.error_header
    if ok:
        return ("ok", tuple((tuple(sorted((k, tuple(v)) for k, v in d.items())), tuple(sorted(m.items()))) for d, m in r.batches),
                r.cursor is not None)
    return ("rejected", r.status, r.error_header, r.error[0] if r.error else None)


def invariant(world: World, hist: tuple[Any, ...]) -> tuple[str, str] | None:
    if world.error:
        return ("cache-changes-init", world.error)
    last = world.last
    if last is None:
        return None
    ow = oracle_worker()
    N_ORACLE[0] += 1
    cold = ow.post(f"/{SUBJECT}/exchange", last["body"], last["ident"])
    warm: T.Resp = last["resp"]
    sw, sc = summary(warm), summary(cold)
    v = last["variant"]
    wk = world.workers[last["worker"]]
    where = (f"cont(stream {last['slot']} of {owner(world.idents[last['slot']])}, worker {last['worker']} cap "
             f"{world.cfg['caps'][last['worker']]}, call token {v}) with call token aged {last['call_age']:.0f}s, cursor aged "
             f"{last['cursor_age']:.0f}s, ttl {TTL}: fleet worker -> {sw[:2]} {warm.error}; empty-cache worker -> {sc[:2]} {cold.error}")
    del wk
    if sw[0] == "ok":
        want = owner(last["ident"])
        for d, _ in warm.batches:
            if d.get("who") not in (None, [want]):
                return ("foreign-identity-call-state", f"{where}; output built from call state of {d.get('who')} for caller {want}")
    if sw == sc:
        return None
    if sw[0] == "ok" and sc[0] == "rejected":
        if v == "echo":
            key = "hit-outlives-call-token-ttl" if last["call_age"] > TTL else "hit-serves:echo"
        else:
            key = {"omit": "hit-serves-request-without-call-token", "tamper": "hit-serves-tampered-call-token",
                   "other": "hit-serves-foreign-call-token"}.get(v, f"hit-serves:{v}")
        return (key, where)
    if sw[0] == "rejected" and sc[0] == "ok":
        return (f"cache-rejects:{v}", where)
    if sw[0] == "ok":
        return (f"cache-changes-output:{v}", where + f"; outputs {warm.batches} vs {cold.batches}")
    return (f"cache-changes-rejection:{v}", where)


def configs(ctx: Ctx) -> list[dict[str, Any]]:
    """``idents``: one letter per stream slot — which identity owns it."""
    out: list[dict[str, Any]] = []
    base = ["echo", "omit", "tamper", "other"]
    if ctx.quick:
        for n, caps in enumerate(itertools.product((0, 1, 2), repeat=2)):
            # alternate two streams of distinct identities / of one identity (the latter lets `other` pass the AAD)
            out.append({"caps": list(caps), "idents": "AB" if n % 2 == 0 else "AA", "depth": 5, "variants": base})
        # three streams on a worker that can hold several entries (entries of different ages side by side), genuine tokens only
        out.append({"caps": [2, 0], "idents": "ABA", "depth": 5, "variants": ["echo"]})
        out.append({"caps": [3, 1], "idents": "AAB", "depth": 5, "variants": ["echo"]})
        return out
    for caps in itertools.product((0, 1, 2, 3), repeat=2):  # three streams (A, B, A), all five variants
        out.append({"caps": list(caps), "idents": "ABA", "depth": 5, "variants": base + ["xid"]})
    for caps in itertools.product((0, 1, 2), repeat=2):  # two streams, one level deeper
        for idents in ("AB", "AA"):
            out.append({"caps": list(caps), "idents": idents, "depth": 6, "variants": base})
    for caps in ((0, 1, 2), (1, 1, 1), (1, 2, 3)):  # three workers
        out.append({"caps": list(caps), "idents": "AB", "depth": 5, "variants": base})
        out.append({"caps": list(caps), "idents": "ABA", "depth": 4, "variants": base + ["xid"]})
    return out


N_ORACLE = [0]


def setup() -> None:
    T.install_clock(CLOCK)
    T.install_entropy()


def snapshot(world: World) -> Any:
    return (
        CLOCK.now,
        [None if sl is None else dict(sl) for sl in world.slots],
        [list(w.cache._entries.items()) for w in world.workers],
        world.error,
    )


def restore(world: World, snap: Any) -> None:
    """Put the fleet back into a previously reached state (entries were produced by the real code)."""
    CLOCK.now = snap[0]
    world.slots = [None if sl is None else dict(sl) for sl in snap[1]]
    for w, items in zip(world.workers, snap[2], strict=True):
        ents = w.cache._entries
        ents.clear()
        for k, v in items:
            ents[k] = v
    world.error = snap[3]
    world.last = None


def explore(ctx: Ctx, ci: int, cfg: dict[str, Any]) -> dict[str, int]:
    """BFS with state restore; every new state is re-derived by full replay on emptied caches and must agree."""
    label = f"caps={cfg['caps']}/idents={cfg['idents']}/d={cfg['depth']}"
    stats = {"states": 0, "transitions": 0, "max_depth": 0, "replay_validated": 0}
    fresh_entropy()
    world = World(cfg)
    k0 = h((label, canon(world)))
    seen = {k0}
    ctx.state(k0)
    frontier: collections.deque[tuple[tuple[Any, ...], str, Any]] = collections.deque([((), k0, snapshot(world))])
    first_idx = 0
    while frontier:
        hist, hk, snap = frontier.popleft()
        if len(hist) >= cfg["depth"]:
            continue
        restore(world, snap)
        for ev in enabled(world):
            if not hist:
                mine = ctx.mine(first_idx + ci)
                first_idx += 1
                if not mine:
                    continue
            restore(world, snap)
            world.apply(ev)
            nh = hist + (ev,)
            bad = invariant(world, nh)
            ck = h((label, canon(world)))
            ctx.transition(hk, ev, ck)
            ctx.trace()
            stats["transitions"] += 1
            ctx.case(
                sample={"harness": label, "history": list(nh)} if stats["transitions"] in (5, 500, 5000) else None,
                nontrivial=ck,
                outcome=(ev[0], ev[3] if len(ev) > 3 else None, summary(world.last["resp"])[0] if world.last else None),
            )
            if bad:
                ctx.fail(bad[0], bad[1], {"harness": label, "history": [list(e) for e in nh]})
            if ck not in seen:
                seen.add(ck)
                ctx.state(ck)
                stats["max_depth"] = max(stats["max_depth"], len(nh))
                nsnap = snapshot(world)
                if len(seen) % REPLAY_EVERY == 0:
                    # the restored-state exploration and a from-scratch replay of the history must agree
                    rw = build(cfg, nh)
                    if h((label, canon(rw))) != ck:
                        raise HarnessError(f"state restore and history replay disagree for {label} {nh}")
                    stats["replay_validated"] += 1
                    restore(world, nsnap)
                frontier.append((nh, ck, nsnap))
    stats["states"] = len(seen)
    return stats


def run(ctx: Ctx) -> None:
    setup()
    ctx.extra.update({"configs": 0, "bfs_states": 0, "bfs_transitions": 0, "max_depth_reached": 0, "oracle_queries": 0,
                      "states_revalidated_by_replay": 0})
    for ci, cfg in enumerate(configs(ctx)):
        # sharded on (configuration, first event)
        st = explore(ctx, ci, cfg)
        ctx.extra["configs"] += 1
        ctx.extra["bfs_states"] += st["states"]
        ctx.extra["bfs_transitions"] += st["transitions"]
        ctx.extra["states_revalidated_by_replay"] += st["replay_validated"]
        ctx.extra["max_depth_reached"] = max(ctx.extra["max_depth_reached"], st["max_depth"])
    ctx.extra["oracle_queries"] = N_ORACLE[0]


def replay(ctx: Ctx, case: dict[str, Any]) -> None:
    setup()
    label = case["harness"]
    caps = json.loads(label.split("caps=")[1].split("/")[0])
    idents = label.split("idents=")[1].split("/")[0]
    hist = tuple(tuple(e) for e in case["history"])
    w = build({"caps": caps, "idents": idents, "variants": ["echo", "omit", "tamper", "other", "xid"]}, hist)
    bad = invariant(w, hist)
    if bad:
        ctx.fail(bad[0], bad[1], case)

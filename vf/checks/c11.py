"""C11 — HTTP producer output is independent of chunking and resumption (E1: exhaustive enumeration).

Seam: real ``RpcServer`` + ``make_wsgi_app`` workers driven in-process through ``make_sync_client`` and the real
client (``http_connect`` -> ``HttpStreamSession.__iter__ / next_with_token / seek_to_token``,
``_HttpProxy.resume_stream``).  The falcon test client of every worker is wrapped by a wire tap that records the
raw response body of every HTTP turn.  The service is ``vf.kit.c11_sized.SizedSvc``: producer programs are data
(``steps = [[payload_bytes, nlogs, finish_in_same_tick], ...]``; payload -1 = a zero-row data batch), with three
method flavours: state-only (``produce``), program in *call state* (``produce_cs`` — cold resumption must recover
it from the client-echoed call token) and with a stream header (``produce_h``).

Three exhaustive phases (all bounds in RULE):

 chunk   every program x method x response codec x every cap in the program's own *boundary set*: 1, None, 10**9 and
         v-1, v, v+1 for every value v that ``tell()`` can have at a continue/stop decision of any turn (schema bytes
         + every contiguous run of produce cycles, measured from an uncapped reference run).  Oracle: the iterated
         batches equal the sequence predicted from the program alone (k, payload digest, user metadata), for every
         cap/codec/turn count; and for each turn's wire body the overshoot rule below.
 resume  every program x method x (cap in {None, 1}) x codec: all ``(batch, token)`` pairs via ``next_with_token``;
         for EVERY token: resume on {the same worker (warm; it has meanwhile started an unrelated decoy stream), a
         fresh worker sharing the key (cold, then again = warm, also after a decoy stream),
         a worker with a zero-entry call-state cache (cold on every turn)} x {``resume_stream``+iterate,
         ``resume_stream``+``next_with_token``, fresh ``init``+``seek_to_token``}.  Oracle: exactly the remaining
         batches.
 route   every assignment of the requests of one iteration (init + continuations) to two workers with independent
         caches (all 2^T routings), caps {None, 1, mid}.  Oracle: same batch sequence.

Overshoot rule ("a turn's body exceeds the cap by at most the last batch written"), weakest reading:
a turn violates it only if BOTH (a) in the decoded body the last produce cycle (its logs + data batch) *starts* at a
data-stream offset > cap, and (b) on the wire ``len(body) > cap + plain_size(last cycle .. end of body) + slack``
(slack = 0 for identity bodies, 64 + 1% for codec framing).  The continuation sentinel/EOS that follow the last
batch are counted as part of "the last batch written"; a stream header that precedes the data stream in the init
response is NOT counted against the cap (the statement speaks of the turn's output; accepted either way).
Turns with a single produce cycle can never violate it (the first cycle always runs).

Not compared: tokens, ids, timings, log interleaving (log *messages* are compared only as a counter
``log_divergences`` in the evidence, never as a violation: the statement is about batches).
``next_with_token`` raising its documented "one data batch per response" RuntimeError is not a violation (it
cannot happen for cap None / cap 1, the only caps the resume phase uses).
"""

from __future__ import annotations

import hashlib
import itertools
import json
from typing import Any

from vf.core.runner import Ctx

PROPERTY = "C11"
LEVEL = "exploration"
ENGINE = "E1-SEQ"
SHARDS = {"quick": 8, "thorough": 16}
RULE = (
    "programs: all step lists of length 1..3 (quick) / 1..4 (thorough) over payload sizes {8,700,3000} (+ zero-row "
    "and 70000-byte steps in fixed extra programs) x log pattern {none, one log per step} x finish {separate tick, same "
    "tick as last emit}; methods produce / produce_cs (call state) / produce_h (header 8 or 2000 bytes) ; codecs "
    "{identity, zstd, gzip} (incompressible payloads for codecs); chunk phase: caps = {1, None, 1e9} + {v-1,v,v+1} for "
    "every reachable tell() value v of the program; resume phase: every per-batch token x {same warm, other cold, other "
    "warm, zero-cache cold} x {resume_stream+iter, resume_stream+next_with_token, init+seek_to_token} x caps {None,1} "
    "(thorough: resuming worker also with cap 1e9); route phase: all 2^T assignments of the T requests to two workers. "
    "One evaluation = one full client iteration (or one resume) judged against the program-derived expectation; "
    "non-trivial class = (phase, codec, multi-turn?, multi-batch-turn?, resume mode)"
)
TECHNIQUE = "bounded exhaustive enumeration of producer programs x caps at every framing boundary x codecs x resume points x worker routings against a spec-derived reference sequence; wire bodies parsed message by message"
LEVEL_TEXT = (
    "Every (program, method, codec, cap) with the cap placed on, just below and just above every byte offset at which the "
    "server's continue/stop decision can flip, every per-batch resume token on warm/cold same/other workers, and every "
    "routing of the turns over two workers is executed through the real server and client and compared with the batch "
    "sequence derived from the program. Exploration level: a finite input/configuration grammar, sequential."
)
LEVEL_NOTE = (
    "Workers are in-process WSGI apps (falcon TestClient), so real sockets/HTTP servers are not involved; payload sizes "
    "are three classes + two extras, row count is 1 (or 0); identity of the caller is fixed (anonymous)."
)
ASSUMPTIONS = [
    "in-process WSGI workers (make_sync_client) behave like deployed workers for dispatch, token and cap logic",
    "the response codec is selected by the Accept-Encoding request header; the client decodes by Content-Encoding",
    "a stream header preceding the data stream in the init response is not counted against max_response_bytes",
]

BIG = 10**9
MULTI = "requires one data batch per response"
RUNAWAY = 12  # no program has more than 4 batches: a longer iteration is cut (and then differs from the expectation)
DECOY = {"steps": [[33, 0, 0], [34, 0, 0], [35, 0, 0], [36, 0, 0], [37, 0, 0]], "noise": 0}


# ------------------------------------------------------------------------------------------ programs


def programs(ctx: Ctx) -> list[dict[str, Any]]:
    sizes = (8, 700, 3000)
    maxlen = 3 if ctx.quick else 4
    out: list[dict[str, Any]] = []
    for n in range(1, maxlen + 1):
        for combo in itertools.product(sizes, repeat=n):
            for logs in (0, 1):
                for fin in (0, 1):
                    if n == 4 and (logs != fin):
                        continue  # length-4 programs: two of the four log/finish variants
                    steps = [[s, logs, 0] for s in combo]
                    if fin:
                        steps[-1][2] = 1
                    out.append({"steps": steps})
    # fixed extras: zero-row data batches, a batch above the 64 KiB codec/read chunk, init logs, two logs per step
    out.append({"steps": [[-1, 0, 0], [8, 0, 0], [-1, 1, 0]]})
    out.append({"steps": [[8, 0, 0], [-1, 0, 1]]})
    out.append({"steps": [[70000, 0, 0], [8, 1, 0], [70000, 0, 0]]})
    out.append({"steps": [[700, 2, 0], [700, 2, 0]], "init_logs": 2})
    out.append({"steps": []})
    return out


def expected(spec: dict[str, Any]) -> list[Any]:
    """Batch sequence predicted from the program alone (the reference model)."""
    from vf.kit import c11_sized as Z

    exp = []
    for k, (n, _logs, fin) in enumerate(spec.get("steps", [])):
        p = Z.payload(k, n, spec.get("noise", 0))
        rows = 0 if n < 0 else 1
        exp.append([k, rows, len(p) if rows else 0, hashlib.sha256(p).hexdigest()[:16] if rows else "", {"k": str(k)}])
        if fin:
            break
    return exp


def expected_logs(spec: dict[str, Any]) -> list[str]:
    logs = [f"init{j}" for j in range(spec.get("init_logs", 0))]
    for k, (_n, nl, fin) in enumerate(spec.get("steps", [])):
        logs += [f"s{k}l{j}" for j in range(nl)]
        if fin:
            break
    return logs


def obs(ab: Any) -> list[Any]:
    from vf.kit.prog import user_meta

    b = ab.batch
    if b.num_rows == 0:
        return [int(user_meta(ab.custom_metadata).get("k", -1)), 0, 0, "", user_meta(ab.custom_metadata)]
    p = b.column("p")[0].as_py()
    return [b.column("k")[0].as_py(), b.num_rows, len(p), hashlib.sha256(p).hexdigest()[:16], user_meta(ab.custom_metadata)]


# ------------------------------------------------------------------------------------------ drivers

_WORKERS: dict[Any, Any] = {}


def worker(name: str, cap: Any, codec: str, fresh: bool = False, cache: int | None = None) -> Any:
    """A worker for (cap, codec); cached per configuration unless *fresh* (cold call-state cache needed)."""
    from vf.kit import c11_sized as Z

    key = (name, cap, codec, cache)
    if not fresh and key in _WORKERS:
        w = _WORKERS[key]
        del w.tap.log[:]
        return w
    kw: dict[str, Any] = {"max_response_bytes": cap, "compression_level": None if codec == "identity" else 1}
    if cache is not None:
        kw["call_state_cache_entries"] = cache
    w = Z.Worker(name, accept=None if codec == "identity" else codec, **kw)
    if not fresh:
        _WORKERS[key] = w
    return w


def call(proxy: Any, method: str, spec: dict[str, Any], hdr: int) -> Any:
    s = json.dumps(spec)
    if method == "produce_h":
        return proxy.produce_h(spec=s, hdr=hdr)
    return getattr(proxy, method)(spec=s)


def iterate(w_or_client: Any, method: str, spec: dict[str, Any], hdr: int, client: Any = None) -> tuple[list[Any], list[str], Any]:
    """Full iteration; returns (batches, log messages, header tag)."""
    from vf.kit import c11_sized as Z
    from vgi_rpc.http import http_connect

    logs: list[str] = []
    cm = (
        http_connect(Z.SizedSvc, client=client, on_log=lambda m: logs.append(m.message), compression_level=None)
        if client is not None
        else w_or_client.connect(on_log=lambda m: logs.append(m.message))
    )
    with cm as p:
        sess = call(p, method, spec, hdr)
        tag = None
        if method == "produce_h":
            h = sess.header
            tag = None if h is None else [h.tag, len(h.blob)]
        got = [obs(ab) for ab in itertools.islice(sess, RUNAWAY)]
    return got, logs, tag


def check_turns(ctx: Ctx, log: list[dict[str, Any]], cap: Any, codec: str, rep: Any) -> tuple[int, ...]:
    """Apply the overshoot rule to every recorded turn; returns the partition (data batches per turn)."""
    from vf.kit import c11_sized as Z

    part = []
    for e in log:
        if e["status"] != 200:
            ctx.fail(f"turn-http-status:{e['status']}", f"turn {e['path']} answered HTTP {e['status']}", rep)
            part.append(-1)
            continue
        j = Z.judge_turn(e, cap)
        part.append(j["n"])
        ctx.extra["turns"] += 1
        ctx.extra["max_batches_in_turn"] = max(ctx.extra["max_batches_in_turn"], j["n"])
        ctx.extra["overshoot_checked"] += int(j["checked"])
        if j["violation"] is not None:
            ctx.fail(f"turn-overshoot:{j['violation'][0]}", j["violation"][1], rep)
    return tuple(part)


def cap_set(ctx: Ctx, method: str, spec: dict[str, Any], hdr: int) -> list[Any]:
    """1, None, BIG and v-1, v, v+1 for every reachable tell() value v (from an uncapped-per-turn reference run)."""
    from vf.kit import c11_sized as Z

    w = worker("ref", BIG, "identity")
    iterate(w, method, spec, hdr)
    vals: set[int] = set()
    for e in w.tap.log:
        t = Z.turn_cycles(e["body"])
        if not t["data"]:
            continue
        s0 = t["data"][0][0] - t["data_stream_start"]  # schema message bytes
        sizes = [end - start for start, end, _ in t["data"]]
        for i in range(len(sizes)):
            acc = s0
            for j in range(i, len(sizes)):
                acc += sizes[j]
                vals.add(acc)
    caps: set[int] = {1}
    for v in vals:
        caps.update({v - 1, v, v + 1})
    return [None, BIG] + sorted(c for c in caps if c >= 1)


# ------------------------------------------------------------------------------------------ phases


def run_chunk(ctx: Ctx, case: dict[str, Any], sample: bool = False) -> None:
    method, spec, hdr, cap, codec = case["method"], case["spec"], case["hdr"], case["cap"], case["codec"]
    exp = expected(spec)
    w = worker("A", cap, codec)
    try:
        got, logs, tag = iterate(w, method, spec, hdr)
    except Exception as e:  # noqa: BLE001
        ctx.fail(f"chunk:iteration-error:{type(e).__name__}:{codec}", f"iteration raised {e!r} for {case}", case)
        ctx.case(nontrivial=None, outcome=("exc", type(e).__name__))
        return
    part = check_turns(ctx, w.tap.log, cap, codec, case)
    if got != exp:
        capclass = "none" if cap is None else ("1" if cap == 1 else "n")
        ctx.fail(
            f"chunk:batches-differ:{method}:{codec}:cap={capclass}",
            f"iterated batches {summ(got)} != program sequence {summ(exp)} (turn partition {part}) for {brief(case)}",
            case,
        )
    if method == "produce_h" and tag != [hdr, hdr]:
        ctx.fail(f"chunk:header-differs:{codec}", f"header {tag} != {[hdr, hdr]} for {brief(case)}", case)
    if logs != expected_logs(spec):
        ctx.extra["log_divergences"] += 1
    nt = None
    if exp:
        nt = ("chunk", codec, method, len(part) > 2, max(part) > 1, cap is None)
    ctx.case(sample=brief(case) | {"turn_partition": list(part)} if sample else None, nontrivial=nt, outcome=("chunk", part, codec != "identity"))


def collect_tokens(w: Any, method: str, spec: dict[str, Any], hdr: int) -> tuple[list[Any], list[Any]]:
    with w.connect() as p:
        sess = call(p, method, spec, hdr)
        got, toks = [], []
        while len(got) < RUNAWAY:
            ab, tok = sess.next_with_token()
            if ab is None:
                break
            got.append(obs(ab))
            toks.append(tok)
    return got, toks


def decoy(w: Any) -> None:
    """Start (and abandon after one batch) an unrelated call-state stream on *w*: a warm worker has served others."""
    with w.connect() as p:
        list(itertools.islice(p.produce_cs(spec=json.dumps(DECOY)), 1))


def resume_once(w: Any, method: str, spec: dict[str, Any], hdr: int, tok: bytes, via: str) -> list[Any]:
    with w.connect() as p:
        if via == "seek":
            sess = call(p, method, spec, hdr)
            sess.seek_to_token(tok)
        else:
            sess = p.resume_stream(method, tok)
        if via == "nwt":
            out = []
            while len(out) < RUNAWAY:
                ab, _t = sess.next_with_token()
                if ab is None:
                    break
                out.append(obs(ab))
            return out
        return [obs(ab) for ab in itertools.islice(sess, RUNAWAY)]


def run_resume(ctx: Ctx, case: dict[str, Any], sample: bool = False) -> None:
    """One origin iteration + every token x worker mode x consumption."""
    method, spec, hdr, cap, codec, bcap = case["method"], case["spec"], case["hdr"], case["cap"], case["codec"], case["bcap"]
    exp = expected(spec)
    a = worker("A", cap, codec, fresh=True)
    try:
        got, toks = collect_tokens(a, method, spec, hdr)
    except Exception as e:  # noqa: BLE001
        if isinstance(e, RuntimeError) and MULTI in str(e):
            # documented limitation of next_with_token (a response carried several data batches); the overshoot that
            # caused it is judged by check_turns in the chunk phase
            ctx.extra["nwt_multi_refusals"] += 1
            ctx.case(outcome="nwt-multi-refused")
            return
        ctx.fail(f"resume:origin-error:{type(e).__name__}:{codec}", f"next_with_token loop raised {e!r} for {brief(case)}", case)
        ctx.case(outcome=("exc", type(e).__name__))
        return
    check_turns(ctx, a.tap.log, cap, codec, case)
    if got != exp:
        ctx.fail(f"resume:origin-batches-differ:{method}:{codec}", f"next_with_token batches {summ(got)} != {summ(exp)} for {brief(case)}", case)
    ctx.case(nontrivial=("origin", codec, method, cap) if exp else None, outcome=("origin", len(got), [t is None for t in toks].count(True)))
    only = case.get("only")
    for i, tok in enumerate(toks):
        if tok is None:
            continue
        rest = exp[i + 1 :]
        modes: list[tuple[str, Any]] = [("same-warm", a)]
        b = worker("B", bcap, codec, fresh=True)
        modes += [("other-cold", b), ("other-warm", b)]
        c = worker("C", bcap, codec, fresh=True, cache=0)
        modes += [("nocache-cold", c)]
        for mode, w in modes:
            vias = ("iter", "nwt", "seek") if mode != "other-cold" else ("iter",)
            if mode == "other-cold" and i % 3 == 1:
                vias = ("nwt",)
            if mode == "other-cold" and i % 3 == 2:
                vias = ("seek",)
            for via in vias:
                if only and only != [i, mode, via]:
                    continue
                if via == "nwt" and bcap not in (None, 1):
                    continue  # a resuming worker that buffers several batches per turn refuses next_with_token by design
                try:
                    if mode.endswith("-warm"):
                        decoy(w)
                    r = resume_once(w, method, spec, hdr, tok, via)
                    err = None
                except Exception as e:  # noqa: BLE001
                    r, err = None, e
                if isinstance(err, RuntimeError) and MULTI in str(err):
                    ctx.extra["nwt_multi_refusals"] += 1
                    ctx.case(outcome="nwt-multi-refused")
                    continue
                rep = dict(case, only=[i, mode, via])
                if err is not None:
                    ctx.fail(
                        f"resume:error:{mode}:{via}:{type(err).__name__}",
                        f"resuming after batch {i} ({mode}, via {via}) raised {err!r} for {brief(case)}",
                        rep,
                    )
                elif r != rest:
                    ctx.fail(
                        f"resume:batches-differ:{mode}:{via}",
                        f"resuming after batch {i} ({mode}, via {via}) gave {summ(r)} != remaining {summ(rest)} for {brief(case)}",
                        rep,
                    )
                ctx.case(
                    sample=(brief(case) | {"resume_after": i, "mode": mode, "via": via, "remaining": len(rest)}) if sample and i == 0 and via == "iter" else None,
                    nontrivial=("resume", mode, via, codec, method, bool(rest)),
                    outcome=("resume", len(rest), err is None and r == rest),
                )
                ctx.extra["resumes"] += 1


def run_route(ctx: Ctx, case: dict[str, Any], sample: bool = False) -> None:
    from vf.kit import c11_sized as Z

    method, spec, hdr, cap, codec, sched = case["method"], case["spec"], case["hdr"], case["cap"], case["codec"], case["schedule"]
    exp = expected(spec)
    ws = [worker("A", cap, codec, fresh=True), worker("B", cap, codec, fresh=True)]
    router = Z.Router(ws, sched)
    try:
        got, _logs, _tag = iterate(None, method, spec, hdr, client=router)
    except Exception as e:  # noqa: BLE001
        ctx.fail(f"route:iteration-error:{type(e).__name__}", f"routing {sched} raised {e!r} for {brief(case)}", case)
        ctx.case(outcome=("exc", type(e).__name__))
        return
    for w in ws:
        check_turns(ctx, w.tap.log, cap, codec, case)
    if got != exp:
        ctx.fail(
            f"route:batches-differ:{method}:{codec}",
            f"routing {router.routed} gave {summ(got)} != {summ(exp)} for {brief(case)}",
            case,
        )
    switches = sum(1 for x, y in zip(router.routed, router.routed[1:]) if x != y)
    ctx.case(
        sample=(brief(case) | {"routed": router.routed}) if sample else None,
        nontrivial=("route", codec, method, min(switches, 3), cap is None) if exp else None,
        outcome=("route", tuple(router.routed)),
    )
    ctx.extra["routings"] += 1


# ------------------------------------------------------------------------------------------ helpers


def summ(bs: Any) -> Any:
    return None if bs is None else [(b[0], b[2]) for b in bs]


def brief(case: dict[str, Any]) -> dict[str, Any]:
    return {k: v for k, v in case.items() if k != "only"}


def n_requests(spec: dict[str, Any], cap: Any) -> int:
    """Upper bound on the number of POSTs of one iteration (cap None / 1: one cycle per turn)."""
    steps = spec.get("steps", [])
    fin_same = bool(steps) and bool(steps[-1][2])
    return max(1, len(steps) + (0 if fin_same else 1))


def run(ctx: Ctx) -> None:
    ctx.extra.update({"turns": 0, "max_batches_in_turn": 0, "overshoot_checked": 0, "log_divergences": 0, "resumes": 0,
                      "routings": 0, "programs": 0, "max_caps_per_program": 0, "nwt_multi_refusals": 0})
    progs = programs(ctx)
    codecs = ("identity", "zstd", "gzip")
    n_samples = 0
    for pi, base in enumerate(progs):
        nsteps = len(base["steps"])
        methods = [("produce", 0)]
        if nsteps <= 2 or pi % 5 == 0:
            methods.append(("produce_cs", 0))
        if nsteps <= 2 or pi % 7 == 0:
            methods.append(("produce_h", 2000 if pi % 2 else 8))
        for method, hdr in methods:
            # ---- chunk phase: one top-level item per (program, method)
            if ctx.mine():
                ctx.extra["programs"] += 1
                for codec in codecs:
                    spec = dict(base, noise=0 if codec == "identity" else 1)
                    caps = cap_set(ctx, method, spec, hdr)
                    if codec != "identity" and nsteps >= 3 and ctx.quick:
                        caps = caps[:2] + caps[2::3]  # codecs: every third boundary cap on long programs in the quick tier
                    ctx.extra["max_caps_per_program"] = max(ctx.extra["max_caps_per_program"], len(caps))
                    for cap in caps:
                        case = {"phase": "chunk", "method": method, "spec": spec, "hdr": hdr, "cap": cap, "codec": codec}
                        s = n_samples < 2 and cap not in (None, BIG, 1) and nsteps >= 2
                        n_samples += int(s)
                        run_chunk(ctx, case, sample=s)
            # ---- resume phase
            if ctx.mine():
                if nsteps <= (2 if ctx.quick else 3) or pi % 6 == 0:
                    for codec in codecs:
                        spec = dict(base, noise=0 if codec == "identity" else 1)
                        for cap in (None, 1):
                            if ctx.quick and codec != "identity" and cap == 1:
                                continue
                            bcaps = (cap,) if ctx.quick else (cap, BIG)
                            for bcap in bcaps:
                                case = {"phase": "resume", "method": method, "spec": spec, "hdr": hdr, "cap": cap, "codec": codec, "bcap": bcap}
                                run_resume(ctx, case, sample=(pi % 40 == 3 and codec == "identity" and cap is None))
            # ---- route phase
            if ctx.mine():
                if nsteps <= 3 and (nsteps <= 2 or pi % 4 == 0 or ctx.thorough):
                    for codec in (("identity",) if ctx.quick else ("identity", "zstd")):
                        spec = dict(base, noise=0 if codec == "identity" else 1)
                        for cap in (None, 1) if ctx.quick else (None, 1, 1500):
                            t = n_requests(spec, cap)
                            for sched in itertools.product((0, 1), repeat=t):
                                case = {"phase": "route", "method": method, "spec": spec, "hdr": hdr, "cap": cap, "codec": codec, "schedule": list(sched)}
                                run_route(ctx, case, sample=(pi % 50 == 7 and sched == (0, 1) * (t // 2) + (0,) * (t % 2) and cap is None))
    _WORKERS.clear()


def replay(ctx: Ctx, case: dict[str, Any]) -> None:
    ctx.extra.update({"turns": 0, "max_batches_in_turn": 0, "overshoot_checked": 0, "log_divergences": 0, "resumes": 0,
                      "routings": 0, "programs": 0, "max_caps_per_program": 0, "nwt_multi_refusals": 0})
    {"chunk": run_chunk, "resume": run_resume, "route": run_route}[case["phase"]](ctx, case)

"""C39 — Introspection is faithful and the protocol hash is a stable identity (E1: generated definitions x edits).

Service definitions are *data* (``vf/kit/c39_gen.py``): Protocol classes are rendered to Python source and executed,
a real ``RpcServer(enable_describe=True)`` is built for each, and ``__describe__`` is called through the real client
functions ``introspect`` (in-memory pipe transport, real ``RpcServer.serve_one`` run inline) and ``http_introspect`` (real WSGI app).

Space: every base definition (all 1-method and half (quick) / all (thorough) 2-method services over 9 method
templates, plus 3-method services and 3 more templates in the thorough tier) and EVERY single-point edit of it from the edit grammar (rename protocol / method /
param / header field, retype every param / return / header field to every other type of the alphabet, nullability
flips, kind changes between unary / producer / exchange / raw-stream, header add / remove / class rename / field add /
reorder, return None<->value, param add at every position / remove / reorder, method add / remove / declaration
order, state class swap of the same kind, docstring edits, default add / change / remove, server_id, protocol_version).

Oracle (weakest reading):
  (a) fidelity: the ServiceDescription lists exactly the defined methods (a ``__describe__`` self-entry is tolerated)
      and for each: method_type, has_return, params / result / header schema (names, Arrow types per WIRE_PROTOCOL
      section 4, nullability = Optional-ness; nullability of a non-Optional dataclass *result* is not asserted),
      has_header, is_exchange; protocol_name, server_id, protocol_version, and protocol_hash == server.protocol_hash
      (64 lowercase hex); identical over both transports;
  (b) ``__describe__`` answers (with the same content) on a server that enforces a protocol_version, both without a
      version key and with a mismatching one, while an ordinary method is refused with ProtocolVersionError under the
      same mismatch (this proves the gate was active);
  (c) hash(edit) == hash(base) for the edits the statement lists as irrelevant (docstrings, defaults, server id);
      hash(edit) != hash(base) whenever the reference wire description (canon) of the edit differs from the base's;
      edits that leave the reference description equal but are not listed (same-kind state class swap, header class
      rename, list->frozenset, enum swap, declaration order, protocol_version) are recorded, not asserted;
  (d) all definitions of the shard hashed in two fresh interpreters with PYTHONHASHSEED 1 and 4242 give the same
      hashes as in-process (PYTHONHASHSEED=0);
  (e) over all definitions seen by a shard: equal hash implies equal reference description.
"""

from __future__ import annotations

import io
import json
import logging
import os
import re
import subprocess
import sys
from io import BytesIO
from typing import Any

from vf.core.runner import Ctx, HarnessError
from vf.kit import c39_gen as G

PROPERTY = "C39"
LEVEL = "exploration"
ENGINE = "E1-SEQ"
SHARDS = {"quick": 8, "thorough": 16}
RULE = (
    "base definitions = all 1-method and half (quick) / all (thorough) 2-method services over 9 / 12 method templates (+ selected 3-method "
    "services in thorough) x every single-point edit of the edit grammar (types alphabet 7 quick / 12 thorough); one "
    "evaluation = one (base, edit) pair with a real RpcServer built for the edited definition, its hash compared with "
    "the base, introspected over mem + HTTP, and re-hashed in 2 fresh interpreters; non-trivial = edit kind actually "
    "applied and server built"
)
TECHNIQUE = "exhaustive single-point-edit enumeration of generated Protocol classes, reference description from the wire spec, differential across transports and interpreters"
LEVEL_TEXT = (
    "Every definition of the stated finite grammar and every single-point edit of it is built and described by the real "
    "server; the hash is compared under each edit and across fresh processes. Exhaustive within the grammar, which is "
    "the right level because the property quantifies over definitions and edits, not over fixed fixtures."
)
LEVEL_NOTE = (
    "Bounded by the template set, 1-3 methods, the type alphabet and single-point edits (no edit pairs); the reference "
    "description uses the documented type mapping for the alphabet only; cross-process = fresh CPython interpreters on "
    "the same machine and pyarrow build."
)
ASSUMPTIONS = [
    "a detail is wire-relevant iff it changes the reference description built from WIRE_PROTOCOL.md sections 4 and 14 (method set, kinds, schemas, header, exchange flag, protocol name)",
    "same pyarrow build in all compared interpreters (the documents state the hash is not a cross-Arrow-implementation contract)",
]

HEX64 = re.compile(r"^[0-9a-f]{64}$")
ARROW_CT = "application/vnd.apache.arrow.stream"


def _quiet() -> None:
    lg = logging.getLogger("vgi_rpc")
    if not any(isinstance(h, logging.NullHandler) for h in lg.handlers):
        lg.addHandler(logging.NullHandler())
    lg.propagate = False
    lg.setLevel(logging.CRITICAL)


# ------------------------------------------------------------------------------ fidelity


def _cmp_fields(got: Any, exp: list[list[Any]] | None, what: str, loose_null: bool = False) -> str | None:
    if exp is None:
        return None if got is None else f"{what}: expected no schema, got {got}"
    if got is None:
        return f"{what}: schema missing, expected {exp}"
    if len(got) != len(exp):
        return f"{what}: {len(got)} fields {got.names}, expected {[e[0] for e in exp]}"
    for f, (n, t, o) in zip(got, exp):
        if f.name != n:
            return f"{what}: field {f.name!r}, expected {n!r}"
        if not f.type.equals(G.arrow_type(t)):
            return f"[{t}{'?' if o else ''}] {what}: field {n!r} has type {f.type}, expected {G.arrow_type(t)}"
        if f.nullable != o and not (loose_null and t == "point" and not o):
            return f"{what}: field {n!r} nullable={f.nullable}, expected {o}"
    return None


def fidelity(d: dict[str, Any], desc: Any, server_hash: str) -> list[tuple[str, str]]:
    """Differences between the ServiceDescription and the reference description: [(aspect, text)]."""
    ref = G.reference(d)
    out: list[tuple[str, str]] = []
    got_names = set(desc.methods) - {"__describe__"}
    if got_names != set(ref["methods"]):
        out.append(("method-set", f"methods {sorted(got_names)} expected {sorted(ref['methods'])}"))
    for name, r in ref["methods"].items():
        m = desc.methods.get(name)
        if m is None:
            continue
        if m.name != name:
            out.append(("name", f"{name}: name field {m.name!r}"))
        if m.method_type.value != r["method_type"]:
            out.append(("method_type", f"{name}: method_type {m.method_type.value} expected {r['method_type']}"))
        if m.has_return != r["has_return"]:
            out.append(("has_return", f"{name}: has_return {m.has_return} expected {r['has_return']}"))
        if m.has_header != r["has_header"]:
            out.append(("has_header", f"{name}: has_header {m.has_header} expected {r['has_header']}"))
        if m.is_exchange != r["is_exchange"]:
            out.append(("is_exchange", f"{name}: is_exchange {m.is_exchange} expected {r['is_exchange']}"))
        for aspect, got, exp, loose in (
            ("params_schema", m.params_schema, r["params"], False),
            ("result_schema", m.result_schema, r["result"], True),
            ("header_schema", m.header_schema, r["header"], False),
        ):
            e = _cmp_fields(got, exp, f"{name}.{aspect}", loose)
            if e:
                # the finding key names the declared type when the Arrow type is what differs
                out.append((aspect + (":" + e[1 : e.index("]")] if e.startswith("[") else ""), e))
    if desc.protocol_name != d["name"]:
        out.append(("protocol_name", f"protocol_name {desc.protocol_name!r} expected {d['name']!r}"))
    if desc.server_id != d["server_id"]:
        out.append(("server_id", f"server_id {desc.server_id!r} expected {d['server_id']!r}"))
    if desc.protocol_version != (d.get("version") or ""):
        out.append(("protocol_version", f"protocol_version {desc.protocol_version!r} expected {d.get('version')!r}"))
    if desc.protocol_hash != server_hash or not HEX64.match(desc.protocol_hash):
        out.append(("protocol_hash", f"described hash {desc.protocol_hash!r} vs server.protocol_hash {server_hash!r}"))
    if desc.request_version != "1" or not desc.describe_version:
        out.append(("versions", f"request_version {desc.request_version!r} describe_version {desc.describe_version!r}"))
    return out


# ------------------------------------------------------------------------------ raw requests (version gate)


def _request_bytes(method: str, version: bytes | None) -> bytes:
    import pyarrow as pa

    from vgi_rpc.metadata import PROTOCOL_VERSION_KEY, REQUEST_VERSION, REQUEST_VERSION_KEY, RPC_METHOD_KEY
    from vgi_rpc.utils import new_ipc_stream

    md = {RPC_METHOD_KEY: method.encode(), REQUEST_VERSION_KEY: REQUEST_VERSION}
    if version is not None:
        md[PROTOCOL_VERSION_KEY] = version
    buf = BytesIO()
    sch = pa.schema([])
    with new_ipc_stream(buf, sch) as w:
        w.write_batch(pa.RecordBatch.from_pydict({}, schema=sch), custom_metadata=pa.KeyValueMetadata(md))
    return buf.getvalue()


def _read_response(stream: Any) -> Any:
    """("ok", ServiceDescription-or-batch) | ("error", error_type)."""
    from pyarrow import ipc

    from vgi_rpc.introspect import parse_describe_batch
    from vgi_rpc.rpc import RpcError, _dispatch_log_or_error, _drain_stream
    from vgi_rpc.utils import IpcValidation, ValidatedReader

    reader = ValidatedReader(ipc.open_stream(stream), IpcValidation.FULL)
    try:
        while True:
            batch, cm = reader.read_next_batch_with_custom_metadata()
            if not _dispatch_log_or_error(batch, cm):
                break
    except RpcError as e:
        _drain_stream(reader)
        return ("error", e.error_type)
    _drain_stream(reader)
    if "name" in batch.schema.names:
        return ("ok", parse_describe_batch(batch, cm))
    return ("ok", None)


def raw_mem(ct: Any, method: str, version: bytes | None) -> Any:
    try:
        ct.writer.write(_request_bytes(method, version))
        ct.writer.flush()
        return _read_response(ct.reader)
    except Exception as e:  # noqa: BLE001 - a broken reply is an outcome to judge, not a harness failure
        return ("broken", type(e).__name__)


def raw_http(client: Any, method: str, version: bytes | None, stream: bool = False) -> Any:
    resp = client.post(f"/{method}" + ("/init" if stream else ""), content=_request_bytes(method, version), headers={"Content-Type": ARROW_CT})
    try:
        r = _read_response(BytesIO(resp.content))
    except Exception as e:  # noqa: BLE001
        return ("http", resp.status_code, type(e).__name__)
    return r + (resp.status_code,)


# ------------------------------------------------------------------------------ inline pipe transport


class _Q(io.RawIOBase):
    """Byte queue end: reads are exact or short-at-EOF (never block); ``before_read`` runs the peer inline."""

    def __init__(self, buf: bytearray, before_read: Any = None) -> None:
        super().__init__()
        self.buf = buf
        self.before_read = before_read

    def readable(self) -> bool:
        return True

    def writable(self) -> bool:
        return True

    def read(self, n: int = -1) -> bytes:
        if self.before_read is not None:
            self.before_read()
        if n is None or n < 0:
            n = len(self.buf)
        out = bytes(self.buf[:n])
        del self.buf[:n]
        return out

    def readinto(self, b: Any) -> int:
        mv = memoryview(b).cast("B")
        data = self.read(len(mv))
        mv[: len(data)] = data
        return len(data)

    def write(self, b: Any) -> int:
        data = bytes(b)
        self.buf += data
        return len(data)


class InlinePipe:
    """Client-side RpcTransport over two byte queues; the real ``RpcServer.serve_one`` runs synchronously, once per
    request, at the client's first read after it wrote (no thread, fully deterministic)."""

    def __init__(self, server: Any) -> None:
        self.server = server
        self.c2s = bytearray()
        self.s2c = bytearray()
        self.armed = False
        outer = self

        class _Srv:
            reader = _Q(self.c2s)
            writer = _Q(self.s2c)

            def close(self) -> None:
                return None

        self._srv = _Srv()
        self._w = _Q(self.c2s)
        self._r = _Q(self.s2c, before_read=self._pump)
        w_write = self._w.write

        def write(b: Any) -> int:
            outer.armed = True
            return w_write(b)

        self._w.write = write  # type: ignore[method-assign]

    def _pump(self) -> None:
        if self.armed:
            self.armed = False
            self.server.serve_one(self._srv)

    @property
    def reader(self) -> Any:
        return self._r

    @property
    def writer(self) -> Any:
        return self._w

    def close(self) -> None:
        return None


# ------------------------------------------------------------------------------ one definition


class Built:
    def __init__(self, d: dict[str, Any]) -> None:
        self.d = d
        self.server = G.make_server(d)
        self.hash = self.server.protocol_hash
        self.canon = G.canon(d)


def describe_both(ctx: Ctx, b: Built, rep: Any, tag: str) -> None:
    """Fidelity over mem + http, and the version-gate clause when the definition declares a version."""
    from vgi_rpc.http import http_introspect
    from vgi_rpc.http._testing import make_sync_client
    from vgi_rpc.introspect import introspect

    d = b.d
    descs: dict[str, Any] = {}
    ct = InlinePipe(b.server)
    client = make_sync_client(
        b.server, token_key=b"k" * 32, enable_landing_page=False, enable_describe_page=False, enable_not_found_page=False
    )
    try:
        for tr in ("mem", "http"):
            try:
                descs[tr] = introspect(ct) if tr == "mem" else http_introspect(client=client)
            except Exception as e:  # noqa: BLE001
                ctx.fail(f"describe-error:{tr}", f"introspection over {tr} raised {e!r} for {tag}", rep)
                continue
            for aspect, text in fidelity(d, descs[tr], b.hash):
                ctx.fail(f"fidelity:{aspect}", f"[{tr}] {text} ({tag})", rep)
        if len(descs) == 2 and descs["mem"] != descs["http"]:
            ctx.fail("fidelity:transport-divergence", f"mem and http descriptions differ for {tag}", rep)
        if d.get("version"):
            ctx.extra["version_gate_cases"] += 1
            target = d["methods"][0]["name"]
            tstream = d["methods"][0]["kind"] != "unary"
            for tr in ("mem", "http"):
                call = (lambda m, v, s=False: raw_mem(ct, m, v)) if tr == "mem" else (lambda m, v, s=False: raw_http(client, m, v, s))
                for vlabel, v in (("absent", None), ("mismatch", b"9.9.9"), ("malformed", b"not-a-version")):
                    r = call("__describe__", v)
                    if r[0] != "ok" or r[1] is None:
                        ctx.fail(f"describe-gated:{vlabel}", f"[{tr}] __describe__ with {vlabel} protocol_version answered {r!r} ({tag})", rep)
                    else:
                        for aspect, text in fidelity(d, r[1], b.hash):
                            ctx.fail(f"fidelity:{aspect}", f"[{tr}, version {vlabel}] {text} ({tag})", rep)
                    g = call(target, v, tstream)
                    if g[0] == "error" and g[1] == "ProtocolVersionError":
                        ctx.extra["gate_refusals"] += 1
                    else:
                        # not a C39 violation (C09 owns the gate) but then clause (b) proved nothing: say so loudly
                        ctx.fail(f"gate-inactive:{vlabel}", f"[{tr}] ordinary method under {vlabel} version answered {g!r}, gate not active ({tag})", rep)
    finally:
        ct.close()


def eval_base(ctx: Ctx, base: dict[str, Any], types: list[str], seen: list[tuple[dict[str, Any], str, str]]) -> None:
    try:
        b = Built(base)
    except Exception as e:  # noqa: BLE001
        raise HarnessError(f"base definition does not build: {e!r}\n{G.render(base)}") from e
    describe_both(ctx, b, {"base": base, "edit": None}, "base")
    seen.append((base, b.hash, b.canon))
    ctx.case(nontrivial="base", outcome=("base", len(base["methods"])), sample={"base": base, "hash": b.hash} if ctx.evaluations == 0 else None)
    for idx, (kind, listed, e) in enumerate(G.edits(base, types)):
        rep = {"base": base, "edit": [kind, idx]}
        try:
            eb = Built(e)
        except Exception as ex:  # noqa: BLE001
            raise HarnessError(f"edited definition ({kind}) does not build: {ex!r}\n{G.render(e)}") from ex
        seen.append((e, eb.hash, eb.canon))
        same_desc = eb.canon == b.canon
        same_hash = eb.hash == b.hash
        tag = f"edit {kind}#{idx} of base {[m['kind'] for m in base['methods']]}"
        if listed:
            if not same_desc:
                raise HarnessError(f"generator bug: listed-neutral edit {kind} changes the reference description")
            if not same_hash:
                ctx.fail(f"hash-unstable:{kind}", f"hash changed under a {kind} edit: {b.hash[:12]} -> {eb.hash[:12]} ({tag})", rep)
        elif not same_desc:
            if same_hash:
                ctx.fail(f"hash-insensitive:{kind}", f"wire-relevant edit {kind} left the hash unchanged {b.hash[:12]} ({tag})", rep)
        else:
            ctx.extra["unasserted_" + ("equal" if same_hash else "differ")] += 1
        describe_both(ctx, eb, rep, tag)
        ctx.case(
            nontrivial=kind,
            outcome=(kind, same_desc, same_hash),
            sample={"edit": kind, "base_methods": [m["kind"] for m in base["methods"]], "same_desc": same_desc, "same_hash": same_hash}
            if idx in (7, 40) and len(ctx.samples) < 5
            else None,
        )


def cross_process(ctx: Ctx, seen: list[tuple[dict[str, Any], str, str]]) -> None:
    if not seen:
        return
    defs = [d for d, _, _ in seen]
    payload = json.dumps(defs)
    here = os.path.dirname(os.path.dirname(os.path.dirname(os.path.abspath(__file__))))
    procs = []
    for seed in ("1", "4242"):
        env = dict(os.environ, PYTHONHASHSEED=seed, PYTHONPATH=here)
        env.setdefault("VERIF_REPO", "/repo")
        # different working directory as well
        p = subprocess.Popen(
            [sys.executable, "-m", "vf.kit.c39_gen"], stdin=subprocess.PIPE, stdout=subprocess.PIPE, stderr=subprocess.PIPE,
            env=env, cwd="/" if seed == "1" else here,
        )
        procs.append((seed, p))
    import threading

    results: dict[str, tuple[bytes, bytes]] = {}

    def feed(seed: str, p: Any) -> None:
        results[seed] = p.communicate(payload.encode())

    ths = [threading.Thread(target=feed, args=sp) for sp in procs]
    for t in ths:
        t.start()
    for t in ths:
        t.join()
    for seed, p in procs:
        out, err = results[seed]
        if p.returncode != 0:
            raise HarnessError(f"hash subprocess (seed {seed}) failed: {err.decode()[-800:]}")
        res = json.loads(out)
        if res["hashseed"] != seed or len(res["hashes"]) != len(defs):
            raise HarnessError("hash subprocess returned a malformed answer")
        for (d, hsh, _), other in zip(seen, res["hashes"]):
            ctx.extra["cross_process_comparisons"] += 1
            if other != hsh:
                kinds = [m["kind"] for m in d["methods"]]
                ctx.fail(
                    "hash-cross-process",
                    f"hash differs in a fresh interpreter with PYTHONHASHSEED={seed}: {hsh[:16]} vs {other[:40]} for methods {kinds}",
                    {"base": d, "edit": None, "seed": seed},
                )


def run(ctx: Ctx) -> None:
    _quiet()
    ctx.extra.update(
        {"bases": 0, "definitions": 0, "version_gate_cases": 0, "gate_refusals": 0, "unasserted_equal": 0,
         "unasserted_differ": 0, "cross_process_comparisons": 0, "distinct_hashes": 0}
    )
    types = G.TYPES_QUICK if ctx.quick else G.TYPES_THOROUGH
    seen: list[tuple[dict[str, Any], str, str]] = []
    for base in G.bases(ctx.thorough):
        if not ctx.mine():
            continue
        ctx.extra["bases"] += 1
        eval_base(ctx, base, types, seen)
    ctx.extra["definitions"] = len(seen)
    # (e) equal hash => equal reference description, over everything this shard built
    by_hash: dict[str, tuple[str, dict[str, Any]]] = {}
    for d, hsh, canon in seen:
        prev = by_hash.get(hsh)
        if prev is None:
            by_hash[hsh] = (canon, d)
        elif prev[0] != canon:
            ctx.fail("hash-collision:cross-definition", f"two definitions with different wire descriptions share hash {hsh[:16]}", {"base": d, "edit": None, "other": prev[1]})
    ctx.extra["distinct_hashes"] = len(by_hash)
    cross_process(ctx, seen)


def replay(ctx: Ctx, case: dict[str, Any]) -> None:
    _quiet()
    ctx.extra.update(
        {"bases": 0, "definitions": 0, "version_gate_cases": 0, "gate_refusals": 0, "unasserted_equal": 0,
         "unasserted_differ": 0, "cross_process_comparisons": 0, "distinct_hashes": 0}
    )
    seen: list[tuple[dict[str, Any], str, str]] = []
    eval_base(ctx, case["base"], G.TYPES_THOROUGH if case.get("tier") == "thorough" else G.TYPES_QUICK, seen)
    if case.get("seed"):
        cross_process(ctx, seen[:1])

"""C40 — Capability headers advertise exactly the configuration (E1: exhaustive configuration x route enumeration).

For every combination of the capability knobs of ``make_wsgi_app`` a real app is built (``make_sync_client``) and
probed on every route kind; every response must carry exactly the capability headers the configuration implies,
and ``http_capabilities()`` (the real client probe, driven through the in-process client without credentials) must
read the same configuration back.

Reference (written from docs/WIRE_PROTOCOL.md "Capability discovery" table, not from the factory):

  VGI-Max-Request-Bytes / VGI-Max-Response-Bytes / VGI-Max-Externalized-Response-Bytes   integer, iff configured
  VGI-Externalization-Enabled        always, "true" iff a storage backend is wired up, else "false"
  VGI-Supported-Encodings            always; the codec tokens the server produces (zstd if importable and not
                                     disabled by VGI_HTTP_DISABLE_ZSTD, gzip), present-but-empty when compression is off
  VGI-Upload-URL-Support             "true" iff an upload-URL provider is set
  VGI-Max-Upload-Bytes               integer, iff provider set AND max_upload_bytes set
  VGI-Proxy-Proof-Required           "true" iff proxy_proof_required
  VGI-Sticky-Enabled                 "true" iff enable_sticky
  VGI-Sticky-Default-TTL             integer seconds, iff enable_sticky
  VGI-Sticky-Echo-Headers            comma-separated names, iff enable_sticky and a non-empty echo mapping
  VGI-Token-Introspection            "true" iff an introspection resolver is configured

Weakest reading: header names are compared case-insensitively; list-valued headers are compared as token
sequences ignoring whitespace (encodings as a set); a boolean flag that is off may be absent or carry "false";
a fractional sticky TTL may be advertised truncated or rounded (the doc says "integer seconds").  Not compared:
any non-capability header, bodies, status codes (the status only names the route kind that was reached).
"""

from __future__ import annotations

import datetime
import itertools
import json
import logging
import os
from typing import Any

from vf.core.runner import Ctx

PROPERTY = "C40"
LEVEL = "exploration"
ENGINE = "E1-SEQ"
SHARDS = {"quick": 8, "thorough": 16}
TECHNIQUE = "exhaustive enumeration of server configurations x route kinds against the real WSGI app and the real client probe"
RULE = (
    "quick: all 3*2^10 combinations (storage three-valued, the rest on/off) of {max_request_bytes, max_response_bytes, max_externalized_response_bytes, "
    "storage, upload provider, max_upload_bytes, compression, sticky, echo headers, proof-required, introspection} with "
    "authentication on, plus the 2^11 on/off grid with authentication off, x 31 route kinds + the http_capabilities() read-back; thorough: the product of the "
    "multi-valued knobs (numeric knobs on/off x two joint value sets, storage {none, config-without-storage, storage}, "
    "compression {1, 3, off, zstd-disabled}, sticky {off, ttl 300, 90.5} x echo {none, empty, one, two names}) with auth on, plus "
    "the 2^11 grid with auth off, under prefix '/api' with auth off, and under prefix '/api' with CORS on and the optional pages/health "
    "endpoint disabled; one evaluation = one response (or one read-back) judged; non-trivial = response of a distinct "
    "(route kind, status) reached with at least one optional capability configured"
)
LEVEL_TEXT = (
    "Every configuration of the stated grid is instantiated with the real make_wsgi_app and every route kind is "
    "requested through Falcon's full middleware stack; the header set of each response and the client's parsed "
    "HttpServerCapabilities are compared with a reference table written from the wire specification. The space is a "
    "finite product, so enumeration decides it within the grid."
)
LEVEL_NOTE = (
    "In-process WSGI (falcon.testing) instead of a socket server; OAuth/PKCE routes, OpenTelemetry/Sentry middleware "
    "and responses produced by a reverse proxy are outside the grid. Numeric knobs take two representative values."
)
ASSUMPTIONS = [
    "falcon.testing.TestClient delivers the same headers a WSGI server would put on the wire",
    "importlib.metadata.version is memoised during the run (pure speed-up of the landing-page builder)",
    "the capability header family is the 12 names of the WIRE_PROTOCOL.md capability table",
]

CAP_NAMES = [
    "vgi-max-request-bytes",
    "vgi-max-response-bytes",
    "vgi-max-externalized-response-bytes",
    "vgi-externalization-enabled",
    "vgi-supported-encodings",
    "vgi-upload-url-support",
    "vgi-max-upload-bytes",
    "vgi-proxy-proof-required",
    "vgi-sticky-enabled",
    "vgi-sticky-default-ttl",
    "vgi-sticky-echo-headers",
    "vgi-token-introspection",
]
FLAGS = {"vgi-upload-url-support", "vgi-proxy-proof-required", "vgi-sticky-enabled", "vgi-token-introspection"}
ARROW = "application/vnd.apache.arrow.stream"
KEY = b"k" * 32

# knob -> values; first value = "off"
KNOBS_Q: dict[str, list[Any]] = {
    "mrb": [None, 4096],
    "mresp": [None, 1_000_000],
    "mext": [None, 5_000_000],
    "storage": ["none", "config-only", "storage"],
    "upload": [False, True],
    "mup": [None, 777],
    "comp": [None, 1],
    "sticky": [None, 300.0],
    "echo": ["none", "two"],
    "proof": [False, True],
    "introspect": [False, True],
}
#: thorough: second numeric value set (switched jointly), three-valued storage, four compression modes, TTL/echo forms
NUM_B = {"mrb": 100_000, "mresp": 2_000_001, "mext": 123, "mup": 10**12}
ECHO = {"none": None, "empty": {}, "one": {"x-worker-affinity": "w1"}, "two": {"x-route-a": "1", "fly-force-instance-id": "m-17"}}


def binary_grid(storage: tuple[str, ...] = ("none", "storage")) -> Any:
    names = list(KNOBS_Q)
    for vals in itertools.product(*(KNOBS_Q[n] if n != "storage" else storage for n in names)):
        yield dict(zip(names, vals))


def grids(ctx: Ctx) -> Any:
    """Yield (variant, knobs-dict) in a deterministic order."""
    if ctx.quick:
        for k in binary_grid(("none", "config-only", "storage")):
            yield "auth", k
        for k in binary_grid():
            yield "noauth", k
        return
    # full product of the multi-valued knobs, minus combinations that only repeat an ignored sub-knob value
    sticky_echo = [(None, "none"), (None, "two")] + [(t, e) for t in (300.0, 90.5) for e in ("none", "empty", "one", "two")]
    for onoff in itertools.product((False, True), repeat=4):
        for numset in ("A", "B"):
            if numset == "B" and not any(onoff):
                continue
            nums = {}
            for name, on in zip(("mrb", "mresp", "mext", "mup"), onoff):
                nums[name] = None if not on else (KNOBS_Q[name][1] if numset == "A" else NUM_B[name])
            for storage, upload, comp, (sticky, echo), proof, introspect in itertools.product(
                ("none", "config-only", "storage"), (False, True), (None, 1, 3, "nozstd"), sticky_echo, (False, True), (False, True)
            ):
                yield "auth", {
                    "mrb": nums["mrb"], "mresp": nums["mresp"], "mext": nums["mext"], "storage": storage, "upload": upload,
                    "mup": nums["mup"], "comp": comp, "sticky": sticky, "echo": echo, "proof": proof, "introspect": introspect,
                }
    for variant in ("noauth", "api-noauth", "api-bare-cors"):
        for k in binary_grid():
            yield variant, k


# ----------------------------------------------------------------------------------------------------------------
# reference
# ----------------------------------------------------------------------------------------------------------------


def zstd_importable() -> bool:
    try:
        import zstandard  # noqa: F401
    except Exception:
        return False
    return True


def expected_headers(k: dict[str, Any]) -> dict[str, Any]:
    """name -> required value; value may be a str, ("int", n), ("ttl", x), ("set", {...}), ("list", [...])."""
    exp: dict[str, Any] = {}
    for name, knob in (("vgi-max-request-bytes", "mrb"), ("vgi-max-response-bytes", "mresp"), ("vgi-max-externalized-response-bytes", "mext")):
        if k[knob] is not None:
            exp[name] = ("int", k[knob])
    exp["vgi-externalization-enabled"] = "true" if k["storage"] == "storage" else "false"
    if k["comp"] is None:
        enc: set[str] = set()
    else:
        enc = {"gzip"}
        if zstd_importable() and k["comp"] != "nozstd":
            enc.add("zstd")
    exp["vgi-supported-encodings"] = ("set", enc)
    if k["upload"]:
        exp["vgi-upload-url-support"] = "true"
        if k["mup"] is not None:
            exp["vgi-max-upload-bytes"] = ("int", k["mup"])
    if k["proof"]:
        exp["vgi-proxy-proof-required"] = "true"
    if k["sticky"] is not None:
        exp["vgi-sticky-enabled"] = "true"
        exp["vgi-sticky-default-ttl"] = ("ttl", k["sticky"])
        names = ECHO[k["echo"]]
        if names:
            exp["vgi-sticky-echo-headers"] = ("list", [n.lower() for n in names])
    if k["introspect"]:
        exp["vgi-token-introspection"] = "true"
    return exp


def _tokens(v: str) -> list[str]:
    return [t.strip().lower() for t in v.split(",") if t.strip()]


def value_ok(want: Any, got: str) -> bool:
    if isinstance(want, str):
        return got.strip() == want
    kind, x = want
    if kind == "int":
        return got.strip() == str(x)
    if kind == "ttl":
        import math

        return got.strip() in {str(int(x)), str(math.floor(x)), str(math.ceil(x)), str(round(x))}
    if kind == "set":
        t = _tokens(got)
        return set(t) == x and len(t) == len(x)
    if kind == "list":
        return _tokens(got) == x
    raise AssertionError(kind)


def judge_headers(k: dict[str, Any], headers: dict[str, str]) -> list[tuple[str, str]]:
    """-> list of (finding-kind, header) for one response."""
    exp = expected_headers(k)
    low = {kk.lower(): v for kk, v in headers.items()}
    bad: list[tuple[str, str]] = []
    for name in CAP_NAMES:
        got = low.get(name)
        if name in exp:
            if got is None:
                bad.append(("missing", name))
            elif not value_ok(exp[name], got):
                bad.append(("wrong-value", name))
        elif got is not None:
            if name in FLAGS and got.strip() == "false":
                continue
            bad.append(("unexpected", name))
    return bad


# ----------------------------------------------------------------------------------------------------------------
# fixtures
# ----------------------------------------------------------------------------------------------------------------

_FX: dict[str, Any] = {}


class _Recorder:
    def __init__(self, inner: Any) -> None:
        self.inner = inner
        self.prefix = inner.prefix
        self.log: list[tuple[str, bytes]] = []

    def post(self, url: str, *, content: bytes, headers: dict[str, str]) -> Any:
        self.log.append((url, bytes(content)))
        return self.inner.post(url, content=content, headers=headers)

    def __getattr__(self, n: str) -> Any:
        return getattr(self.inner, n)


class _Provider:
    def generate_upload_url(self, schema: Any) -> Any:
        from vgi_rpc.external import UploadUrl

        return UploadUrl(
            upload_url="https://store.invalid/put/1",
            download_url="https://store.invalid/get/1",
            expires_at=datetime.datetime(2099, 1, 1, tzinfo=datetime.UTC),
        )


def _authenticate(req: Any) -> Any:
    from vgi_rpc.http._unauthorized import AuthUnavailableError
    from vgi_rpc.rpc import AuthContext

    if req.get_header("X-Test-Crash"):
        raise RuntimeError("authenticate bug")
    if req.get_header("X-Test-Down"):
        raise AuthUnavailableError("identity provider unreachable")
    if req.get_header("Authorization") == "Bearer good":
        return AuthContext(domain="test", authenticated=True, principal="alice", claims={})
    raise ValueError("bad credential")


def fixtures() -> dict[str, Any]:
    if _FX:
        return _FX
    from vgi_rpc.external import ExternalLocationConfig
    from vgi_rpc.http import http_connect
    from vgi_rpc.http._testing import make_sync_client
    from vgi_rpc.rpc import RpcError, RpcServer

    from vf.kit import prog
    from vf.kit.transports import MemStorage

    servers = {
        "none": RpcServer(prog.ScriptSvc, prog.ScriptImpl(), enable_describe=True),
        "config-only": RpcServer(prog.ScriptSvc, prog.ScriptImpl(), enable_describe=True, external_location=ExternalLocationConfig()),
        "storage": RpcServer(prog.ScriptSvc, prog.ScriptImpl(), enable_describe=True, external_location=ExternalLocationConfig(storage=MemStorage())),
    }
    rec = _Recorder(make_sync_client(servers["none"], token_key=KEY))
    with http_connect(prog.ScriptSvc, client=rec, compression_level=None) as px:
        assert px.echo(n=3) == 3
        try:
            px.unary(script=json.dumps({"acts": [["raise", "ValueError", "nope"]]}), x=1)
        except RpcError:
            pass
        px.produce(script=json.dumps({"steps": [[["emit", 2, None]], [["emit", 1, None]]]}))
    bodies = {u: b for u, b in rec.log}
    assert set(bodies) >= {"/echo", "/unary", "/produce/init"}, sorted(bodies)
    _FX.update(servers=servers, bodies=bodies)
    return _FX


def build(variant: str, k: dict[str, Any]) -> tuple[Any, str]:
    """Real app for (variant, knobs) -> (client, prefix)."""
    from vgi_rpc.http._testing import make_sync_client
    from vgi_rpc.http.server._introspect import TokenIdentity

    fx = fixtures()
    kw: dict[str, Any] = dict(
        token_key=KEY,
        max_request_bytes=k["mrb"],
        max_response_bytes=k["mresp"],
        max_externalized_response_bytes=k["mext"],
        upload_url_provider=_Provider() if k["upload"] else None,
        max_upload_bytes=k["mup"],
        compression_level=1 if k["comp"] == "nozstd" else k["comp"],
        enable_sticky=k["sticky"] is not None,
        sticky_echo_headers=ECHO[k["echo"]],
        proxy_proof_required=k["proof"],
    )
    if k["sticky"] is not None:
        kw["sticky_default_ttl"] = k["sticky"]
    if k["introspect"]:
        kw["introspect_resolver"] = lambda tok: TokenIdentity("bob")
        kw["introspect_principals"] = ["alice"]
    prefix = ""
    if variant == "auth":
        kw["authenticate"] = _authenticate
    elif variant == "api-noauth":
        prefix = "/api"
    elif variant == "api-bare-cors":
        prefix = "/api"
        kw["authenticate"] = _authenticate
        kw.update(enable_not_found_page=False, enable_landing_page=False, enable_describe_page=False, enable_health_endpoint=False)
    kw["prefix"] = prefix
    old = os.environ.get("VGI_HTTP_DISABLE_ZSTD")
    if k["comp"] == "nozstd":
        os.environ["VGI_HTTP_DISABLE_ZSTD"] = "1"
    else:
        os.environ.pop("VGI_HTTP_DISABLE_ZSTD", None)
    try:
        if variant == "api-bare-cors":
            # make_sync_client has no cors parameter: build the app with the factory and wrap it the same way
            from vgi_rpc.http._testing import _SyncTestClient
            from vgi_rpc.http.server import make_wsgi_app

            app = make_wsgi_app(fx["servers"][k["storage"]], cors_origins="*", **kw)
            client = _SyncTestClient(app, prefix=prefix)
        else:
            client = make_sync_client(fx["servers"][k["storage"]], **kw)
    finally:
        if old is None:
            os.environ.pop("VGI_HTTP_DISABLE_ZSTD", None)
        else:
            os.environ["VGI_HTTP_DISABLE_ZSTD"] = old
    return client, prefix


def requests_for(k: dict[str, Any], prefix: str) -> list[tuple[str, str, str, bytes | None, dict[str, str]]]:
    """(kind, verb, path, body, headers)."""
    b = fixtures()["bodies"]
    g = {"Authorization": "Bearer good"}
    ct = {"Content-Type": ARROW}
    big = b"x" * ((k["mrb"] or 4096) + 1)
    p = prefix
    return [
        ("health-get", "GET", f"{p}/health", None, {}),
        ("health-head", "HEAD", f"{p}/health", None, {}),
        ("health-options", "OPTIONS", f"{p}/health", None, {}),
        ("health-put", "PUT", f"{p}/health", b"", dict(g)),
        ("unary-ok", "POST", f"{p}/echo", b["/echo"], {**g, **ct}),
        ("unary-error", "POST", f"{p}/unary", b["/unary"], {**g, **ct}),
        ("no-credential", "POST", f"{p}/echo", b["/echo"], dict(ct)),
        ("bad-credential", "POST", f"{p}/echo", b["/echo"], {**ct, "Authorization": "Bearer nope"}),
        ("auth-crash", "POST", f"{p}/echo", b["/echo"], {**g, **ct, "X-Test-Crash": "1"}),
        ("auth-down", "POST", f"{p}/echo", b["/echo"], {**g, **ct, "X-Test-Down": "1"}),
        ("unknown-method", "POST", f"{p}/nosuch", b["/echo"], {**g, **ct}),
        ("sink", "GET", f"{p}/a/b/c/d", None, dict(g)),
        ("outside-prefix", "GET", "/zzz", None, dict(g)),
        ("bad-content-type", "POST", f"{p}/echo", b["/echo"], {**g, "Content-Type": "text/plain"}),
        ("bad-content-encoding", "POST", f"{p}/echo", b["/echo"], {**g, **ct, "Content-Encoding": "br"}),
        ("garbage-body", "POST", f"{p}/echo", b"garbage", {**g, **ct}),
        ("garbage-zstd", "POST", f"{p}/echo", b"garbage", {**g, **ct, "Content-Encoding": "zstd"}),
        ("garbage-gzip", "POST", f"{p}/echo", b"garbage", {**g, **ct, "Content-Encoding": "gzip"}),
        ("oversize", "POST", f"{p}/echo", big, {**g, **ct}),
        ("stream-init", "POST", f"{p}/produce/init", b["/produce/init"], {**g, **ct}),
        ("exchange-garbage", "POST", f"{p}/produce/exchange", b"zz", {**g, **ct}),
        ("landing", "GET", p or "/", None, dict(g)),
        ("landing-head", "HEAD", p or "/", None, dict(g)),
        ("describe-page", "GET", f"{p}/describe", None, dict(g)),
        ("introspect", "POST", f"{p}/__introspect_token__", b'{"token":"abc"}', {**g, "Content-Type": "application/json"}),
        ("session-delete", "DELETE", f"{p}/__session__", None, {**g, "VGI-Session": "junk"}),
        ("upload-url", "POST", f"{p}/__upload_url__/init", b"zz", {**g, **ct}),
        ("bad-session", "POST", f"{p}/echo", b["/echo"], {**g, **ct, "VGI-Session": "junk", "VGI-Session-Accept": "true"}),
        ("method-options", "OPTIONS", f"{p}/echo", None, {}),
        ("preflight", "OPTIONS", f"{p}/echo", None, {"Origin": "https://app.example", "Access-Control-Request-Method": "POST"}),
        ("well-known", "GET", "/.well-known/oauth-protected-resource", None, {}),
    ]


class _Sink:
    def write(self, s: str) -> int:
        return len(s)

    def writelines(self, lines: Any) -> None:
        pass

    def flush(self) -> None:
        pass


_SINK = _Sink()


def issue(client: Any, verb: str, path: str, body: bytes | None, headers: dict[str, str]) -> tuple[int, dict[str, str]]:
    tc = client._client
    kw: dict[str, Any] = {"headers": headers}
    if body is not None:
        kw["body"] = body
    r = tc.simulate_request(verb, path, wsgierrors=_SINK, **kw)
    return r.status_code, dict(r.headers)


def judge_readback(k: dict[str, Any], caps: Any) -> list[str]:
    """Compare the parsed HttpServerCapabilities with the configuration -> list of mismatching fields."""
    exp = expected_headers(k)
    bad = []

    def num(name: str) -> Any:
        w = exp.get(name)
        return None if w is None else w[1]

    if caps.max_request_bytes != num("vgi-max-request-bytes"):
        bad.append("max_request_bytes")
    if caps.max_response_bytes != num("vgi-max-response-bytes"):
        bad.append("max_response_bytes")
    if caps.max_externalized_response_bytes != num("vgi-max-externalized-response-bytes"):
        bad.append("max_externalized_response_bytes")
    if caps.externalization_enabled is not (k["storage"] == "storage"):
        bad.append("externalization_enabled")
    if caps.upload_url_support is not bool(k["upload"]):
        bad.append("upload_url_support")
    if caps.max_upload_bytes != num("vgi-max-upload-bytes"):
        bad.append("max_upload_bytes")
    got_enc = [getattr(e, "value", e) for e in caps.supported_encodings]
    if set(got_enc) != exp["vgi-supported-encodings"][1] or len(got_enc) != len(set(got_enc)):
        bad.append("supported_encodings")
    if caps.sticky_enabled is not (k["sticky"] is not None):
        bad.append("sticky_enabled")
    if k["sticky"] is None:
        if caps.sticky_default_ttl is not None:
            bad.append("sticky_default_ttl")
    else:
        import math

        if caps.sticky_default_ttl not in {int(k["sticky"]), math.ceil(k["sticky"]), round(k["sticky"])} and caps.sticky_default_ttl != k["sticky"]:
            bad.append("sticky_default_ttl")
    want_echo = exp.get("vgi-sticky-echo-headers")
    if [n.lower() for n in caps.sticky_echo_headers] != (want_echo[1] if want_echo else []):
        bad.append("sticky_echo_headers")
    return bad


def kclass(k: dict[str, Any]) -> str:
    """Which optional capabilities are on (values abstracted) — part of finding keys and the non-trivial key."""
    on = [n for n in KNOBS_Q if k[n] not in (None, False, "none", "config-only")]
    return "+".join(on) if on else "plain"


def evaluate(ctx: Ctx, variant: str, k: dict[str, Any]) -> None:
    from vgi_rpc.http import http_capabilities
    from vgi_rpc.http._testing import _SyncTestClient

    client, prefix = build(variant, k)
    optional_on = kclass(k) != "plain"
    n_expected = len(expected_headers(k))
    results: list[tuple[str, str, str, int, dict[str, str], list[tuple[str, str]]]] = []
    for kind, verb, path, body, headers in requests_for(k, prefix):
        status, hdrs = issue(client, verb, path, body, headers)
        caphdrs = {n: v for n, v in hdrs.items() if n.lower() in CAP_NAMES}
        bad = judge_headers(k, hdrs)
        results.append((kind, verb, path, status, caphdrs, bad))
        ctx.extra["responses"] += 1
        ctx.extra["cap_headers_checked"] += len(CAP_NAMES)
        sample = None
        if ctx.evaluations % 7919 == 0:
            sample = {"variant": variant, "knobs": k, "kind": kind, "status": status, "capability_headers": caphdrs}
        ctx.case(sample=sample, nontrivial=f"{kind}:{status}" if optional_on else None, outcome=(kind, status, tuple(sorted((n.lower(), v) for n, v in caphdrs.items()))))
    # finding keys: a defect visible on every route kind of this app is one key per header (a factory-level cause);
    # a response that lost the whole family is one key per route kind; anything else is keyed header x route kind
    for what, name in sorted({b for r in results for b in r[5]}):
        hit = [r for r in results if (what, name) in r[5]]
        everywhere = len(hit) == len(results)
        for kind, verb, path, status, caphdrs, bad in hit:
            if not everywhere and not caphdrs and len(bad) == n_expected:
                key = f"no-capability-headers:{kind}"
            elif everywhere:
                key = f"{what}:{name}"
            else:
                key = f"{what}:{name}:{kind}"
            ctx.fail(
                key,
                f"{verb} {path} ({kind}, HTTP {status}, variant {variant}) under configuration {k}: capability header {name} is {what}; "
                f"got {caphdrs}, reference {expected_headers(k)}",
                {"variant": variant, "knobs": k, "kind": kind},
            )
    if True:
        probe = _SyncTestClient(client._client.app, prefix=prefix)  # no credentials: discovery must be auth-exempt
        try:
            caps = http_capabilities(client=probe)
        except Exception as e:  # noqa: BLE001
            ctx.fail(f"readback:raised:{type(e).__name__}", f"http_capabilities() raised {e!r} under {k} (variant {variant})", {"variant": variant, "knobs": k, "kind": "readback"})
            ctx.case(nontrivial="readback:raised", outcome=("readback-exc", type(e).__name__))
            return
        bad_fields = judge_readback(k, caps)
        for f in bad_fields:
            ctx.fail(
                f"readback:{f}",
                f"http_capabilities() returned {caps} under configuration {k} (variant {variant}): field {f} does not match",
                {"variant": variant, "knobs": k, "kind": "readback"},
            )
        if caps.cache_expires_at is not None:
            ctx.extra["readbacks_with_cache_hint"] += 1
        ctx.extra["readbacks"] += 1
        ctx.case(
            nontrivial="readback:" + kclass(k) if optional_on else None,
            outcome=("readback", repr((caps.max_request_bytes, caps.max_response_bytes, caps.max_externalized_response_bytes, caps.externalization_enabled, caps.upload_url_support, caps.max_upload_bytes, tuple(getattr(e, "value", e) for e in caps.supported_encodings), caps.sticky_enabled, caps.sticky_default_ttl, caps.sticky_echo_headers))),
        )


def _quiet() -> Any:
    import functools
    import importlib.metadata as im

    logging.getLogger("vgi_rpc").setLevel(logging.CRITICAL)
    logging.getLogger("falcon").setLevel(logging.CRITICAL)
    logging.getLogger("falcon").propagate = False
    logging.getLogger("falcon").addHandler(logging.NullHandler())
    old = im.version
    if not hasattr(old, "cache_info"):
        im.version = functools.lru_cache(maxsize=None)(old)  # type: ignore[assignment]
    return old


def _stop_reapers() -> None:
    """Sticky apps start one daemon reaper thread on their first request: stop it once the app is done."""
    import threading

    for t in threading.enumerate():
        if t.name == "vgi-rpc-sticky-reaper" and hasattr(t, "stop"):
            t.stop()


def run(ctx: Ctx) -> None:
    import importlib.metadata as im
    import warnings

    warnings.simplefilter("ignore")
    ctx.extra.update({"responses": 0, "cap_headers_checked": 0, "readbacks": 0, "readbacks_with_cache_hint": 0, "apps": 0})
    old = _quiet()
    try:
        for variant, k in grids(ctx):
            if not ctx.mine():
                continue
            ctx.extra["apps"] += 1
            evaluate(ctx, variant, k)
            _stop_reapers()
    finally:
        im.version = old  # type: ignore[assignment]


def replay(ctx: Ctx, case: dict[str, Any]) -> None:
    import importlib.metadata as im
    import warnings

    warnings.simplefilter("ignore")
    ctx.extra.update({"responses": 0, "cap_headers_checked": 0, "readbacks": 0, "readbacks_with_cache_hint": 0, "apps": 0})
    old = _quiet()
    try:
        evaluate(ctx, case["variant"], case["knobs"])  # the whole app: keys depend on all route kinds
    finally:
        im.version = old  # type: ignore[assignment]

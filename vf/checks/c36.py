"""C36 — Token introspection endpoint enforces its guards (E1: exhaustive request-space enumeration).

Every case is ONE raw WSGI request against a real ``make_wsgi_app`` application (real auth middleware, real
``_TokenIntrospectionResource`` / ``_IntrospectionDisabledResource``).  The space is the full product

    app config (authenticate on/off x prefix x introspection on/off) x caller identity x request body
    x resolver behaviour

and the expected answer is computed by a small reference written from docs/WIRE_PROTOCOL.md section 16 and
docs/porting-guide.md ("HTTP token introspection") — it never calls the repository's helpers or regexes.

Oracle (weakest reading of the statement; every accepted alternative is listed):
  * caller not (authenticated AND principal on the allowlist)  -> 403; when the *authenticate callback itself
    raised* ValueError/PermissionError the generic 401 of the auth middleware is accepted too (the docs class
    401/403/404 together as definitive).  The resolver is not consulted for such callers.
  * malformed body / non-object / wrong type / empty / over-long token / body over the cap, unknown subject
    (resolver returned None) and JWS-shaped subject -> 404, and all those 404s are byte-identical (status line,
    body, every header except the random ``x-request-id``).  JWS-shaped: resolver not consulted.
  * resolver raised AuthUnavailableError -> 503 with a non-empty Retry-After.
  * resolver raised anything else -> some 5xx (docs: "anything transient must reach the caller as 5xx"); never
    a 2xx or a definitive 4xx.
  * resolver returned an identity -> 200 whose JSON object has exactly the keys principal, token_name,
    ttl_seconds, the first two equal to the identity's, ttl_seconds a JSON *number* that is finite and > 0
    (``true``, ``null``, strings, ``NaN``/``Infinity`` tokens are not).  If the identity's ttl is not finite
    positive the endpoint may instead refuse with a 5xx or substitute a valid ttl — both accepted.
  * inputs whose classification the text leaves open (body of exactly the cap, token of exactly the cap,
    extra JSON keys, BOM / UTF-16 encoded JSON, absent Content-Length) accept either the uniform 404 or the
    answer for the contained token.
  * the subject credential (every subject carries the marker ``S3CR3T``) appears in no status line, header or
    body of any response.
  * introspection not enabled -> 404 for every caller/body (401 accepted only when authenticate raised).
  * the resolver is consulted at most once and only with exactly the posted token.
The rate limiter is configured out of the way (10**9 per window) and the module's ``time`` is rebound to a
frozen clock, so a 429 is always a violation and time is not an input.
"""

from __future__ import annotations

import dataclasses
import json
import logging
import math
from typing import Any, Protocol

from vf.core.runner import Ctx
from vf.kit.c36_wsgi import Resp, call

PROPERTY = "C36"
LEVEL = "exploration"
ENGINE = "E1-SEQ"
SHARDS = {"quick": 4, "thorough": 8}
RULE = (
    "full product of app config {authenticate on/off} x {prefix '' (quick), '', '/api' (thorough)} x "
    "{introspection on, off} x 15 caller identities x request bodies (malformed / non-object / wrong-type / "
    "size-cap and token-cap boundaries / JWS-shaped / opaque; 61 quick, 164 with the generated key x value grid "
    "in thorough) x 34 resolver behaviours (identity with 21 ttl values, extra-claims identity, None, "
    "AuthUnavailableError x3 retry_after, 8 other exceptions); one real WSGI request per case; non-trivial = "
    "the case's expected class (403 / each 404 flavour / 503 / 5xx / 200 good / 200 bad-ttl / disabled)"
)
TECHNIQUE = "exhaustive enumeration of a finite request x resolver-behaviour grammar against the real WSGI app, judged by an independent reference written from the wire spec"
LEVEL_TEXT = (
    "Every combination of caller, body and resolver behaviour in the stated finite grammar is sent to the real "
    "Falcon application and judged; the property is a pure input->response contract of one stateless endpoint, so "
    "exhaustive enumeration of a boundary-covering input grammar is the matching level (no interleavings or state)."
)
LEVEL_NOTE = (
    "Inputs outside the grammar (other JSON shapes, other exception types, other ttl values) are not covered. "
    "The auth callback and the resolver are harness stubs; the rate limiter is configured out of the way and its "
    "clock frozen.  Size caps 8192 (body) / 4096 (token) are the pinned tree's values: cap+1 must be refused, "
    "exactly-cap may go either way."
)
ASSUMPTIONS = [
    "the resolver honours its documented contract: AuthUnavailableError.detail and identity.principal/token_name do not themselves contain the credential",
    "the statement's 'byte-identical 404' is judged on status line, body and all headers except x-request-id",
    "401 from the generic auth middleware is accepted instead of 403 only when the authenticate callback raised (no/invalid caller credential)",
    "log records are not inspected (the statement speaks of responses)",
]

MARK = "S3CR3T"
ALLOW = ("proxy@example.com", "proxy2@example.com")
BODY_CAP = 8192
TOKEN_CAP = 4096


# --------------------------------------------------------------------------- service + callbacks
class _Svc(Protocol):
    def ping(self) -> str: ...


class _Impl:
    def ping(self) -> str:
        return "pong"


# caller name -> ("ctx", authenticated, principal) | ("raise", exception class name)
CALLERS: dict[str, tuple[Any, ...]] = {
    "allow": ("ctx", True, ALLOW[0]),
    "allow2": ("ctx", True, ALLOW[1]),
    "other": ("ctx", True, "mallory@example.com"),
    "empty-principal": ("ctx", True, ""),
    "none-principal": ("ctx", True, None),
    "unauth-named-allow": ("ctx", False, ALLOW[0]),
    "anonymous-ctx": ("ctx", False, None),
    "case-variant": ("ctx", True, "PROXY@example.com"),
    "prefix-of-allow": ("ctx", True, ALLOW[0][:-1]),
    "allow-plus-space": ("ctx", True, ALLOW[0] + " "),
    "superstring": ("ctx", True, "x" + ALLOW[0]),
    "both-joined": ("ctx", True, ",".join(ALLOW)),
    "raise-value": ("raise", "ValueError"),
    "raise-permission": ("raise", "PermissionError"),
    "no-credential": ("raise", "ValueError"),  # no X-Caller header at all
}


def _authenticate(req: Any) -> Any:
    from vgi_rpc.rpc import AuthContext

    name = req.get_header("X-Caller")
    if not name:
        raise ValueError("no credential")
    spec = CALLERS[name]
    if spec[0] == "raise":
        raise (ValueError if spec[1] == "ValueError" else PermissionError)("refused")
    return AuthContext(domain="test", authenticated=spec[1], principal=spec[2])


def caller_allowed(spec: tuple[Any, ...]) -> bool:
    """Reference: introspector iff authenticated and principal is exactly on the allowlist."""
    return spec[0] == "ctx" and spec[1] is True and isinstance(spec[2], str) and spec[2] in ALLOW


NAN, INF = float("nan"), float("inf")
# resolver behaviour name -> spec
TTLS: dict[str, Any] = {
    "300": 300, "1": 1, "0.5": 0.5, "1e308": 1e308, "1e12": 10**12, "2^70": 2**70, "5e-324": 5e-324,
    "0": 0, "-1": -1, "-0.0": -0.0, "0.0": 0.0, "-0.5": -0.5, "nan": NAN, "inf": INF, "-inf": -INF,
    "str-x": "x", "str-300": "300", "none": None, "true": True, "false": False,
}
RESOLVERS: dict[str, tuple[Any, ...]] = {f"ttl:{k}": ("ident", v) for k, v in TTLS.items()}
RESOLVERS.update(
    {
        "ttl:list": ("ident", [300]),
        "claims-ident": ("claims",),
        "none": ("none",),
        "unavail": ("unavail", 5),
        "unavail:ra0": ("unavail", 0),
        "unavail:ra30": ("unavail", 30),
        "exc:RuntimeError": ("exc", "RuntimeError"),
        "exc:ValueError": ("exc", "ValueError"),
        "exc:KeyError": ("exc", "KeyError"),
        "exc:PermissionError": ("exc", "PermissionError"),
        "exc:TimeoutError": ("exc", "TimeoutError"),
        "exc:ConnectionError": ("exc", "ConnectionError"),
        "exc:LookupError": ("exc", "LookupError"),
        "exc:TypeError": ("exc", "TypeError"),
    }
)
_EXC = {
    "RuntimeError": RuntimeError, "ValueError": ValueError, "KeyError": KeyError, "PermissionError": PermissionError,
    "TimeoutError": TimeoutError, "ConnectionError": ConnectionError, "LookupError": LookupError, "TypeError": TypeError,
}


class _World:
    """Mutable selection consulted by the (single) resolver closure of every app."""

    def __init__(self) -> None:
        self.behaviour: tuple[Any, ...] = ("none",)
        self.calls: list[str] = []


W = _World()
PRINCIPAL, TOKEN_NAME = "alice@example.com", "laptop"


def _resolver(token: str) -> Any:
    from vgi_rpc.http import AuthUnavailableError
    from vgi_rpc.http.server._introspect import TokenIdentity

    W.calls.append(token)
    b = W.behaviour
    if b[0] == "none":
        return None
    if b[0] == "unavail":
        raise AuthUnavailableError("credential store unreachable", retry_after=b[1])
    if b[0] == "exc":
        # no contract covers what an arbitrary exception carries: it mentions the credential
        raise _EXC[b[1]](f"lookup failed for {token}")
    if b[0] == "claims":

        @dataclasses.dataclass(frozen=True)
        class _WithClaims(TokenIdentity):
            claims: Any = None
            tenant: str = "t1"

        return _WithClaims(principal=PRINCIPAL, token_name=TOKEN_NAME, ttl_seconds=300, claims={"role": "admin"})
    return TokenIdentity(principal=PRINCIPAL, token_name=TOKEN_NAME, ttl_seconds=b[1])


# --------------------------------------------------------------------------- reference recognisers
_B64URL = frozenset("ABCDEFGHIJKLMNOPQRSTUVWXYZabcdefghijklmnopqrstuvwxyz0123456789-_")


def jws_shaped(tok: str) -> bool:
    """Compact JWS: exactly three dot-separated base64url segments, signature may be empty (alg none)."""
    parts = tok.split(".")
    if len(parts) != 3 or not parts[0] or not parts[1]:
        return False
    return all(ch in _B64URL for p in parts for ch in p)


def ttl_class(raw: bytes) -> tuple[str, Any]:
    """Classify the 200 body.  Returns (class, parsed) where class 'ok' means a conforming body."""
    class _Const:
        def __init__(self, name: str) -> None:
            self.name = name

    try:
        obj = json.loads(raw.decode("utf-8"), parse_constant=_Const)
    except Exception:
        return "body-not-json", None
    if not isinstance(obj, dict):
        return "body-not-object", obj
    if set(obj) != {"principal", "token_name", "ttl_seconds"}:
        return "keys:" + ",".join(sorted(set(obj) ^ {"principal", "token_name", "ttl_seconds"})), obj
    if obj["principal"] != PRINCIPAL or obj["token_name"] != TOKEN_NAME:
        return "wrong-identity", obj
    ttl = obj["ttl_seconds"]
    if isinstance(ttl, _Const):  # NaN / Infinity / -Infinity are not JSON
        return ("ttl:nan" if ttl.name == "NaN" else "ttl:inf"), obj
    if isinstance(ttl, bool):
        return "ttl:bool", obj
    if ttl is None:
        return "ttl:null", obj
    if isinstance(ttl, str):
        return "ttl:string", obj
    if not isinstance(ttl, (int, float)):
        return "ttl:non-number", obj
    if isinstance(ttl, float) and not math.isfinite(ttl):
        return "ttl:inf", obj
    if not ttl > 0:
        return "ttl:nonpositive", obj
    return "ok", obj


def ttl_valid(v: Any) -> bool:
    return isinstance(v, (int, float)) and not isinstance(v, bool) and math.isfinite(v) and v > 0


# --------------------------------------------------------------------------- bodies
def _j(obj: Any) -> bytes:
    return json.dumps(obj, separators=(",", ":")).encode()


def _pad_to(body: bytes, size: int) -> bytes:
    assert len(body) <= size
    return body[:-1] + b" " * (size - len(body)) + body[-1:]


OPAQUE = MARK + "-opaque-credential"


def bodies(ctx_thorough: bool) -> list[dict[str, Any]]:
    """Each body: label, raw, kind in {'tok','bad','either'}, token (for tok/either), cl (send Content-Length)."""
    out: list[dict[str, Any]] = []

    def add(label: str, raw: bytes, kind: str, token: str | None = None, cl: bool = True) -> None:
        out.append({"label": label, "raw": raw, "kind": kind, "token": token, "cl": cl})

    def tok(label: str, token: str, kind: str = "tok") -> None:
        add(label, _j({"token": token}), kind, token)

    # --- well-formed, resolvable-looking subjects
    tok("opaque", OPAQUE)
    add("opaque-spaced", b' {\n "token" : ' + json.dumps(OPAQUE).encode() + b" }\n", "tok", OPAQUE)
    tok("opaque-unicode", MARK + "é☃")
    tok("opaque-1char-tail", MARK)
    tok("two-segments", MARK + ".payload")
    tok("four-segments", MARK + ".a.b.c")
    tok("five-segments-jwe", MARK + ".a.b.c.d")
    tok("empty-middle", MARK + "..sig")
    tok("empty-first", "." + MARK + ".sig")
    tok("padded-b64", MARK + ".payload.sig=")
    tok("dot-slash", MARK + ".pay/load.sig")
    tok("dot-plus", MARK + ".pay+load.sig")
    tok("token-cap-minus1", MARK + "x" * (TOKEN_CAP - 1 - len(MARK)))
    # --- JWS-shaped subjects (three base64url segments; empty signature allowed)
    tok("jws-min", MARK + ".b.c")
    tok("jws-empty-sig", MARK + ".b.")
    tok("jws-real", "eyJhbGciOiJIUzI1NiJ9." + MARK + "eyJzdWIiOiJ4In0.c2ln-_A")
    tok("jws-urlsafe", MARK + "-_." + "-_-_" + "._")
    tok("jws-long", MARK + "." + "p" * 2000 + "." + "s" * 1000)
    tok("jws-digits", "0" + MARK + ".1.2")
    # --- open classifications
    tok("token-at-cap", MARK + "x" * (TOKEN_CAP - len(MARK)), "either")
    tok("jws-at-cap", MARK + "." + "p" * (TOKEN_CAP - len(MARK) - 3) + ".s", "either")
    add("extra-key", _j({"token": OPAQUE, "hint": "x"}), "either", OPAQUE)
    add("extra-claims-key", _j({"claims": {"a": 1}, "token": OPAQUE}), "either", OPAQUE)
    add("body-at-cap", _pad_to(_j({"token": OPAQUE}), BODY_CAP), "either", OPAQUE)
    add("bom-utf8", b"\xef\xbb\xbf" + _j({"token": OPAQUE}), "either", OPAQUE)
    add("utf16", json.dumps({"token": OPAQUE}).encode("utf-16"), "either", OPAQUE)
    add("no-content-length", _j({"token": OPAQUE}), "either", OPAQUE, cl=False)
    # --- malformed / unusable
    add("empty", b"", "bad")
    add("not-json", b"token=" + OPAQUE.encode(), "bad")
    add("truncated", _j({"token": OPAQUE})[:-2], "bad")
    add("trailing-garbage", _j({"token": OPAQUE}) + b"}", "bad")
    add("invalid-utf8", b'{"token":"' + OPAQUE.encode() + b'\xff\xfe"}', "bad")
    add("lone-brace", b"{", "bad")
    add("array-empty", b"[]", "bad")
    add("array-token", _j([OPAQUE]), "bad")
    add("array-object", _j([{"token": OPAQUE}]), "bad")
    add("string", _j(OPAQUE), "bad")
    add("number", b"123", "bad")
    add("null", b"null", "bad")
    add("true", b"true", "bad")
    add("nan-literal", b'{"token": NaN}', "bad")
    add("object-empty", b"{}", "bad")
    add("key-capitalised", _j({"Token": OPAQUE}), "bad")
    add("key-trailing-space", _j({"token ": OPAQUE}), "bad")
    add("key-plural", _j({"tokens": OPAQUE}), "bad")
    add("nested", _j({"body": {"token": OPAQUE}}), "bad")
    add("token-int", _j({"token": 123}), "bad")
    add("token-float", _j({"token": 1.5}), "bad")
    add("token-null", _j({"token": None}), "bad")
    add("token-true", _j({"token": True}), "bad")
    add("token-list", _j({"token": [OPAQUE]}), "bad")
    add("token-object", _j({"token": {"value": OPAQUE}}), "bad")
    add("token-empty", _j({"token": ""}), "bad")
    add("token-huge-int", b'{"token": 1' + b"0" * 5000 + b"}", "bad")
    add("deep-arrays", b"[" * 4000 + b"]" * 4000, "bad")
    add("deep-objects-open", b'{"a":' * 1600, "bad")
    add("token-cap-plus1", _j({"token": MARK + "x" * (TOKEN_CAP + 1 - len(MARK))}), "bad")
    add("token-8000", _j({"token": MARK + "y" * 8000}), "bad")
    add("body-cap-plus1", _pad_to(_j({"token": OPAQUE}), BODY_CAP + 1), "bad")
    add("body-64k", _pad_to(_j({"token": OPAQUE}), 65536), "bad")
    add("body-cap-plus1-no-cl", _pad_to(_j({"token": OPAQUE}), BODY_CAP + 1), "bad", cl=False)
    if ctx_thorough:
        # generated grid: every key spelling x every JSON value shape
        keys = ["token", "Token", "TOKEN", "token\u0000", " token", "tok", "t", ""]
        vals: list[tuple[str, Any]] = [
            ("str", OPAQUE), ("jws", MARK + ".x.y"), ("empty", ""), ("int", 7), ("zero", 0), ("float", 2.5),
            ("null", None), ("true", True), ("false", False), ("list", [OPAQUE]), ("obj", {"token": OPAQUE}),
            ("list-empty", []),
        ]
        for k in keys:
            for vn, v in vals:
                if k == "token" and vn in ("str", "jws"):
                    add(f"grid:{k!r}:{vn}", _j({k: v}), "tok", v)
                else:
                    add(f"grid:{k!r}:{vn}", _j({k: v}), "bad")
        for n in (BODY_CAP - 1, BODY_CAP + 2, BODY_CAP * 2, 20000):
            add(f"body-size-{n}", _pad_to(_j({"token": OPAQUE}), n), "tok" if n < BODY_CAP else "bad", OPAQUE if n < BODY_CAP else None)
        for n in (TOKEN_CAP - 2, TOKEN_CAP + 2, TOKEN_CAP + 100):
            t = MARK + "z" * (n - len(MARK))
            if n < TOKEN_CAP:
                tok(f"token-len-{n}", t)
            else:
                add(f"token-len-{n}", _j({"token": t}), "bad")
    return out


# --------------------------------------------------------------------------- apps
_APPS: dict[tuple[bool, str, bool], Any] = {}


class _FrozenTime:
    """Stands in for the ``time`` module inside _introspect: the limiter's window never rolls by itself."""

    @staticmethod
    def monotonic() -> float:
        return 1000.0

    @staticmethod
    def time() -> float:
        return 1_700_000_000.0


def _prepare() -> None:
    logging.disable(logging.CRITICAL)
    import vgi_rpc.http.server._introspect as mod

    mod.time = _FrozenTime  # type: ignore[assignment]


def get_app(auth_on: bool, prefix: str, enabled: bool) -> Any:
    key = (auth_on, prefix, enabled)
    if key not in _APPS:
        from vgi_rpc.http.server import make_wsgi_app
        from vgi_rpc.rpc import RpcServer

        kw: dict[str, Any] = {"token_key": b"k" * 32, "prefix": prefix}
        if auth_on:
            kw["authenticate"] = _authenticate
        if enabled:
            kw.update(introspect_resolver=_resolver, introspect_principals=[*ALLOW, ""], introspect_rate_limit=10**9)
        _APPS[key] = make_wsgi_app(RpcServer(_Svc, _Impl()), **kw)
    return _APPS[key]


def configs(ctx: Ctx) -> list[tuple[bool, str, bool]]:
    prefixes = [""] if ctx.quick else ["", "/api"]
    return [(a, p, e) for a in (True, False) for p in prefixes for e in (True, False)]


# --------------------------------------------------------------------------- one case
_VOLATILE = {"x-request-id"}


def fingerprint(r: Resp) -> tuple[Any, ...]:
    return (r.status_line, r.body, tuple(sorted((k, v) for k, v in r.headers if k not in _VOLATILE)))


class Judge:
    def __init__(self, ctx: Ctx) -> None:
        self.ctx = ctx
        self.ref404: dict[tuple[bool, str, bool], tuple[tuple[Any, ...], str]] = {}

    def run_case(self, cfg: tuple[bool, str, bool], caller: str, body: dict[str, Any], rname: str, sample: bool = False) -> None:
        ctx = self.ctx
        auth_on, prefix, enabled = cfg
        app = get_app(*cfg)
        W.behaviour = RESOLVERS[rname]
        W.calls = []
        headers = {"Content-Type": "application/json"}
        if caller != "no-credential":
            headers["X-Caller"] = caller
        r = call(app, "POST", prefix + "/__introspect_token__", headers=headers, body=body["raw"], drop_content_length=not body["cl"])
        calls = list(W.calls)
        rep = {"cfg": list(cfg), "caller": caller, "body": body["label"], "resolver": rname}
        desc = f"caller={caller} body={body['label']} resolver={rname} cfg(auth={auth_on},prefix={prefix!r},enabled={enabled})"
        spec = CALLERS[caller] if auth_on else ("ctx", False, None)
        raised = spec[0] == "raise"

        # ---- the credential marker is in no response, whatever else happens
        blob = r.status_line.encode() + b"\n" + b"\n".join(f"{k}: {v}".encode("utf-8", "replace") for k, v in r.headers) + b"\n" + r.body
        if MARK.encode() in blob or MARK.lower().encode() in blob.lower():
            where = "body" if MARK.encode() in r.body else "headers"
            ctx.fail(f"credential-in-response:{r.status}:{where}", f"subject credential echoed in the {r.status} response ({desc}): {r.body[:160]!r}", rep)
        if r.status == 429:
            ctx.fail("unexpected-429", f"rate limiter fired with limit 10**9 and frozen clock ({desc})", rep)

        # ---- expected class
        if not enabled:
            cls = "disabled"
            ok = r.status == 404 or (raised and r.status == 401)
            if not ok:
                ctx.fail(f"disabled-not-definitive-404:{r.status}", f"worker without introspection answered {r.status_line} ({desc})", rep)
            if calls:
                ctx.fail("disabled-consulted-resolver", f"resolver consulted although introspection is off ({desc})", rep)
        elif not caller_allowed(spec):
            cls = "forbidden:" + ("raised" if raised else "ctx")
            ok = r.status == 403 or (raised and r.status == 401)
            if not ok:
                ctx.fail(f"caller-not-refused:{caller}:{r.status}", f"caller outside the allowlist got {r.status_line} instead of 403 ({desc})", rep)
            if calls:
                ctx.fail(f"resolver-consulted:forbidden-caller:{caller}", f"resolver consulted for a caller outside the allowlist ({desc})", rep)
        else:
            cls = self._judge_allowed(r, body, rname, calls, rep, desc, cfg)
        outcome = (r.status, cls.split(":")[0], len(calls))
        ctx.case(sample=({**rep, "status": r.status, "body_out": r.body[:80].decode("latin-1")} if sample else None), nontrivial=cls, outcome=outcome)

    # -- allow-listed caller, introspection enabled
    def _judge_allowed(self, r: Resp, body: dict[str, Any], rname: str, calls: list[str], rep: Any, desc: str, cfg: Any) -> str:
        ctx = self.ctx
        kind, token = body["kind"], body["token"]
        beh = RESOLVERS[rname]
        if len(calls) > 1 or (calls and token is not None and calls[0] != token) or (calls and token is None):
            ctx.fail("resolver-misuse", f"resolver consulted {len(calls)}x / with a string that is not the posted token ({desc})", rep)

        def expect_404(flavour: str) -> None:
            if r.status != 404:
                ctx.fail(f"not-404:{flavour}:{r.status}", f"{flavour} subject answered {r.status_line} instead of the uniform 404 ({desc})", rep)
                return
            fp = fingerprint(r)
            ref = self.ref404.get(cfg)
            if ref is None:
                # canonical reference, the same in every shard: allow-listed caller, well-formed unknown subject
                W.behaviour, W.calls = ("none",), []
                r0 = call(get_app(*cfg), "POST", cfg[1] + "/__introspect_token__", headers={"Content-Type": "application/json", "X-Caller": "allow"}, body=_j({"token": OPAQUE}))
                ref = self.ref404[cfg] = (fingerprint(r0), "unknown(reference)")
            if ref[0] != fp:
                ctx.fail(f"404-not-uniform:{flavour}-vs-{ref[1]}", f"404 for {flavour} differs from 404 for {ref[1]}: {fp!r} vs {ref[0]!r} ({desc})", rep)

        def by_resolver() -> str:
            if not calls and r.status != 404:
                # every non-404 answer for a well-formed non-JWS subject has to come from the resolver
                ctx.fail(f"resolver-not-consulted:{r.status}", f"answer {r.status_line} without consulting the resolver ({desc})", rep)
            if beh[0] == "none":
                expect_404("unknown")
                return "404-unknown"
            if beh[0] == "unavail":
                ra = r.get("retry-after")
                if r.status != 503 or not (ra or "").strip():
                    ctx.fail(f"unavailable-not-503-retry-after:{r.status}", f"resolver unavailable -> {r.status_line} retry-after={ra!r} ({desc})", rep)
                return "503"
            if beh[0] == "exc":
                if not 500 <= r.status <= 599:
                    ctx.fail(f"resolver-exception-not-5xx:{beh[1]}:{r.status}", f"resolver raised {beh[1]} -> {r.status_line} (must be transient 5xx) ({desc})", rep)
                return "5xx"
            # identity
            good = beh[0] == "claims" or ttl_valid(beh[1])
            if r.status == 200:
                c, _obj = ttl_class(r.body)
                if c != "ok":
                    if c.startswith("ttl:"):
                        ctx.fail(f"ttl-not-validated:{c[4:]}", f"200 body carries ttl_seconds that is not a finite positive number: {r.body!r} ({desc})", rep)
                    else:
                        ctx.fail(f"bad-200-body:{c}", f"200 body is not exactly principal/token_name/ttl_seconds of the identity: {r.body[:200]!r} ({desc})", rep)
            elif good:
                ctx.fail(f"identity-not-200:{r.status}", f"resolver returned a well-formed identity but the answer is {r.status_line} ({desc})", rep)
            elif not 500 <= r.status <= 599:
                ctx.fail(f"bad-ttl-identity:{r.status}", f"identity with invalid ttl answered {r.status_line} (200-with-valid-ttl or 5xx expected) ({desc})", rep)
            return "200-good" if good else "200-badttl:" + rname

        if kind == "bad":
            expect_404("malformed")
            return "404-malformed"
        jws = jws_shaped(token)
        if kind == "either":
            if r.status == 404 and not (jws and calls):
                expect_404("malformed")
                return "either-404"
            if jws:
                if calls:
                    ctx.fail("jws-reached-resolver", f"JWS-shaped subject was handed to the resolver ({desc})", rep)
                expect_404("jws")
                return "either-jws"
            return "either-" + by_resolver()
        if jws:
            if calls:
                ctx.fail("jws-reached-resolver", f"JWS-shaped subject was handed to the resolver ({desc})", rep)
            expect_404("jws")
            return "404-jws"
        return by_resolver()


def _space(ctx: Ctx) -> tuple[list[Any], list[str], list[dict[str, Any]], list[str]]:
    return configs(ctx), list(CALLERS), bodies(ctx.thorough), list(RESOLVERS)


def run(ctx: Ctx) -> None:
    _prepare()
    cfgs, callers, bods, resolvers = _space(ctx)
    ctx.extra.update({"requests": 0, "apps": 0, "bodies": len(bods), "callers": len(callers), "resolver_behaviours": len(resolvers)})
    judge = Judge(ctx)
    n = 0
    for cfg in cfgs:
        auth_on, _prefix, enabled = cfg
        for caller in callers if auth_on else ["no-credential"]:
            for body in bods:
                if not ctx.mine():
                    continue
                # the resolver dimension only exists when introspection is on
                for rname in resolvers if enabled else ["none"]:
                    n += 1
                    judge.run_case(cfg, caller, body, rname, sample=(n % 4001 == 1))
    ctx.extra["requests"] = n
    ctx.extra["apps"] = len(_APPS)


def replay(ctx: Ctx, case: dict[str, Any]) -> None:
    _prepare()
    thorough = case["body"].startswith(("grid:", "body-size-", "token-len-"))
    body = next(b for b in bodies(thorough) if b["label"] == case["body"])
    cfg = (bool(case["cfg"][0]), str(case["cfg"][1]), bool(case["cfg"][2]))
    judge = Judge(ctx)
    # establish the uniform-404 reference of this app first (unknown subject)
    ref_body = next(b for b in bodies(False) if b["label"] == "opaque")
    if cfg[2]:
        judge.run_case(cfg, "allow" if cfg[0] else "no-credential", ref_body, "none")
    judge.run_case(cfg, case["caller"], body, case["resolver"])

"""C27 — Sticky lifecycle: opt-in, drain, and client token tracking (E2: BFS over client/server histories).

World: one real sticky-enabled WSGI app (frozen virtual clock, no reaper: sessions never expire here) and the
real client: ``http_connect`` proxy plus real ``with_session_token()`` views (``_SessionView`` /
``_SessionTrackingClient``).  The service method executes a script of session actions inside ONE request.

BFS events: in(view, script) = call through a view (carries the opt-in and the view's token) | out(script) =
call through the plain proxy (no opt-in, no token) | enter(view) | exit(view) | drain | (thorough) detach(view) /
resume(view) with the detached token.  Scripts are sequences over {noop, open, close, raise}: all of
open/close/resume/no-op combinations incl. close->open, open->close, open->open, open->raise.
Canonical state = (draining, per view: open?, model-has-session?, view-holds-token?, view._closed, stash?) —
labels/ids abstracted; sound because the registry, the view and the drain flag are the only state and sessions
do not interact.

Reference model (from docs/sticky-sessions-spec.md §2, §4, §7): per request, starting from the session the
presented token resolves to: ``open`` fails without opt-in (RuntimeError), with a session already bound
(RuntimeError), or while draining (server_draining); otherwise binds a new live session.  ``close`` removes
the bound session (idempotent).  Effects made before an error persist.

Oracle, after EVERY response (weakest reading of the statement):
  * no-orphan: every live registry session opened for this client is referenced by the token of one of its
    open views (or by the explicitly detached token).  [model-free, from registry contents + behavioural
    resolution of each held token by presenting it out of band]
  * no-stale (clock frozen, no eviction): a token held by a view resolves to a live session.
  * the view's token resolves to exactly the session the model says the server keeps for that view.
  * registry contents == model: nothing is opened without opt-in or while draining (those requests fail, the
    latter with ``error_kind == server_draining``), sessions survive drain and keep serving.
  * return values (``ctx.session`` after each action) and error classes equal the model's.
What happens to a still-live session at view *exit* (best-effort DELETE) is outside the statement: it is
recorded in the evidence (``exit_left_live_session``) but not judged.
After a reported divergence the model is re-synchronised to the real state so one root cause yields one key.

Second part (E1, small): the raw ``VGI-Session-Accept`` value matrix x {draining, not} x {token presented, not}.
Judged: absent/""/"false"/"0" must not open; "true" must open iff not draining and no session bound.
"""

from __future__ import annotations

from typing import Any

from vf.core import bfs as B
from vf.core.runner import Ctx, h
from vf.kit import c25_sticky as K

PROPERTY = "C27"
LEVEL = "model_checking"
ENGINE = "E2-BFS"
SHARDS = {"quick": 4, "thorough": 16}
TECHNIQUE = "explicit-state BFS over request scripts x client view operations on the real client view and real sticky middleware, compared after every response with a spec-derived lifecycle model and a model-free no-orphan invariant"
RULE = (
    "BFS over 2 concurrent client views, depth 4 (quick, 7 in-view scripts, 2 plain scripts) / depth 6 (thorough, 13 in-view scripts, + detach/resume) "
    "over in/out/enter/exit/drain events; after every event: registry vs view tokens vs model; plus the VGI-Session-Accept value matrix "
    "(10 values x draining x token); non-trivial class = (event kind, script, draining, session bound at entry, observed outcome)"
)
LEVEL_TEXT = (
    "Every history of multi-action requests and view operations up to the depth bound runs on the real client and server and the client's "
    "view is compared with the registry after every response; the statement quantifies over such histories, tests cover one action per request."
)
LEVEL_NOTE = (
    "Bounds: one worker, one client connection, <=2 views, unary calls, scripts of <=3 actions, depth 4/6; clock frozen (expiry belongs to C25/C26). "
    "Registry contents are read white-box (`_entries`); token->session resolution is behavioural (the token is presented and `ctx.session` observed)."
)
ASSUMPTIONS = [
    "sessions never expire inside a C27 history (virtual clock frozen, reaper replaced by a no-op)",
    "view exit / detach semantics are not part of the statement (recorded, not judged)",
    "Accept header values other than absent, '', 'false', '0', 'true' are not judged",
]

QUICK_IN = ["noop", "open", "close", "close,open", "open,close", "open,open", "open,raise"]
THOROUGH_IN = QUICK_IN + ["open,close,open", "close,open,close", "close,close", "close,raise", "close,open,raise", "noop,open"]
OUT = ["open", "close"]


# ------------------------------------------------------------------------------------------------------
# reference model of one request


def interp(script: str, cur: str | None, accept: bool, draining: bool, next_label: int) -> dict[str, Any]:
    trace = [str(cur)]
    opened: list[str] = []
    closed: list[str] = []
    err = None
    close_before_open = False
    seen_close = False
    for op in script.split(","):
        if op == "noop":
            pass
        elif op == "open":
            if not accept or cur is not None:
                err = "RuntimeError"
                break
            if draining:
                err = "ServerDrainingError"
                break
            cur = f"A.s{next_label}"
            next_label += 1
            opened.append(cur)
            if seen_close:
                close_before_open = True
        elif op == "close":
            seen_close = True
            if cur is not None:
                closed.append(cur)
                cur = None
        elif op == "raise":
            err = "Boom"
            break
        trace.append(str(cur))
    return {"cur": cur, "opened": opened, "closed": closed, "err": err, "trace": "|".join(trace), "next": next_label,
            "cto": close_before_open and cur is not None}


# ------------------------------------------------------------------------------------------------------


class World:
    def __init__(self, nviews: int) -> None:
        self.clock = K.VTime()
        K.install(self.clock)
        self.wk = K.Worker("A", 300.0)
        self.nviews = nviews
        self.cms: list[Any] = [None] * nviews
        self.views: list[Any] = [None] * nviews
        self.m_cur: list[str | None] = [None] * nviews
        self.stash_tok: str | None = None
        self.m_stash: str | None = None
        self.draining = False
        self.m_live: set[str] = set()
        self.ignored: set[str] = set()
        self.next_label = 0
        self.findings: list[tuple[str, str]] = []
        self.outcome: Any = None
        self.cls: Any = None
        self.exit_left = 0
        self.reported_stale: set[str] = set()
        self._enter(0, None)

    # -- helpers -------------------------------------------------------------------------------
    def _enter(self, v: int, tok: str | None) -> None:
        cm = self.wk.proxy.with_session_token(tok)
        self.cms[v] = cm
        self.views[v] = cm.__enter__()

    def resolve(self, tok: str | None) -> str | None:
        """Which live session does this token give access to (behavioural, out of band, no opt-in)."""
        if tok is None:
            return None
        o = self.wk.call("noop", token=tok)
        if o["err"] is not None:
            return None
        return o["ret"].split("|")[0]

    def canon(self) -> Any:
        vs = []
        for v in range(self.nviews):
            vw = self.views[v]
            vs.append((vw is not None, self.m_cur[v] is not None, vw is not None and vw._token is not None, vw is not None and vw._closed))
        return (self.draining, tuple(vs), self.stash_tok is not None)

    # -- events --------------------------------------------------------------------------------
    def apply(self, ev: Any) -> None:
        from vgi_rpc.rpc import RpcError

        self.findings = []
        kind = ev[0]
        tag = ""
        if kind in ("in", "out"):
            if kind == "in":
                v, script = ev[1], ev[2]
                target = self.views[v]
                held = target._token
                dead = held is not None and self.m_cur[v] is None  # only after a reported divergence
                cur = self.m_cur[v]
            else:
                v, script = None, ev[1]
                target = self.wk.proxy
                held, dead, cur = None, False, None
            exp = interp(script, cur, accept=(kind == "in"), draining=self.draining, next_label=self.next_label)
            self.wk.tap.last = None
            n0 = len(self.wk.impl.log)
            ret, err = None, None
            try:
                ret = target.act(script=script)
            except RpcError as e:
                err = e.error_type
            last = self.wk.tap.last
            kinds = K.error_kinds(last.content) if last is not None else []
            ndisp = len(self.wk.impl.log) - n0
            tag = f"{kind}:{script}:{'drain' if self.draining else 'run'}:{'sess' if cur else 'nosess'}"
            self.cls = (kind, script, self.draining, cur is not None)
            self.outcome = (err, tuple(kinds), ndisp)
            if dead:
                if ndisp or "session_lost" not in kinds:
                    self.findings.append((f"dead-token-not-lost:{script}", f"view presented a dead token, got err={err} kinds={kinds} dispatched={ndisp}"))
            else:
                if ndisp != 1:
                    self.findings.append((f"not-dispatched:{tag}", f"request was not dispatched exactly once (err={err}, kinds={kinds}, n={ndisp})"))
                if err != exp["err"]:
                    self.findings.append((f"wrong-result:{tag}", f"expected error {exp['err']}, got {err} (ret={ret!r})"))
                elif err is None and ret != exp["trace"]:
                    self.findings.append((f"wrong-session-trace:{tag}", f"ctx.session after each action: expected {exp['trace']!r}, got {ret!r}"))
                if exp["err"] == "ServerDrainingError" and "server_draining" not in kinds:
                    self.findings.append((f"drain-kind-missing:{script}", f"open while draining did not yield error_kind server_draining (kinds={kinds}, err={err})"))
                if exp["err"] != "ServerDrainingError" and "server_draining" in kinds:
                    self.findings.append((f"spurious-server-draining:{tag}", "server_draining reported although the model expects none"))
                self.next_label = exp["next"]
                if v is not None:
                    self.m_cur[v] = exp["cur"]
                self.m_live |= set(exp["opened"])
                self.m_live -= set(exp["closed"])
            why = "close-then-open-in-one-request" if exp["cto"] else script
            if kind == "out":
                why = "no-opt-in:" + script
            elif self.draining:
                why = "draining:" + why
            self.verify(why)
        elif kind == "enter":
            self._enter(ev[1], None)
            self.m_cur[ev[1]] = None
            self.cls, self.outcome = ("enter",), None
            self.verify("enter")
        elif kind == "exit":
            v = ev[1]
            lbl = self.m_cur[v]
            self.cms[v].__exit__(None, None, None)
            self.cms[v] = self.views[v] = None
            self.m_cur[v] = None
            left = lbl is not None and lbl in self.wk.live_labels()
            if lbl is not None:
                self.m_live.discard(lbl)
                if left:  # not judged (outside the statement) — recorded
                    self.exit_left += 1
                    self.ignored.add(lbl)
            self.cls, self.outcome = ("exit", lbl is not None), ("left-live" if left else "clean")
            self.verify("exit")
        elif kind == "detach":
            v = ev[1]
            self.stash_tok = self.views[v].detach()
            self.m_stash = self.m_cur[v]
            self.m_cur[v] = None
            self.cls, self.outcome = ("detach",), self.stash_tok is not None
            self.verify("detach")
        elif kind == "resume":
            v = ev[1]
            self._enter(v, self.stash_tok)
            self.m_cur[v] = self.m_stash
            self.stash_tok = self.m_stash = None
            self.cls, self.outcome = ("resume",), None
            self.verify("resume")
        elif kind == "drain":
            self.wk.handle.drain()
            self.draining = True
            self.cls, self.outcome = ("drain",), None
            self.verify("drain")
        else:
            raise AssertionError(ev)

    # -- the after-every-response comparison ---------------------------------------------------
    def verify(self, why: str) -> None:
        reg = self.wk.live_labels()
        held: set[str] = set()
        real_cur: list[str | None] = [None] * self.nviews
        for v in range(self.nviews):
            vw = self.views[v]
            if vw is None:
                continue
            tok = vw._token
            if tok != vw.current_session_token():
                self.findings.append(("view-api-inconsistent", "current_session_token() differs from the tracked token"))
            res = self.resolve(tok)
            real_cur[v] = res
            if res is not None:
                held.add(res)
            if tok is not None and res is None:
                if tok in self.reported_stale:
                    continue  # this dead token was already reported at the event that made it stale
                self.reported_stale.add(tok)
                self.findings.append((f"stale-token:{why}", f"view {v} holds a token that resolves to no live session (model session: {self.m_cur[v]})"))
            elif res != self.m_cur[v] and not (tok is None and self.m_cur[v] in reg):
                # (tok None while the model session is live in the registry is the orphan case below)
                self.findings.append((f"view-token-wrong-session:{why}", f"view {v} token resolves to {res}, model expects {self.m_cur[v]}"))
        sres = self.resolve(self.stash_tok)
        if sres is not None:
            held.add(sres)
        if self.stash_tok is not None and sres != self.m_stash:
            self.findings.append((f"detached-token-lost:{why}", f"detached token resolves to {sres}, expected {self.m_stash}"))
        orphans = reg - self.ignored - held
        unexpected = reg - self.ignored - self.m_live
        vanished = self.m_live - reg
        if unexpected:
            self.findings.append((f"unexpected-live-session:{why}", f"registry holds {sorted(unexpected)} which the model says must not exist"))
        for o in sorted(orphans - unexpected):
            self.findings.append((f"orphaned-session:{why}", f"live session {o} is referenced by no view token (views hold {sorted(held)}, registry {sorted(reg)})"))
        if vanished:
            self.findings.append((f"session-vanished:{why}", f"model-live sessions {sorted(vanished)} are not in the registry"))
        # state.close() must have run exactly once for every session that left the registry, never for live ones
        for s in self.wk.impl.states:
            want = 0 if s.label in reg else 1
            if s.closed != want:
                self.findings.append((f"state-close-count:{why}", f"session {s.label}: close() called {s.closed}x, in registry={s.label in reg}"))
                s.closed = want
        # re-synchronise the model with reality so a divergence is reported once
        if self.findings:
            self.ignored |= orphans | unexpected
            self.m_live = set(reg) - self.ignored
            for v in range(self.nviews):
                if self.views[v] is not None:
                    self.m_cur[v] = real_cur[v]
            self.m_stash = sres
            mx = [int(lbl.split(".s")[1]) for lbl in (s.label for s in self.wk.impl.states)]
            self.next_label = max(mx) + 1 if mx else 0


def make_build(nviews: int):
    def build(hist: tuple[Any, ...]) -> World:
        w = World(nviews)
        for ev in hist:
            w.apply(tuple(ev))
        return w

    return build


def make_enabled(tier: str, nviews: int):
    scripts = QUICK_IN if tier == "quick" else THOROUGH_IN

    def enabled(w: World) -> list[Any]:
        evs: list[Any] = []
        for v in range(nviews):
            if w.views[v] is not None:
                for s in scripts:
                    evs.append(("in", v, s))
                evs.append(("exit", v))
                if tier == "thorough" and w.stash_tok is None and w.views[v]._token is not None:
                    evs.append(("detach", v))
            else:
                evs.append(("enter", v))
                if tier == "thorough" and w.stash_tok is not None:
                    evs.append(("resume", v))
        for s in OUT:
            evs.append(("out", s))
        if not w.draining:
            evs.append(("drain",))
        return evs

    return enabled


def make_invariant(ctx: Ctx):
    def invariant(w: World, hist: tuple[Any, ...]) -> Any:
        if not hist:
            return None
        ctx.extra["exit_left_live_session"] += 1 if (hist[-1][0] == "exit" and w.outcome == "left-live") else 0
        # bfs() already counted this transition as one evaluation; only classify it (no double counting)
        ctx.nontrivial.add(h((w.cls, w.outcome)))
        ctx.outcomes.add(h((w.cls, w.outcome)))
        for key, msg in w.findings:  # findings of the LAST event only; prefixes were judged when they were reached
            ctx.fail(key, f"after {list(hist[-1])}: {msg}", {"part": "bfs", "history": [list(e) for e in hist], "tier": ctx.tier})
        return None

    return invariant


# ------------------------------------------------------------------------------------------------------
# part 2: opt-in header value matrix

ACCEPT_VALUES = [None, "", "true", "TRUE", " true ", "True", "false", "0", "1", "yes", "truee"]
MUST_NOT = {None, "", "false", "0"}


def accept_case(ctx: Ctx, accept: str | None, draining: bool, with_token: bool) -> None:
    clock = K.VTime()
    K.install(clock)
    wk = K.Worker("A", 300.0)
    tok = None
    if with_token:
        tok = wk.call("open", accept="true")["minted"]
        assert tok
    if draining:
        wk.handle.drain()
    before = wk.live_labels()
    o = wk.call("open", token=tok, accept=accept)
    after = wk.live_labels()
    opened = len(after - before)
    rep = {"part": "accept", "accept": accept, "draining": draining, "with_token": with_token}
    name = "absent" if accept is None else repr(accept)
    if after - before and not o["minted"]:
        ctx.fail(f"opened-without-token-header:{name}", f"a session was registered but no VGI-Session header returned ({c_brief(o)})", rep)
    if o["minted"] and not (after - before):
        ctx.fail(f"token-without-session:{name}", "a VGI-Session token was returned but no session registered", rep)
    if before - after:
        ctx.fail(f"open-destroyed-session:{name}", "a failing/plain open removed an existing session", rep)
    if accept in MUST_NOT:
        if opened or o["err"] is None:
            ctx.fail(f"opened-without-opt-in:{name}", f"Accept={name}: open_session succeeded / registered a session ({c_brief(o)})", rep)
    elif accept == "true":
        if with_token:
            if opened or o["err"] is None:
                ctx.fail("opened-second-session-on-bound-request", f"open with a session already bound: {c_brief(o)}", rep)
        elif draining:
            if opened or "server_draining" not in o["kinds"]:
                ctx.fail("opened-while-draining", f"open while draining: {c_brief(o)}", rep)
        elif opened != 1 or o["err"] is not None:
            ctx.fail("opt-in-open-failed", f"Accept=true, not draining, no session bound: {c_brief(o)}", rep)
    if draining and opened:
        ctx.fail(f"opened-while-draining:{name}", f"a session was registered while draining ({c_brief(o)})", rep)
    if with_token and wk.call("noop", token=tok)["err"] is not None:
        ctx.fail(f"existing-session-stopped-serving:{'drain' if draining else 'run'}", "the pre-existing session no longer serves", rep)
    ctx.case(
        sample=rep if (accept in ("true", None) and not with_token) else None,
        nontrivial=("accept", accept in MUST_NOT, accept == "true", draining, with_token, opened, o["err"]),
        outcome=("accept", accept, draining, with_token, opened, o["err"], tuple(o["kinds"])),
    )


def c_brief(o: dict[str, Any]) -> str:
    return f"err={o['err']} kinds={o['kinds']} minted={'yes' if o['minted'] else 'no'} dispatched={o['dispatched']}"


# ------------------------------------------------------------------------------------------------------


def run(ctx: Ctx) -> None:
    ctx.extra.update({"exit_left_live_session": 0, "accept_matrix_cases": 0})
    nviews = 2
    depth = 4 if ctx.quick else 6
    st = B.bfs(ctx, make_build(nviews), make_enabled(ctx.tier, nviews), lambda w: w.canon(), make_invariant(ctx), max_depth=depth, label="c27")
    ctx.extra["max_depth_reached"] = st["max_depth"]
    for accept in ACCEPT_VALUES:
        for draining in (False, True):
            for with_token in (False, True):
                if not ctx.mine():
                    continue
                accept_case(ctx, accept, draining, with_token)
                ctx.extra["accept_matrix_cases"] += 1


def replay(ctx: Ctx, case: dict[str, Any]) -> None:
    ctx.extra.update({"exit_left_live_session": 0, "accept_matrix_cases": 0})
    if case.get("part") == "accept":
        accept_case(ctx, case["accept"], case["draining"], case["with_token"])
        return
    tier = case.get("tier", "quick")
    nviews = 2
    hist = tuple(tuple(e) for e in case["history"])
    w = make_build(nviews)(hist)
    for key, msg in w.findings:
        ctx.fail(key, f"after {list(hist[-1])}: {msg}", case)

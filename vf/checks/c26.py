"""C26 — Sticky sessions are never used concurrently with or after close (E3: schedule exploration).

The REAL sticky stack is driven: a real ``make_wsgi_app(RpcServer, enable_sticky=True)`` Falcon app, real
``_StickyMiddleware`` / ``_SessionRegistry`` / ``_SessionResource`` / ``_ReaperThread.run`` / ``drain_handle``,
real requests issued through ``falcon.testing.TestClient`` (full WSGI stack, real RpcServer dispatch).  Only
two module globals of ``vgi_rpc.http.server._sticky`` are rebound before the app is built:

* ``threading`` -> the cooperative shim, so the registry lock, every per-session RLock and the reaper-start lock
  are scheduler-controlled (each acquire/release is a scheduling point);
* ``time`` -> a virtual clock advanced by an environment event that the explorer places at every position.

The reaper thread is never *started*; a genuine ``_ReaperThread`` object is constructed, its ``_stop`` event is
replaced by a tick source and the real ``run()`` loop is executed as a scheduler task (one or two ticks).
Scheduling points (``sys.settrace`` window): every source line of ``_SessionRegistry.get / close /
drain_expired / shutdown`` (narrow window) or, in the harnesses marked ``w``, additionally every line of the
other registry methods, ``_StickyMiddleware._close_session``, ``process_response``, ``_SessionResource.on_delete``
and ``_ReaperThread.run`` (wide window).  Together with the lock points and the explicit points in the method
bodies / the close hook this puts a yield point between token validation and registry lookup (first line of
``get``), lookup and lock acquisition (``acquire:`` point), lock acquisition and dispatch, inside dispatch,
around ``close_session`` (lock release point, every line of ``registry.close``) and at lock release.  The lines of
the middleware outside the window only touch per-request objects, so the narrow window loses no interleaving
of shared-state operations; the wide window is kept as a cross-check at bound 1.

Tasks on ONE session: 2-3 request threads (``work``: begin, point, end; ``work_close``: begin, point,
``ctx.close_session()``, point, end), one ``DELETE /__session__`` thread, the reaper loop, a clock jump
(below / across the TTL; a separate environment event, or "while the reaper sleeps" = right before its first
sweep) and a ``drain(); shutdown()`` event.  Environment tasks (reaper, clock, shutdown) need not run in an
execution; a switch to one costs 0 or 1 against the preemption bound as stated per harness.

Findings are keyed ``<kind>:<registry path that invoked the close hook>`` so that the lookup->lock window
(``dispatch-after-close:*``), the release-before-remove order in ``_close_session``
(``close-during-dispatch:close/_close_session``) and the lock-less TTL / shutdown eviction
(``close-during-dispatch:{drain_expired/run,get/*,shutdown}``) stay separate.

Monitor (weakest reading of the statement; the session's *close hook* is ``state.close()``):
  (a) at most one request is dispatching against the session at any time.  A request counts as dispatching
      against the session from the first statement of its method body until the body returns or, for
      ``work_close``, until it *calls* ``ctx.close_session()`` (from then on it has handed the session back;
      nothing that happens during or after that call is held against the property on its behalf);
  (b) the close hook runs at most once, and exactly once if the session has left the registry when every
      started task ran to completion;
  (c) the close hook never starts while a request is dispatching against the session in the sense of (a);
  (d) no request body begins after the close hook has started — including a sequential probe request issued
      after the schedule finished;
  (e) no deadlock, no exception escaping a request.
"""

from __future__ import annotations

import sys
from typing import Any, Protocol

from vf.core import sched as S
from vf.core.runner import Ctx, HarnessError

PROPERTY = "C26"
LEVEL = "model_checking"
ENGINE = "E3-SCHED"
SHARDS = {"quick": 8, "thorough": 16}
RULE = (
    "for every harness of a fixed list (quick 25, thorough 69): all schedules within its preemption bound (1, or 2 "
    "for the harnesses marked b2; a switch to an environment task - reaper / clock / shutdown - costs 0 or 1 as "
    "marked e0/e1) of 1-3 real request threads (work | work_close) on ONE sticky session + optional DELETE "
    "/__session__ thread + the real reaper loop (1-2 ticks) + clock jump (ttl-1 | ttl+1; own event or while the "
    "reaper sleeps) + drain();shutdown() event, against a real make_wsgi_app sticky app; scheduling points: every "
    "line of _SessionRegistry.get/close/drain_expired/shutdown (narrow window 'n') or additionally every line of "
    "the other registry methods, _close_session, on_delete, process_response, _ReaperThread.run (wide window 'w'), "
    "every operation on the registry lock and the per-session RLock, and explicit points in the method bodies and "
    "the close hook; non-trivial = schedule with >=1 choice point; a harness label reads "
    "tasks/b<bound>e<env cost><window>"
)
TECHNIQUE = (
    "stateless model checking (CHESS-style preemption bounding) of the real sticky middleware/registry under a "
    "controlled thread scheduler with a virtual clock; event-sequence monitor on dispatch begin/end and close hook"
)
LEVEL_TEXT = (
    "Every interleaving within the preemption bound of the real request, DELETE, reaper, TTL-expiry and shutdown "
    "code paths on one session is executed and judged by a monitor on the session's state object; the property "
    "quantifies over interleavings whose critical windows (lookup->lock, release->remove, expiry during a call) "
    "are a few source lines wide, which free-running tests essentially never hit."
)
LEVEL_NOTE = (
    "Granularity: one source line inside the traced _sticky functions, lock operations elsewhere; code outside "
    "the window (falcon, RpcServer dispatch, token crypto) runs atomically between points. Bounds: <=3 request "
    "threads, one session, <=2 reaper ticks, preemption bound 1 (quick; 2 for three small harnesses) / 2 "
    "(thorough; 1 for the three-request and the widest harnesses)."
)
ASSUMPTIONS = [
    "scheduling granularity is one source line in the traced functions of _sticky.py (narrow window: _SessionRegistry.get/close/drain_expired/shutdown; wide window adds the other registry methods, _close_session, on_delete, process_response, _ReaperThread.run) plus every Lock/RLock operation created by _sticky; bytecode-level races inside a line are not explored",
    "code of _sticky outside the trace window (token open/seal, contextvar installation, header emission) touches no shared session state and is executed atomically",
    "the reaper is modelled by running the real _ReaperThread.run loop as a scheduler task with a tick source in place of Event.wait(tick_seconds); ticks may land at any scheduling point",
    "time is read through the module global `time` of vgi_rpc.http.server._sticky (rebound to a virtual clock)",
    "a request stops counting as 'dispatching against the session' when its body calls ctx.close_session() (weakest reading)",
    "a lock acquire with a timeout would be modelled as timing out only when nothing else can run (the pinned tree uses none)",
]

TTL = 100.0
T0 = 1000.0
KEY = b"c26-fixed-token-key-0123456789ab"[:32]
CLK = S.VClock(T0)


# --------------------------------------------------------------------------------------
# service under test


class Svc(Protocol):
    def open(self) -> int: ...

    def work(self) -> int: ...

    def work_close(self) -> int: ...


def _me() -> str:
    s = S.ACTIVE
    t = s.current() if s is not None else None
    return t.name if t is not None else "main"


def _via() -> str:
    """Which registry path invoked the close hook: '<registry fn>/<its _sticky caller>'."""
    f = sys._getframe(2)
    names: list[str] = []
    while f is not None and len(names) < 3:
        if f.f_code.co_filename.endswith("_sticky.py"):
            names.append(f.f_code.co_name)
        f = f.f_back
    names = [n for n in names if n != "_close_state_suppressed"]
    return "/".join(names[:2]) or "?"


class Sess:
    """The session state object; its methods are the monitor's observation points."""

    def __init__(self, world: dict[str, Any] | None) -> None:
        self.world = world

    def ev(self, *e: Any) -> None:
        w = self.world
        if w is not None and not w["detached"]:
            w["ev"].append(e)

    def close(self) -> None:
        self.ev("close", _me(), _via())
        S.point("close-hook")
        self.ev("closed", _me())


CUR: dict[str, Any] | None = None


class Impl:
    def open(self, ctx: Any) -> int:
        ctx.open_session(Sess(CUR))
        return 1

    def work(self, ctx: Any) -> int:
        st = ctx.session
        if not isinstance(st, Sess):
            raise RuntimeError("dispatch without a session object")
        st.ev("begin", _me())
        S.point("body")
        st.ev("end", _me())
        return 2

    def work_close(self, ctx: Any) -> int:
        st = ctx.session
        if not isinstance(st, Sess):
            raise RuntimeError("dispatch without a session object")
        st.ev("begin", _me())
        S.point("body")
        st.ev("closing", _me())
        ctx.close_session()
        st.ev("released", _me())
        S.point("body2")
        st.ev("end", _me())
        return 3


# --------------------------------------------------------------------------------------
# rig: one real sticky app per process (rebuilt when an execution left it in an unknown state)


class _Tick:
    """Stands in for ``_ReaperThread._stop`` (``wait(tick)`` -> False per tick, then True = stop)."""

    def __init__(self, n: int, jump: float | None = None) -> None:
        self.n = n
        self.k = 0
        self.jump = jump

    def wait(self, timeout: float | None = None) -> bool:
        self.k += 1
        if self.k > self.n:
            return True
        S.point("reaper-tick")
        if self.jump is not None and self.k == 1:
            CLK.advance(self.jump)  # time passed while the reaper slept
        return False

    def set(self) -> None:
        self.k = self.n + 1

    def is_set(self) -> bool:
        return self.k > self.n


class Rig:
    def __init__(self) -> None:
        import falcon.testing

        from vgi_rpc.http import http_connect
        from vgi_rpc.http._testing import _SyncTestClient
        from vgi_rpc.http.server import _sticky, make_wsgi_app
        from vgi_rpc.rpc import RpcServer

        if getattr(_sticky.threading, "Lock", None) is not S.CoopLock:
            _sticky.threading = S.threading_shim()  # type: ignore[attr-defined]
            _sticky.time = CLK  # type: ignore[attr-defined]
        self.sticky = _sticky
        CLK.now = T0
        self.server = RpcServer(Svc, Impl())
        self.app = make_wsgi_app(self.server, enable_sticky=True, sticky_default_ttl=TTL, token_key=KEY)
        self.mw: Any = None
        for group in getattr(self.app, "_middleware", ()):
            for bm in group:
                owner = getattr(bm, "__self__", None)
                if isinstance(owner, _sticky._StickyMiddleware):
                    self.mw = owner
        if self.mw is None:
            raise HarnessError("sticky middleware not found in the app")
        self.registry = self.mw._registry
        if not isinstance(self.registry._lock, S.CoopLock) or not isinstance(self.mw._reaper_lock, S.CoopLock):
            raise HarnessError("registry locks are not cooperative (shim installed too late?)")
        self.handle = _sticky.drain_handle(self.app)
        if self.handle is None:
            raise HarnessError("drain_handle(app) returned None for a sticky app")
        self.new_reaper(0)  # never let a free-running reaper thread start
        self.tc = falcon.testing.TestClient(self.app)
        # capture the wire form of the three calls once through the real client
        cap: dict[str, tuple[bytes, dict[str, str]]] = {}
        inner = _SyncTestClient(self.app)

        class Rec:
            prefix = inner.prefix

            def post(self, url: str, *, content: bytes, headers: dict[str, str]) -> Any:
                cap[url.rsplit("/", 1)[-1]] = (content, {k: v for k, v in headers.items() if k != "VGI-Session"})
                return inner.post(url, content=content, headers=headers)

            def __getattr__(self, n: str) -> Any:
                return getattr(inner, n)

        global CUR
        CUR = None
        with http_connect(Svc, client=Rec()) as proxy, proxy.with_session_token() as view:  # type: ignore[arg-type]
            view.open()
            view.work()
            view.work_close()
        if set(cap) != {"open", "work", "work_close"} or len(self.registry) != 0:
            raise HarnessError(f"request capture failed: {sorted(cap)} live={len(self.registry)}")
        self.cap = cap
        self.tainted = False

    def new_reaper(self, ticks: int, jump: float | None = None) -> Any:
        rt = self.sticky._ReaperThread(self.registry)
        rt.__dict__["_stop"] = _Tick(ticks, jump)
        self.mw._reaper = rt
        return rt

    def post(self, method: str, token: str | None) -> Any:
        body, hdrs = self.cap[method]
        h = dict(hdrs)
        if token is not None:
            h["VGI-Session"] = token
        return self.tc.simulate_post("/" + method, body=body, headers=h)

    def delete(self, token: str) -> Any:
        return self.tc.simulate_delete("/__session__", headers={"VGI-Session": token})


_RIG: Rig | None = None
_LAST: dict[str, Any] | None = None


def rig() -> Rig:
    global _RIG
    if _RIG is None or _RIG.tainted:
        _RIG = Rig()
    return _RIG


def _summ(r: Any) -> tuple[int, bool, bool]:
    return (int(r.status_code), bool(r.headers.get("x-vgi-rpc-error")), r.headers.get("vgi-session-close") == "true")


# --------------------------------------------------------------------------------------
# configurations


def _cfg(reqs: list[str], bound: int, delete: bool = False, ticks: int = 0, adv: float | None = None,
         on_tick: bool = False, shutdown: bool = False, env_cost: int = 0, wide: bool = False) -> dict[str, Any]:
    """One harness.  ``on_tick``: the clock jump happens while the reaper sleeps (right before its first sweep)
    instead of being a separate environment event.  ``env_cost``: what a switch *to* an environment task
    (reaper / clock / shutdown) counts against the preemption bound (0 = free).  ``wide``: wide trace window."""
    return {"reqs": reqs, "delete": delete, "ticks": ticks, "adv": adv, "on_tick": on_tick, "shutdown": shutdown,
            "bound": bound, "env_cost": env_cost, "wide": wide}


W, C = "work", "work_close"
OVER, UNDER = TTL + 1, TTL - 1


def configs(ctx: Ctx) -> list[dict[str, Any]]:
    out: list[dict[str, Any]] = []
    if ctx.quick:
        out += [
            # requests / close_session / DELETE only: bound 1, narrow window
            _cfg([W, W], 1), _cfg([W, C], 1), _cfg([C, W], 1), _cfg([C, C], 1),
            _cfg([W], 1, delete=True), _cfg([C], 1, delete=True), _cfg([W, W], 1, delete=True),
            _cfg([W, C], 1, delete=True),
            # the same two-task harnesses with the wide window
            _cfg([W, C], 1, wide=True), _cfg([W], 1, delete=True, wide=True),
            # release-before-remove inside ctx.close_session() needs two preemptions to put a body under the hook
            _cfg([W, C], 2), _cfg([C, W], 2),
            # TTL expiry: reaper sweep after the clock crossed (one event), clock below the TTL, separate events
            _cfg([W], 1, ticks=1, adv=OVER, on_tick=True, env_cost=1),
            _cfg([W], 1, ticks=1, adv=UNDER, on_tick=True, env_cost=1),
            _cfg([C], 1, ticks=1, adv=OVER, on_tick=True, env_cost=1),
            _cfg([W, W], 1, ticks=1, adv=OVER, on_tick=True, env_cost=1),
            _cfg([W], 1, ticks=2, adv=OVER, on_tick=True, env_cost=1),
            _cfg([W], 1, delete=True, ticks=1, adv=OVER, on_tick=True, env_cost=1),
            # inline expiry inside get(): clock event free, one preemption
            _cfg([W, W], 1, adv=OVER), _cfg([W], 1, delete=True, adv=OVER),
            # drain + shutdown
            _cfg([W], 2, shutdown=True, env_cost=1), _cfg([W, W], 1, shutdown=True, env_cost=1),
            _cfg([W, C], 1, shutdown=True, env_cost=1), _cfg([W], 1, delete=True, shutdown=True, env_cost=1),
            # everything at once, one switch
            _cfg([W], 1, ticks=1, adv=OVER, on_tick=True, shutdown=True, env_cost=1),
        ]
        return out
    two = ([W, W], [W, C], [C, W], [C, C])
    for k, reqs in enumerate(two):
        deep = k < 2  # [W,W] and [W,C] get the expensive bound-2 harnesses, the other two orders bound 1
        out.append(_cfg(reqs, 2))
        out.append(_cfg(reqs, 1, wide=True))
        out.append(_cfg(reqs, 2 if k == 1 else 1, delete=True))
        out.append(_cfg(reqs, 1, delete=True, wide=True))
        out.append(_cfg(reqs, 2 if deep else 1, ticks=1, adv=OVER, on_tick=True, env_cost=1))
        out.append(_cfg(reqs, 2, adv=OVER, env_cost=1))
        out.append(_cfg(reqs, 1, adv=OVER))
        out.append(_cfg(reqs, 2 if k == 1 else 1, shutdown=True, env_cost=1))
    for reqs in ([W], [C]):
        deep = reqs == [W]
        out.append(_cfg(reqs, 2, delete=True))
        if deep:
            out.append(_cfg(reqs, 2, delete=True, wide=True))
            out.append(_cfg(reqs, 1, ticks=2, adv=OVER, on_tick=True))
        out.append(_cfg(reqs, 2, ticks=1, adv=OVER, env_cost=1))
        out.append(_cfg(reqs, 2, ticks=2, adv=OVER, on_tick=True, env_cost=1))
        out.append(_cfg(reqs, 2, ticks=1, adv=UNDER, env_cost=1))
        out.append(_cfg(reqs, 1, shutdown=True))
        out.append(_cfg(reqs, 2, shutdown=True, env_cost=1))
        out.append(_cfg(reqs, 1, delete=True, ticks=1, adv=OVER, on_tick=True, env_cost=1))
        out.append(_cfg(reqs, 2, delete=True, adv=OVER, env_cost=1))
        out.append(_cfg(reqs, 1, delete=True, adv=OVER))
        out.append(_cfg(reqs, 2 if deep else 1, delete=True, shutdown=True, env_cost=1))
        if deep:
            out.append(_cfg(reqs, 2, ticks=1, adv=OVER, on_tick=True, shutdown=True, env_cost=1))
        out.append(_cfg(reqs, 1, delete=True, ticks=1, adv=OVER, on_tick=True, shutdown=True, env_cost=1))
    for reqs in ([W, W, W], [W, W, C], [W, C, W], [C, W, W], [W, C, C]):
        out.append(_cfg(reqs, 1))
        if reqs in ([W, W, W], [W, W, C], [W, C, C]):
            out.append(_cfg(reqs, 1, delete=True))
        if reqs in ([W, W, W], [W, W, C]):
            out.append(_cfg(reqs, 1, ticks=1, adv=OVER, on_tick=True, env_cost=1))
        if reqs == [W, W, C]:
            out.append(_cfg(reqs, 1, shutdown=True, env_cost=1))
    out.append(_cfg([W, W, C], 2))
    return out


def label(cfg: dict[str, Any]) -> str:
    return (
        "+".join(cfg["reqs"]) + ("+DELETE" if cfg["delete"] else "") + (f"+reaper{cfg['ticks']}" if cfg["ticks"] else "")
        + (f"+clock{cfg['adv']:g}{'@tick' if cfg['on_tick'] else ''}" if cfg["adv"] is not None else "")
        + ("+shutdown" if cfg["shutdown"] else "") + f"/b{cfg['bound']}e{cfg['env_cost']}{'w' if cfg['wide'] else 'n'}"
    )


# Measured schedule counts per harness on the unchanged tree; used ONLY to balance the shards (longest-processing-
# time-first assignment).  A wrong or missing number costs wall time, never coverage.
WEIGHT: dict[str, int] = {'work+DELETE+clock101/b1e0n': 1242,
 'work+DELETE+clock101/b2e1n': 2503,
 'work+DELETE+reaper1+clock101@tick+shutdown/b1e1n': 2766,
 'work+DELETE+reaper1+clock101@tick/b1e1n': 327,
 'work+DELETE+reaper1+clock101@tick/b2e1n': 9269,
 'work+DELETE+shutdown/b1e1n': 285,
 'work+DELETE+shutdown/b2e1n': 7151,
 'work+DELETE/b1e0n': 36,
 'work+DELETE/b1e0w': 99,
 'work+DELETE/b2e0n': 473,
 'work+DELETE/b2e0w': 3954,
 'work+reaper1+clock101/b2e1n': 1278,
 'work+reaper1+clock101@tick+shutdown/b2e1n': 3380,
 'work+reaper1+clock101@tick/b1e1n': 31,
 'work+reaper1+clock99/b2e1n': 1278,
 'work+reaper1+clock99@tick/b1e1n': 27,
 'work+reaper2+clock101@tick/b1e0n': 3827,
 'work+reaper2+clock101@tick/b1e1n': 42,
 'work+reaper2+clock101@tick/b2e1n': 584,
 'work+shutdown/b1e0n': 1450,
 'work+shutdown/b2e1n': 230,
 'work+work+DELETE/b1e0n': 362,
 'work+work+DELETE/b1e0w': 944,
 'work+work+DELETE/b2e0n': 11668,
 'work+work+clock101/b1e0n': 820,
 'work+work+clock101/b2e1n': 1648,
 'work+work+reaper1+clock101@tick/b1e1n': 294,
 'work+work+reaper1+clock101@tick/b2e1n': 7522,
 'work+work+shutdown/b1e1n': 250,
 'work+work+shutdown/b2e1n': 5454,
 'work+work+work+DELETE/b1e0n': 4308,
 'work+work+work+reaper1+clock101@tick/b1e1n': 3480,
 'work+work+work+shutdown/b1e1n': 3096,
 'work+work+work/b1e0n': 312,
 'work+work+work/b2e0n': 8604,
 'work+work+work_close+DELETE/b1e0n': 4548,
 'work+work+work_close+reaper1+clock101@tick/b1e1n': 3762,
 'work+work+work_close+shutdown/b1e1n': 3402,
 'work+work+work_close/b1e0n': 370,
 'work+work+work_close/b2e0n': 12218,
 'work+work/b1e0n': 28,
 'work+work/b1e0w': 84,
 'work+reaper1+clock101@tick+shutdown/b1e1n': 200,
 'work+work/b2e0n': 314,
 'work+work_close+DELETE/b1e0n': 402,
 'work+work_close+DELETE/b1e0w': 1026,
 'work+work_close+DELETE/b2e0n': 14492,
 'work+work_close+clock101/b1e0n': 1387,
 'work+work_close+clock101/b2e1n': 2742,
 'work+work_close+reaper1+clock101@tick/b2e1n': 9744,
 'work+work_close+shutdown/b1e1n': 292,
 'work+work_close+shutdown/b2e1n': 7576,
 'work+work_close+work+DELETE/b1e0n': 4548,
 'work+work_close+work+reaper1+clock101@tick/b1e1n': 3762,
 'work+work_close+work+shutdown/b1e1n': 3402,
 'work+work_close+work/b1e0n': 370,
 'work+work_close+work_close+DELETE/b1e0n': 4688,
 'work+work_close+work_close+reaper1+clock101@tick/b1e1n': 3944,
 'work+work_close+work_close+shutdown/b1e1n': 3604,
 'work+work_close+work_close/b1e0n': 408,
 'work+work_close/b1e0n': 38,
 'work+work_close/b1e0w': 107,
 'work+work_close/b2e0n': 536,
 'work_close+DELETE+clock101/b1e0n': 1639,
 'work_close+DELETE+clock101/b2e1n': 3453,
 'work_close+DELETE+reaper1+clock101@tick+shutdown/b1e1n': 2928,
 'work_close+DELETE+reaper1+clock101@tick/b2e1n': 10995,
 'work_close+DELETE+shutdown/b2e1n': 8673,
 'work_close+DELETE/b1e0n': 46,
 'work_close+DELETE/b2e0n': 701,
 'work_close+DELETE/b2e0w': 5332,
 'work_close+reaper1+clock101/b2e1n': 2210,
 'work_close+reaper1+clock101@tick+shutdown/b2e1n': 4658,
 'work_close+reaper1+clock101@tick/b1e1n': 41,
 'work_close+reaper1+clock99/b2e1n': 2462,
 'work_close+reaper2+clock101@tick/b1e0n': 18354,
 'work_close+reaper2+clock101@tick/b2e1n': 852,
 'work_close+shutdown/b1e0n': 5502,
 'work_close+shutdown/b2e1n': 378,
 'work_close+work+DELETE/b1e0n': 402,
 'work_close+work+DELETE/b1e0w': 1026,
 'work_close+work+clock101/b1e0n': 1387,
 'work_close+work+clock101/b2e1n': 2742,
 'work_close+work+reaper1+clock101@tick/b1e1n': 334,
 'work_close+work+shutdown/b1e1n': 292,
 'work_close+work+work+DELETE/b1e0n': 4548,
 'work_close+work+work+reaper1+clock101@tick/b1e1n': 3762,
 'work_close+work+work+shutdown/b1e1n': 3402,
 'work_close+work+work/b1e0n': 370,
 'work_close+work/b1e0n': 38,
 'work_close+work/b1e0w': 107,
 'work_close+work/b2e0n': 536,
 'work_close+work_close+DELETE/b1e0n': 422,
 'work_close+work_close+DELETE/b1e0w': 1062,
 'work_close+work_close+clock101/b1e0n': 1786,
 'work_close+work_close+clock101/b2e1n': 3776,
 'work_close+work_close+reaper1+clock101@tick/b1e1n': 354,
 'work_close+work_close+shutdown/b1e1n': 314,
 'work_close+work_close/b1e0n': 48,
 'work_close+work_close/b1e0w': 130,
 'work_close+work_close/b2e0n': 798}


def assignment(cfgs: list[dict[str, Any]], nshards: int) -> list[int]:
    """Deterministic LPT assignment config index -> shard."""
    wts = [WEIGHT.get(label(c), 1500) for c in cfgs]
    loads = [0] * nshards
    assign = [0] * len(cfgs)
    for i in sorted(range(len(cfgs)), key=lambda i: (-wts[i], i)):
        j = loads.index(min(loads))
        assign[i] = j
        loads[j] += wts[i] + 40  # + fixed per-harness overhead
    return assign


# --------------------------------------------------------------------------------------
# one execution


def make_setup(cfg: dict[str, Any]):
    def setup(s: S.Sched) -> Any:
        global CUR, _LAST
        if _LAST is not None:
            _LAST["detached"] = True
        r = rig()
        if r.registry._lock.owner is not None or r.mw._reaper_lock.owner is not None:
            r.tainted = True
            r = rig()
        r.registry.shutdown()
        r.registry.set_draining(False)
        CLK.now = T0
        world: dict[str, Any] = {"ev": [], "detached": False, "resp": {}, "token": None, "sid": None}
        CUR = _LAST = world
        resp = r.post("open", None)
        token = resp.headers.get("vgi-session")
        if resp.status_code != 200 or not token or len(r.registry._entries) != 1:
            raise HarnessError(f"could not open the session: {resp.status_code} {resp.headers}")
        world["token"] = token
        world["sid"] = next(iter(r.registry._entries))
        world["entry"] = r.registry._entries[world["sid"]]
        if not isinstance(world["entry"].lock, S.CoopRLock):
            raise HarnessError("per-session lock is not cooperative")
        rt = r.new_reaper(cfg["ticks"], cfg["adv"] if cfg["on_tick"] else None)

        def request(name: str, kind: str) -> None:
            world["resp"][name] = _summ(r.post(kind, token))

        def delete() -> None:
            world["resp"]["D"] = _summ(r.delete(token))

        def shutdown() -> None:
            r.handle.drain()
            r.handle.shutdown()

        for i, kind in enumerate(cfg["reqs"]):
            nm = f"R{i}:{kind}"
            s.spawn(lambda nm=nm, kind=kind: request(nm, kind), nm)
        if cfg["delete"]:
            s.spawn(delete, "D")
        if cfg["ticks"]:
            s.spawn(rt.run, "reaper", env=True)
        if cfg["adv"] is not None and not cfg["on_tick"]:
            s.spawn(lambda: CLK.advance(cfg["adv"]), "clock", env=True)
        if cfg["shutdown"]:
            s.spawn(shutdown, "shutdown", env=True)

        def state() -> Any:
            e = world["entry"]
            lo = e.lock.owner
            ro = r.registry._lock.owner
            return (
                tuple(world["ev"]), CLK.now, world["sid"] in r.registry._entries, r.registry._draining,
                getattr(lo, "name", lo), e.lock.count, getattr(ro, "name", ro),
            )

        s.state_fn = state
        return world

    return setup


_F = "http/server/_sticky.py"
NARROW = S.trace_window(
    (_F, "_SessionRegistry.get"), (_F, "_SessionRegistry.close"), (_F, "_SessionRegistry.drain_expired"),
    (_F, "_SessionRegistry.shutdown"),
)
WIDE = S.trace_window(
    (_F, "_SessionRegistry.*"), (_F, "_StickyMiddleware._close_session"), (_F, "_SessionResource.on_delete"),
    (_F, "_StickyMiddleware.process_response"), (_F, "_ReaperThread.run"),
)


def window(cfg: dict[str, Any]) -> Any:
    return WIDE if cfg["wide"] else NARROW


def monitor(ev: list[tuple[Any, ...]]) -> list[tuple[str, str]]:
    """Judge one event sequence; returns [(finding key, text)].

    A request is *dispatching against the session* from its ``begin`` event until its ``end`` event or, for a
    body that calls ``ctx.close_session()``, until the moment of that call (``closing``): from then on it has
    handed the session back and whatever closes the session concurrently is not held against the property.
    """
    out: list[tuple[str, str]] = []
    active: set[str] = set()
    close_via: str | None = None
    closes = 0
    for i, e in enumerate(ev):
        k, who = e[0], e[1]
        if k == "begin":
            if close_via is not None:
                out.append((f"dispatch-after-close:{close_via}", f"{who} began dispatching at event {i} after the close hook (via {close_via}) had started"))
            if active:
                out.append(("concurrent-dispatch", f"{who} began dispatching at event {i} while {sorted(active)} was dispatching against the same session"))
            active.add(who)
        elif k in ("closing", "end"):
            active.discard(who)
        elif k == "close":
            closes += 1
            via = e[2]
            if closes > 1:
                out.append((f"close-hook-twice:{via}", f"close hook ran a second time (by {who} via {via}, first via {close_via}) at event {i}"))
            if active:
                out.append((f"close-during-dispatch:{via}", f"close hook started (by {who} via {via}) at event {i} while {sorted(active)} dispatching against the session"))
            if close_via is None:
                close_via = via
    return out


_JUDGED: set[Any] = set()


def oracle(ctx: Ctx, cfg: dict[str, Any], x: S.Exec) -> Any:
    w = x.world
    r = rig()
    lab = label(cfg)
    rep = {"cfg": cfg, **x.schedule()}
    # the engine's determinism audit re-runs some schedules and judges them again: report / count each schedule once
    sig = (lab, tuple(x.choices))
    first = sig not in _JUDGED
    _JUDGED.add(sig)
    fail = ctx.fail if first else (lambda *a, **k: None)
    aborted = any(t.abort_raised for t in x.tasks)
    incomplete = x.deadlock or x.livelock
    if x.deadlock:
        blocked = [f"{t.name}@{t.label}" for t in x.tasks if not t.done or t.abort_raised]
        fail("deadlock", f"deadlock under {lab}: {blocked}", rep)
    for t in x.tasks:
        if t.exc is not None:
            fail(f"exception:{t.name.split(':')[-1]}:{type(t.exc).__name__}", f"task {t.name} raised {t.exc!r} under {lab}", rep)
    probe = None
    if not incomplete and not aborted and r.registry._lock.owner is None:
        # sequential probe: one more request on the session after the schedule finished (oracle (d), sequential case)
        global CUR
        CUR = w
        w["ev"].append(("probe", "main"))
        probe = _summ(r.post("work", w["token"]))
    ev = list(w["ev"])
    closes = sum(1 for e in ev if e[0] == "close")
    for key, text in monitor(ev):
        fail(key, f"{text}; harness {lab}; events {ev}", rep)
    if not incomplete and not aborted:
        live = w["sid"] in r.registry._entries
        if not live and closes != 1:
            fail("ended-without-close" if closes == 0 else "ended-closed-many", f"session left the registry but the close hook ran {closes} times; harness {lab}; events {ev}", rep)
        if live and closes:
            fail("closed-but-registered", f"close hook ran but the session is still registered; harness {lab}; events {ev}", rep)
        for name, (status, err, _c) in w["resp"].items():
            if name == "D":
                continue
            ran = any(e[0] == "begin" and e[1] == name for e in ev)
            if ran != (status == 200 and not err):
                fail("response-mismatch", f"{name}: body ran={ran} but response status={status} error={err}; harness {lab}", rep)
    w["detached"] = True
    if incomplete or aborted:
        r.tainted = True
    if not first:
        return (tuple(ev), tuple(sorted(w["resp"].items())), probe, x.deadlock)
    ctx.extra["close_hooks"] += closes
    ctx.extra["session_lost_responses"] = ctx.extra.get("session_lost_responses", 0) + sum(1 for n, v in w["resp"].items() if n != "D" and v[1])
    ctx.extra["delete_hits"] = ctx.extra.get("delete_hits", 0) + sum(1 for n, v in w["resp"].items() if n == "D" and v[0] == 204)
    ctx.extra["probe_dispatched"] = ctx.extra.get("probe_dispatched", 0) + (1 if probe is not None and probe[0] == 200 and not probe[1] else 0)
    ctx.extra["dispatches"] += sum(1 for e in ev if e[0] == "begin")
    return (tuple(ev), tuple(sorted(w["resp"].items())), probe, x.deadlock)


def run(ctx: Ctx) -> None:
    ctx.extra.update({"schedules": 0, "max_bound_completed": 0, "configs": 0, "deadlocks": 0, "max_choice_points": 0,
                      "max_steps": 0, "close_hooks": 0, "dispatches": 0, "session_lost_responses": 0, "delete_hits": 0,
                      "probe_dispatched": 0})
    cfgs = configs(ctx)
    assign = assignment(cfgs, ctx.shard[1])
    for i, cfg in enumerate(cfgs):
        if not ctx.mine(assign[i]):
            continue
        _JUDGED.clear()
        st = S.explore(
            ctx, make_setup(cfg), lambda x, cfg=cfg: oracle(ctx, cfg, x), bound=cfg["bound"], label=label(cfg),
            trace=window(cfg), env_cost=cfg["env_cost"],
        )
        ctx.extra["schedules"] += st["schedules"]
        ctx.extra["configs"] += 1
        ctx.extra["deadlocks"] += st["deadlocks"]
        ctx.extra["max_choice_points"] = max(ctx.extra["max_choice_points"], st["max_points"])
        ctx.extra["max_steps"] = max(ctx.extra["max_steps"], st["max_steps"])
        ctx.extra["max_bound_completed"] = max(ctx.extra["max_bound_completed"], st["bound_completed"])
        if st["bound_completed"] < cfg["bound"]:
            ctx.cap(f"bound {cfg['bound']} not completed for {label(cfg)}")


def replay(ctx: Ctx, case: dict[str, Any]) -> None:
    ctx.extra.update({"close_hooks": 0, "dispatches": 0, "session_lost_responses": 0, "delete_hits": 0, "probe_dispatched": 0})
    cfg = case["cfg"]
    _JUDGED.clear()
    x = S.run_one(make_setup(cfg), case["choices"], None, trace=window(cfg), env_cost=cfg["env_cost"])
    oracle(ctx, cfg, x)

"""C41 — Concurrent socket connections are isolated (E3: schedule exploration).

The real ``_serve_socket_threaded`` (``vgi_rpc/rpc/_transport.py``) runs as one scheduled task with the module's
``threading`` rebound to the cooperative shim, so its semaphore, its state lock and the per-connection threads it
starts are all under the scheduler.  It accepts from a fake listening socket (``vf.kit.c41_net``) that hands out
connections as client tasks connect; ``transport_factory`` returns the server end of a cooperative in-memory
transport; every connection is served by the real ``RpcServer.serve`` over the script service.  2-3 client tasks
each connect, run a short call script whose parameters are specific to the connection (unary with logs/errors,
producer streams, exchange streams with per-connection factors, header streams, cancel) through the real client
(``RpcConnection``), and close.  The last client to finish closes the listener, which ends the accept loop.

Scheduling points: connect/accept, semaphore/lock/thread operations of the accept loop and the handlers, every
source line of ``_handle``, and every message burst sent on a transport (one point per burst; a few
configurations use the finer one-point-per-write transport).

Bounding: *delay bounding* (``vf.kit.c41_net.DelaySched``).  The 5-7 tasks block at every message, and the stock
preemption bound leaves switches at blocking points free, which alone is exponential in the number of messages
(the smallest configuration did not finish bound 0 in 40 minutes).  Here the deterministic default scheduler is
"keep running the current task, else the enabled task with the lowest id" and *every* other choice at any choice
point costs 1; bound k enumerates all schedules with at most k deviations.  One deviation is what it takes to
get two connections inside serve() at once or to start a second stream in the middle of the first.

Oracle:
  (iso)   every call's client-visible trace equals the trace the same connection observes when it is the only
          client of a fresh server (differential, measured once per configuration) and is accepted by the
          reference interpreter ``vf.kit.prog.expected`` - so results, logs, headers, stream batches and errors of
          one connection never depend on what other connections do, and no stream state leaks across connections
          (the per-connection scripts have different factors / row counts / messages, so a shared state shows);
  (cap)   with ``max_connections = k`` the number of connections inside ``server.serve`` never exceeds k (measured
          at entry of every ``serve`` call); with ``None`` nothing is queued;
  (live)  every schedule ends with all clients finished, every accepted connection served and closed, the accept
          loop returned: no deadlock (a queued connection is eventually served), no exception in any task.
"""

from __future__ import annotations

import logging
from typing import Any

from vf.core import sched as S
from vf.core.runner import Ctx
from vf.kit import c41_net as N
from vf.kit import prog

PROPERTY = "C41"
LEVEL = "model_checking"
ENGINE = "E3-SCHED"
SHARDS = {"quick": 8, "thorough": 16}
RULE = (
    "all schedules with at most k deviations from the deterministic default scheduler (delay bound k=2 for two "
    "connections, k=1 for three connections and for the per-write 'fine' transport; thorough adds k=2 for two "
    "three-connection configurations) of the real _serve_socket_threaded accept loop + 2-3 client tasks + the handler "
    "threads it starts; each client runs a 1-2 call script from {unary+log, unary error, producer, producer+header, "
    "exchange, exchange error, producer cancelled} with per-connection parameters, or dies in the middle of a request (the "
    "handler's serve() then ends with an exception); max_connections in {None,1,2}; "
    "points at connect/accept, semaphore/lock/thread operations, every line of _handle and every message burst (or "
    "every write in the 'fine' configurations); non-trivial = schedule with >=1 choice point"
)
TECHNIQUE = (
    "stateless model checking of the real threaded socket accept loop and RpcServer.serve under a controlled "
    "thread scheduler (delay-bounded: every deviation from the default scheduler counts), differential oracle against the solo run of every connection plus a "
    "reference interpreter of the call scripts"
)
LEVEL_TEXT = (
    "Every schedule within the delay bound (<=2 deviations from the default scheduler; <=1 for three connections) of the accept loop, 2-3 concurrently connected real clients and the "
    "per-connection server threads is executed against the real code and each connection's full client-visible "
    "trace is compared with its solo trace, while the number of connections inside serve() is checked against "
    "max_connections at every entry; the property quantifies over interleavings, which a free-running test samples."
)
LEVEL_NOTE = (
    "Sockets are replaced by cooperative in-memory channels (the accept loop only uses accept/settimeout/fileno), "
    "the transport handed to serve() is an in-memory RpcTransport (not UnixTransport/TcpTransport), idle_timeout is "
    "None and accept() never times out. Scheduling granularity: message bursts, lock/semaphore/thread operations and "
    "the lines of _handle; code between two transport operations of one connection runs atomically. 2-3 connections, "
    "scripts of 1-2 calls, delay bound 2 (1 for the largest configurations) are the stated bounds; schedules that need more deviations from the default scheduler than the bound are not explored."
)
ASSUMPTIONS = [
    "delay bounding: only schedules with at most k (1-2) deviations from the deterministic default scheduler (run the current task while enabled, else the lowest task id) are enumerated; a switch at a blocking point counts as a deviation unless it goes to the lowest enabled task",
    "sockets are modelled by cooperative in-memory channels; accept() blocks until a client connects or the listener is closed and never raises TimeoutError (idle_timeout=None, where a timeout only re-enters accept)",
    "scheduling granularity: one point per message burst on a transport (per write in the 'fine' configurations), per lock/semaphore/thread operation and per source line of _handle; everything between is atomic",
    "the shared implementation object is the stateless script interpreter (the documentation makes shared implementation state the caller's responsibility)",
]

TRACE = S.trace_window(("rpc/_transport.py", "_serve_socket_threaded.<locals>._handle"))

Call = prog.Call


def script(kind: str, i: int) -> Call:
    """Call *kind* with parameters specific to connection *i*."""
    if kind == "u":
        return Call("unary", {"acts": [["log", "INFO", f"hello-{i}", {"conn": str(i)}], ["ret", 100 + i]]}, x=i)
    if kind == "r":
        return Call("unary", {"acts": [["raise", "BoomError", f"boom-{i}"]]}, x=i)
    if kind == "p":
        return Call("produce", {"steps": [[["emit", 1 + i, None]], [["emit", 1, {"k": f"c{i}"}], ["finish"]]], "out": "is"})
    if kind == "h":
        return Call("produce_h", {"hdr": 7 + i, "steps": [[["log", "INFO", f"s-{i}", {}], ["emit", 2, None]], [["finish"]]]})
    if kind == "e":
        return Call("exch", {"steps": [[["echo", 2 + i, None]], [["log", "INFO", f"x-{i}", {}], ["echo", 5 + i, {"m": str(i)}]]]},
                    inputs=[[i, i + 1], [10 * (i + 1)]])
    if kind == "c":
        return Call("produce", {"steps": [[["emit", 1, None]], [["emit", 2 + i, None]], [["emit", 1, None]]]}, consume=["take", 1, "cancel"])
    if kind == "x":
        return Call("exch", {"steps": [[["echo", 3 + i, None]], [["raise", "ValueError", f"bad-{i}"]]]}, inputs=[[1 + i], [2]])
    raise ValueError(kind)


def configs(ctx: Ctx) -> list[dict[str, Any]]:
    out: list[dict[str, Any]] = []

    def add(clients: list[str], maxc: int | None, bound: int = 2, fine: bool = False) -> None:
        out.append({"clients": clients, "maxc": maxc, "bound": bound, "fine": fine})

    if ctx.quick:
        add(["u", "u"], 1)
        add(["e", "e"], None)
        add(["p", "e"], 1)
        add(["u", "r"], None)
        add(["p", "p"], 2, 1)
        add(["e", "u"], 2, 1)
        add(["h", "x"], None, 1)
        add(["c", "e"], None, 1)
        add(["u", "u", "u"], 2, 1)
        add(["e", "p", "u"], 1, 1)
        add(["e", "e", "e"], None, 1)
        add(["u", "u"], 1, 1, True)
        add(["k", "u", "u"], 1, 1)
        out.sort(key=lambda c: -_weight(c))
        return out
    pairs = [["u", "u"], ["u", "r"], ["p", "p"], ["e", "e"], ["p", "e"], ["e", "u"], ["h", "x"], ["c", "e"], ["c", "c"],
             ["x", "x"], ["up", "e"], ["eu", "ue"]]
    for cl in pairs:
        for maxc in (None, 1):
            add(cl, maxc)
    for cl in (["u", "u"], ["e", "e"], ["p", "e"], ["c", "e"]):
        add(cl, 2)
    for cl in (["u", "u", "u"], ["e", "p", "u"], ["e", "e", "e"], ["p", "p", "p"], ["h", "c", "x"]):
        for maxc in (None, 1, 2):
            add(cl, maxc, 1)
    add(["u", "u", "u"], 2, 2)
    add(["e", "e", "e"], 2, 2)
    for maxc in (1, 2):
        add(["k", "u", "u"], maxc, 1)
        add(["k", "e", "p"], maxc, 1)
    add(["k", "u"], 1, 2)
    for maxc in (None, 1):
        add(["u", "u"], maxc, 1, True)
        add(["e", "e"], maxc, 1, True)
    out.sort(key=lambda c: -_weight(c))
    return out


_W = {"u": 2, "r": 2, "p": 5, "h": 6, "e": 5, "c": 5, "x": 5, "k": 1}


def _weight(cfg: dict[str, Any]) -> int:
    """Rough cost (points ** (bound+1)): heavy configurations first, so round-robin sharding spreads them."""
    pts = sum(22 + sum(_W[k] for k in spec) * (4 if cfg["fine"] else 1) for spec in cfg["clients"])
    return int((pts * len(cfg["clients"])) ** (cfg["bound"] + 1))


def calls_of(cfg: dict[str, Any]) -> list[list[Call]]:
    return [[script(k, i) for k in spec if k != "k"] for i, spec in enumerate(cfg["clients"])]


class Rig:
    """One server + patched module per configuration; per-execution world in ``self.w``."""

    def __init__(self, cfg: dict[str, Any], only: int | None = None) -> None:
        from vgi_rpc.rpc import RpcConnection, RpcServer
        from vgi_rpc.rpc import _transport as T

        self.cfg = cfg
        self.only = only  # solo mode: only this client connects
        self.T = T
        self.RpcConnection = RpcConnection
        self.calls = calls_of(cfg)
        self.w: dict[str, Any] = {}
        rig = self

        class Srv(RpcServer):
            """Counts connections inside the real serve()."""

            def serve(self, transport: Any) -> None:
                w = rig.w
                w["inside"] += 1
                w["served"] += 1
                if w["inside"] > w["max_inside"]:
                    w["max_inside"] = w["inside"]
                try:
                    super().serve(transport)
                finally:
                    w["inside"] -= 1

        self.server = Srv(prog.ScriptSvc, prog.ScriptImpl())

    def setup(self, s: S.Sched) -> Any:
        cfg, T = self.cfg, self.T
        N.RegThread.registry = []
        N.RegThread.seq = 0
        S.CoopThread._count = 0
        prog.EVENTS.clear()
        idxs = [i for i in range(len(cfg["clients"])) if self.only is None or i == self.only]
        w: dict[str, Any] = {
            "inside": 0, "max_inside": 0, "served": 0, "traces": {i: [] for i in idxs}, "done": 0, "factory": 0,
            "transports": [], "loop_returned": False, "listener": N.FakeListener(), "n": len(idxs), "conn_timeouts": [],
        }
        self.w = w
        lst = w["listener"]
        # a fresh server-side binding state is irrelevant here (serve() binds PIPE once); the server is reused

        def factory(conn: Any) -> Any:
            w["factory"] += 1
            w["conn_timeouts"].append(conn.timeout)
            w["transports"].append(conn.server_transport)
            return conn.server_transport

        def accept_loop() -> None:
            old = T.threading
            T.threading = N.shim()
            try:
                T._serve_socket_threaded(self.server, lst, cfg["maxc"], None, factory, "vf-conn")  # type: ignore[arg-type]
                w["loop_returned"] = True
            finally:
                T.threading = old

        def client(i: int) -> None:
            ct, st = N.make_pair(cfg["fine"])
            lst.connect(N.FakeConn(i, st))
            if "k" in cfg["clients"][i]:
                # a client that dies in the middle of a request: the handler's serve() ends with an exception (pyarrow
                # raises a plain OSError for the short message body), which must not disturb the other connections
                from vf.kit import raw as _raw

                data = _raw.frame_request("unary", {"script": ["{}"], "x": [i]})
                ct.writer.write(data[: len(data) - 24])
                ct.writer.flush()
                ct.close()
                S.point(f"closed:{i}")
                w["done"] += 1
                if w["done"] == w["n"]:
                    lst.close()
                return
            tr_all = w["traces"][i]
            cur: dict[str, Any] = {"tr": None}
            proxy = self.RpcConnection(prog.ScriptSvc, ct, lambda m: cur["tr"].append(prog.log_event(m))).__enter__()
            for call in self.calls[i]:
                cur["tr"] = []
                tr_all.append(cur["tr"])
                prog.run_call(proxy, call, cur["tr"])
            ct.close()
            S.point(f"closed:{i}")
            w["done"] += 1
            if w["done"] == w["n"]:
                lst.close()

        s.spawn(accept_loop, "accept")
        for i in idxs:
            s.spawn(lambda i=i: client(i), f"c{i}")

        def state() -> Any:
            return (w["inside"], lst.accepted, w["done"], tuple(sum(len(t) for t in w["traces"][i]) for i in idxs))

        s.state_fn = state
        return w


_SOLO: dict[str, list[Any]] = {}


def solo_traces(ctx: Ctx, cfg: dict[str, Any]) -> list[Any]:
    """Trace of every connection when it is the only client (max_connections unlimited, default schedule)."""
    key = repr(cfg["clients"]) + str(cfg["fine"])
    if key not in _SOLO:
        res = []
        for i in range(len(cfg["clients"])):
            rig = Rig({**cfg, "maxc": None}, only=i)
            with N.delay_bounded():
                x = S.run_one(rig.setup, [], None, trace=TRACE)
            w = x.world
            if x.deadlock or any(t.exc is not None for t in x.tasks) or not w["loop_returned"]:
                ctx.fail(f"solo-failed:{cfg['clients'][i]}", f"connection {i} of {cfg} alone did not complete: deadlock={x.deadlock} "
                         f"excs={[repr(t.exc) for t in x.tasks if t.exc]}", {"cfg": cfg, "solo": i})
            got = w["traces"][i]
            for call, tr in zip(calls_of(cfg)[i], got):
                why = prog.trace_matches(prog.expected(call), tr)
                if why is not None:
                    ctx.fail(f"solo-mismatch:{call.method}", f"solo trace of {call.to_json()} disagrees with the reference interpreter: {why}",
                             {"cfg": cfg, "solo": i})
            res.append(got)
        _SOLO[key] = res
    return _SOLO[key]


def oracle(ctx: Ctx, cfg: dict[str, Any], x: S.Exec, solo: list[Any]) -> Any:
    w = x.world
    rep = {"cfg": cfg, **x.schedule()}
    tag = f"{'+'.join(cfg['clients'])}/max{cfg['maxc']}"
    calls = calls_of(cfg)
    if x.deadlock or x.livelock:
        blocked = [f"{t.name}@{t.label}" for t in x.tasks if t.abort_raised or not t.started]
        ctx.fail(f"deadlock:max{cfg['maxc']}", f"{tag}: deadlock/livelock, unfinished tasks {blocked}", rep)
        return ("deadlock",)
    for t in x.tasks:
        if t.exc is not None:
            ctx.fail(f"exception:{type(t.exc).__name__}:{'client' if t.name.startswith('c') else t.name.split('-')[0]}",
                     f"{tag}: task {t.name} raised {t.exc!r}", rep)
            return ("exception", type(t.exc).__name__)
    # (iso)
    for i, trs in w["traces"].items():
        for j, call in enumerate(calls[i]):
            got = trs[j] if j < len(trs) else None
            if got != solo[i][j]:
                ctx.fail(
                    f"not-isolated:{call.method}:max{cfg['maxc']}",
                    f"{tag}: connection {i} call {j} ({call.method}) observed {got!r} but alone it observes {solo[i][j]!r}",
                    rep,
                )
            elif prog.trace_matches(prog.expected(call), got) is not None:
                ctx.fail(f"reference-mismatch:{call.method}", f"{tag}: connection {i} call {j}: {prog.trace_matches(prog.expected(call), got)}", rep)
    # (cap)
    if cfg["maxc"] is not None and w["max_inside"] > cfg["maxc"]:
        ctx.fail(f"over-capacity:max{cfg['maxc']}", f"{tag}: {w['max_inside']} connections were inside serve() at once with max_connections={cfg['maxc']}", rep)
    # (live)
    n = w["n"]
    if not w["loop_returned"] or w["served"] != n or w["factory"] != n or w["inside"] != 0:
        ctx.fail("accept-loop-incomplete", f"{tag}: loop_returned={w['loop_returned']} served={w['served']} factory={w['factory']} inside={w['inside']} of {n} connections", rep)
    if any(not (getattr(t, "closed", False) or t.hub.wclosed["server"]) for t in w["transports"]):
        ctx.fail("transport-not-closed", f"{tag}: a served connection's transport was left open", rep)
    return (w["max_inside"], tuple(tuple(len(t) for t in w["traces"][i]) for i in sorted(w["traces"])))


def run(ctx: Ctx) -> None:
    logging.getLogger("vgi_rpc").setLevel(logging.CRITICAL + 1)
    ctx.extra.update({"schedules": 0, "max_bound_completed": 0, "configs": 0, "deadlocks": 0, "max_choice_points": 0,
                      "max_steps": 0, "max_inside_serve": 0, "schedules_with_overlap": 0, "schedules_at_capacity": 0,
                      "calls_compared": 0, "config_schedules": []})

    for cfg in configs(ctx):
        if not ctx.mine():
            continue
        label = f"{'+'.join(cfg['clients'])}/max{cfg['maxc']}/b{cfg['bound']}{'/fine' if cfg['fine'] else ''}"
        solo = solo_traces(ctx, cfg)
        rig = Rig(cfg)

        def judged(x: S.Exec, cfg: dict[str, Any] = cfg, solo: list[Any] = solo) -> Any:
            o = oracle(ctx, cfg, x, solo)
            w = x.world
            ctx.extra["max_inside_serve"] = max(ctx.extra["max_inside_serve"], w["max_inside"])
            if w["max_inside"] >= 2:
                ctx.extra["schedules_with_overlap"] += 1
            if cfg["maxc"] is not None and w["max_inside"] == cfg["maxc"]:
                ctx.extra["schedules_at_capacity"] += 1
            ctx.extra["calls_compared"] += sum(len(t) for t in w["traces"].values())
            return o

        with N.delay_bounded():
            st = S.explore(ctx, rig.setup, judged, bound=cfg["bound"], label=label, trace=TRACE)
        ctx.extra["schedules"] += st["schedules"]
        ctx.extra["config_schedules"].append(f"{label}={st['schedules']}")
        ctx.extra["configs"] += 1
        ctx.extra["deadlocks"] += st["deadlocks"]
        ctx.extra["max_choice_points"] = max(ctx.extra["max_choice_points"], st["max_points"])
        ctx.extra["max_steps"] = max(ctx.extra["max_steps"], st["max_steps"])
        ctx.extra["max_bound_completed"] = max(ctx.extra["max_bound_completed"], st["bound_completed"])
        if st["bound_completed"] < cfg["bound"]:
            ctx.cap(f"bound {cfg['bound']} not completed for {label}")


def replay(ctx: Ctx, case: dict[str, Any]) -> None:
    logging.getLogger("vgi_rpc").setLevel(logging.CRITICAL + 1)
    cfg = case["cfg"]
    if "solo" in case:
        _SOLO.clear()
        solo_traces(ctx, cfg)
        return
    solo = solo_traces(ctx, cfg)
    with N.delay_bounded():
        x = S.run_one(Rig(cfg).setup, case["choices"], None, trace=TRACE)
    oracle(ctx, cfg, x, solo)

"""C02 — Parameter and result values round-trip exactly (E1: exhaustive type x boundary-value x transport grid).

One Protocol is synthesised (``exec`` of generated source with real annotation objects in its namespace) that has,
for every supported parameter type ``T``: ``e_T(x: T) -> T`` and ``d_T(x: T = default) -> T`` (the default of an
Optional type is a non-None value, so ``d_T(x=None)`` and ``d_T()`` are distinguishable); and for every
ordered pair ``(A, B)`` of a 10-type representative set: ``p_A_B(a: A, b: B = default) -> A`` and
``q_A_B(a: A, b: B) -> B``.  The implementation records the kwargs it receives and returns the value.  Every method
is called with every value of the per-type boundary set over every transport of the tier through the real client
proxy and the real ``RpcServer`` (mem + http quick; + pipe, unix, shm, tcp, subprocess thorough).

Types (docs: README "Supported types", WIRE_PROTOCOL section 4, the conformance Protocol for the annotated widths):
  int (int64) and ``Annotated[int, ArrowType(..)]`` for int8/16/32/64, uint8/16/32/64; float (float64) and float32;
  str; bytes; bool; Enum (value != name); ``T | None`` of each; list / frozenset of the five scalars; dict with str /
  int keys and the five scalar value types; a nested ArrowSerializableDataclass (and Optional); date32, timestamp[us]
  naive and UTC, time64[us], duration[us], decimal128(20,4) (and Optional); thorough adds bytes/bool dict keys and
  explicit-width containers (list<int8>).

Oracle:
  * representable, well-typed value (MUST-ROUNDTRIP): no exception; the implementation is invoked exactly once with
    kwargs equal to what was passed (omitted defaults = the declared default); the returned value is equal.  Equal is
    type-exact, NaN- and signed-zero-aware; Decimal by numeric value; aware datetimes by instant with zero UTC offset.
    float32 is quantified over float32-representable doubles only.
  * value the declared type cannot represent (MUST-NOT-CHANGE: overflow by one, negative for unsigned, fractional
    float for an integer, None for a non-optional, wrong Python type, excess decimal scale/precision, out-of-range
    duration): an exception at the caller; the implementation is never invoked with a value that is ``!=`` the one
    passed; if no exception is raised the value received and returned must be ``==`` the one passed (weakest reading:
    a coercion that preserves ``==`` — ``True`` for an int, ``1`` for a float — is not a "change").
Never compared: request ids, error text, tracebacks.  After an error a probe call decides whether the connection is
still usable; if not it is reopened (that is C04's property, not this one).
"""

from __future__ import annotations

import dataclasses
import datetime as dt
import itertools
import struct
from decimal import Decimal
from enum import Enum
from typing import Any

PROPERTY = "C02"
LEVEL = "exploration"
ENGINE = "E1-SEQ"
SHARDS = {"quick": 2, "thorough": 8}
TECHNIQUE = "exhaustive enumeration of synthesised echo signatures x per-type boundary values x transports through the real client and server"
RULE = (
    "every one-parameter echo signature (with and without default) over the supported-type table and every ordered "
    "two-parameter signature over a 10-type representative set; every value of the per-type boundary set plus the "
    "per-type non-representable set; every transport of the tier; non-trivial class = (transport, type kind, "
    "value class) of a call that reached the implementation or was rejected"
)
LEVEL_TEXT = (
    "Every (signature, value, transport) triple of the stated finite grid is executed through the real proxy, wire "
    "code and server and judged against equality with the passed value; exhaustive over the grid, which contains every "
    "width boundary and the representative non-representable inputs the property names."
)
LEVEL_NOTE = "Values are the stated boundary sets, not all 2^64 integers; float32 only over float32-representable doubles; subprocess transport observes return values only."
ASSUMPTIONS = [
    "per-type boundary sets stand for 'every value' (min, min+1, -1, 0, 1, max-1, max, overflow by one on each side, NaN, signed zero, infinities, subnormals, empty / non-ASCII / NUL strings, empty / one / many containers, None)",
    "a coercion that keeps Python == (True for an int parameter, 1 for a float parameter) is not counted as a silent change",
    "float32 parameters are exercised only with float32-representable doubles (a double float32 cannot hold is ambiguous in the statement)",
    "kwargs received by the implementation are observed for in-process transports; for the subprocess transport only the returned value",
    "the shm transport runs with the shm size gate at 0 (as VGI_RPC_SHM_MIN_BATCH_BYTES=0) so that the boundary values actually travel through the segment",
]

TRANSPORTS_Q = ["mem", "http"]
TRANSPORTS_T = ["mem", "http", "pipe", "unix", "shm", "tcp", "subprocess"]

LOG: list[Any] = []  # (method, kwargs) appended by the in-process implementation


def f32(x: float) -> float:
    return struct.unpack("<f", struct.pack("<f", x))[0]


class Color(Enum):
    """Value != name; one member's value is another member's name."""

    RED = "GREEN"
    GREEN = "RED"
    BLUE = 3


class Other(Enum):
    RED = 1


UTC = dt.timezone.utc


class TypeSpec:
    def __init__(self, name: str, ann: Any, good: list[Any], bad: list[tuple[str, Any]], kind: str, default: Any = None) -> None:
        self.name, self.ann, self.good, self.bad, self.kind = name, ann, good, bad, kind
        # an Optional parameter gets a NON-None default, so that an explicit None and an omitted argument are different calls
        first = next((g for g in reversed(good) if g is not None), None) if good and good[0] is None else (good[0] if good else None)
        self.default = first if default is None else default


_TABLE: dict[bool, dict[str, TypeSpec]] = {}


def table(thorough: bool) -> dict[str, TypeSpec]:
    """The supported-type table (built lazily: needs pyarrow and vgi_rpc)."""
    if thorough in _TABLE:
        return _TABLE[thorough]
    from typing import Annotated

    import pyarrow as pa

    from vgi_rpc.utils import ArrowSerializableDataclass, ArrowType

    t: dict[str, TypeSpec] = {}

    def add(name: str, ann: Any, good: list[Any], bad: list[tuple[str, Any]], kind: str, optional: bool = True) -> None:
        t[name] = TypeSpec(name, ann, good, bad + [("none", None)], kind)
        if optional:
            t["o_" + name] = TypeSpec("o_" + name, ann | None, [None] + good[: 4 if thorough else 3], bad[: 3 if thorough else 2], "opt-" + kind)

    wrong_num = [("str", "1"), ("frac-float", 1.5), ("bytes", b"1"), ("list", [1])]
    for nm, at, lo, hi in [
        ("int", None, -(2**63), 2**63 - 1), ("i8", pa.int8(), -128, 127), ("i16", pa.int16(), -(2**15), 2**15 - 1),
        ("i32", pa.int32(), -(2**31), 2**31 - 1), ("i64", pa.int64(), -(2**63), 2**63 - 1), ("u8", pa.uint8(), 0, 255),
        ("u16", pa.uint16(), 0, 2**16 - 1), ("u32", pa.uint32(), 0, 2**32 - 1), ("u64", pa.uint64(), 0, 2**64 - 1),
    ]:  # fmt: skip
        ann = int if at is None else Annotated[int, ArrowType(at)]
        good = sorted({lo, lo + 1, 0, 1, hi - 1, hi} | ({-1} if lo < 0 else set()) | ({2**63 - 1, 2**63} if nm == "u64" else set()))
        bad = [("over", hi + 1), ("under", lo - 1), ("far-over", hi * 2 + 2)] + ([("negative", -1)] if lo == 0 else []) + wrong_num
        add(nm, ann, good, bad, "int")
    add("float", float, [-0.0, 0.0, 1.5, float("nan"), float("inf"), float("-inf"), 5e-324, 1.7976931348623157e308, 0.1, -2.5e-7],
        [("str", "1.0"), ("bytes", b"1"), ("big-int", 2**53 + 1), ("list", [1.0])], "float")  # fmt: skip
    add("f32", Annotated[float, ArrowType(pa.float32())],
        [-0.0, 0.0, 1.5, float("nan"), float("inf"), float("-inf"), f32(3.4028234663852886e38), f32(1.401298464324817e-45), f32(0.1)],
        [("str", "1.0"), ("list", [1.0])], "float")  # fmt: skip
    add("str", str, ["", "a", "é∑😀", "a\x00b", "x" * 5000, " \t\n"], [("int", 1), ("float", 1.5), ("lone-surrogate", "\ud800"), ("list", ["a"])], "str")
    add("bytes", bytes, [b"", b"\x00", b"\xff\xfe", b"z" * 5000], [("int", 1), ("list", [b"a"])], "bytes")
    add("bool", bool, [True, False], [("str", "true"), ("int2", 2), ("list", [True])], "bool")
    add("enum", Color, [Color.RED, Color.GREEN, Color.BLUE], [("int", 3), ("str-not-a-name", "PURPLE"), ("other-enum-same-name", Other.RED)], "enum")

    scal = {"int": [0, -1, 2**63 - 1, -(2**63)], "float": [-0.0, 1.5, float("nan"), float("-inf")], "str": ["", "é∑😀", "a\x00b"],
            "bytes": [b"", b"\x00\xff", b"q"], "bool": [True, False]}  # fmt: skip
    py = {"int": int, "float": float, "str": str, "bytes": bytes, "bool": bool}
    wrong_elem = {"int": "x", "float": "x", "str": 1, "bytes": 1, "bool": "x"}
    for s, vs in scal.items():
        add("l_" + s, list[py[s]], [[], [vs[0]], list(vs), [vs[1], vs[1], vs[0]]], [("scalar", vs[1]), ("wrong-elem", [wrong_elem[s]])], "list", optional=thorough or s in ("int", "str"))  # type: ignore[misc]
        add("s_" + s, frozenset[py[s]], [frozenset(), frozenset([vs[0]]), frozenset(vs)], [("scalar", vs[1]), ("wrong-elem", frozenset([wrong_elem[s]]))], "set", optional=thorough or s == "str")  # type: ignore[misc]
    keys = ["str", "int"] + (["bytes", "bool"] if thorough else [])
    for k in keys:
        for s, vs in scal.items():
            ks = scal[k]
            good = [{}, {ks[1]: vs[0]}, {ks[i % len(ks)]: vs[(i + 1) % len(vs)] for i in range(min(len(ks), 3))}]
            add(f"m_{k}_{s}", dict[py[k], py[s]], good, [("scalar", vs[1]), ("wrong-value", {ks[0]: wrong_elem[s]})], "map", optional=thorough or (k, s) == ("str", "int"))  # type: ignore[misc]

    # real annotation objects (this module postpones annotation evaluation, the framework must see the types)
    Pt = dataclasses.dataclass(frozen=True)(type("Pt", (ArrowSerializableDataclass,), {
        "__annotations__": {"x": int, "y": float, "name": str, "tags": list[str], "c": Color | None, "w": Annotated[int, ArrowType(pa.uint8())]},
        "name": "p", "tags": dataclasses.field(default_factory=list), "c": None, "w": 0, "__module__": __name__,
    }))  # fmt: skip
    NotPt = dataclasses.dataclass(frozen=True)(type("NotPt", (ArrowSerializableDataclass,), {"__annotations__": {"q": str}, "__module__": __name__}))
    add("dc", Pt, [Pt(0, -0.0), Pt(2**63 - 1, float("nan"), "é", ["", "t"], Color.GREEN, 255), Pt(-(2**63), 1.5, "", [], None, 1)],
        [("other-dataclass", NotPt("z")), ("dict", {"x": 1, "y": 2.0}), ("field-overflow", Pt(1, 1.0, w=256)), ("field-wrong-type", Pt("1", 1.0)), ("int", 5)], "dataclass")  # type: ignore[arg-type]  # fmt: skip

    D, T, TD = dt.date, dt.datetime, dt.timedelta
    add("date", Annotated[D, ArrowType(pa.date32())], [D(1970, 1, 1), D.min, D.max, D(1969, 12, 31), D(2024, 2, 29)], [("str", "2024-01-01"), ("float", 1.5)], "temporal")
    add("ts", Annotated[T, ArrowType(pa.timestamp("us"))], [T(1970, 1, 1), T.min, T.max, T(1969, 12, 31, 23, 59, 59, 999999), T(2024, 2, 29, 12, 0, 0, 1)],
        [("str", "2024-01-01T00:00:00"), ("float", 1.5)], "temporal")  # fmt: skip
    add("tsz", Annotated[T, ArrowType(pa.timestamp("us", tz="UTC"))],
        [T(1970, 1, 1, tzinfo=UTC), T(1, 1, 1, tzinfo=UTC), T.max.replace(tzinfo=UTC), T(2024, 2, 29, 12, 0, 0, 1, tzinfo=UTC)],
        [("str", "2024-01-01T00:00:00Z"), ("float", 1.5)], "temporal")  # fmt: skip
    add("time", Annotated[dt.time, ArrowType(pa.time64("us"))], [dt.time.min, dt.time.max, dt.time(12, 0, 0, 1)], [("str", "12:00"), ("float", 1.5)], "temporal")
    mx = 2**63 - 1
    add("dur", Annotated[TD, ArrowType(pa.duration("us"))],
        [TD(0), TD(microseconds=1), TD(microseconds=-1), TD(days=-1, microseconds=1), TD(microseconds=mx), TD(days=-106751991)],
        # the last negative day before -2**63 us is int64-representable, but pyarrow's Python->duration conversion
        # overflows in an intermediate there and raises: judged as "must raise or stay equal", not as must-roundtrip
        [("over", TD(microseconds=mx + 1)), ("timedelta-max", TD.max), ("neg-extreme", TD(microseconds=-mx)), ("str", "1s"), ("float", 1.5)], "temporal")  # fmt: skip
    add("dec", Annotated[Decimal, ArrowType(pa.decimal128(20, 4))],
        [Decimal("0"), Decimal("1.5"), Decimal("-1.0001"), Decimal("9999999999999999.9999"), Decimal("-9999999999999999.9999"), Decimal("1.50"), Decimal("-0.0")],
        [("excess-scale", Decimal("1.00001")), ("excess-precision", Decimal("10000000000000000")), ("nan", Decimal("NaN")), ("str", "1.5"), ("frac-float", 1.5)], "decimal")  # fmt: skip
    if thorough:
        add("l_i8", Annotated[list[int], ArrowType(pa.list_(pa.int8()))], [[], [-128, 127, 0]], [("elem-over", [128]), ("elem-under", [1, -129])], "list")
        add("m_str_u8", Annotated[dict[str, int], ArrowType(pa.map_(pa.string(), pa.uint8()))], [{}, {"a": 255, "": 0}], [("value-negative", {"a": -1}), ("value-over", {"a": 256})], "map")
        add("l_dec", Annotated[list[Decimal], ArrowType(pa.list_(pa.decimal128(20, 4)))], [[], [Decimal("1.5"), Decimal("-0.0001")]], [("elem-excess-scale", [Decimal("0.00001")])], "list")
    _TABLE[thorough] = t
    return t


PAIR_SET = ["int", "u8", "float", "str", "bytes", "bool", "enum", "o_int", "l_str", "dc"]


def build_protocol(thorough: bool) -> tuple[Any, Any, dict[str, tuple[str, ...]]]:
    """-> (Protocol class, implementation instance, {method: kind descriptor})."""
    from typing import Protocol

    tab = {k: v for k, v in table(thorough).items() if not k.startswith("_")}
    ns: dict[str, Any] = {"Protocol": Protocol, "LOG": LOG}
    proto = ["class EchoAll(Protocol):", '    """Synthesised echo service."""']
    impl = ["class EchoImpl:"]
    methods: dict[str, tuple[str, ...]] = {}
    for n, ts in tab.items():
        ns[f"T_{n}"] = ts.ann
        ns[f"D_{n}"] = ts.default
        proto += [f"    def e_{n}(self, x: T_{n}) -> T_{n}: ...", f"    def d_{n}(self, x: T_{n} = D_{n}) -> T_{n}: ..."]
        impl += [f"    def e_{n}(self, x):\n        LOG.append(('e_{n}', {{'x': x}}))\n        return x",
                 f"    def d_{n}(self, x):\n        LOG.append(('d_{n}', {{'x': x}}))\n        return x"]  # fmt: skip
        methods[f"e_{n}"] = ("e", n)
        methods[f"d_{n}"] = ("d", n)
    for a, b in itertools.product(PAIR_SET, PAIR_SET):
        proto += [f"    def p_{a}_{b}(self, a: T_{a}, b: T_{b} = D_{b}) -> T_{a}: ...", f"    def q_{a}_{b}(self, a: T_{a}, b: T_{b}) -> T_{b}: ..."]
        impl += [f"    def p_{a}_{b}(self, a, b):\n        LOG.append(('p_{a}_{b}', {{'a': a, 'b': b}}))\n        return a",
                 f"    def q_{a}_{b}(self, a, b):\n        LOG.append(('q_{a}_{b}', {{'a': a, 'b': b}}))\n        return b"]  # fmt: skip
        methods[f"p_{a}_{b}"] = ("p", a, b)
        methods[f"q_{a}_{b}"] = ("q", a, b)
    src = "\n".join(proto) + "\n\n" + "\n".join(impl) + "\n"
    code = compile(src, "<c02-synth>", "exec", dont_inherit=True)  # real annotation objects, no postponed evaluation
    exec(code, ns)
    return ns["EchoAll"], ns["EchoImpl"](), methods


# --------------------------------------------------------------------------------------- equality


def canon(v: Any) -> Any:
    if v is None:
        return ("none",)
    t = type(v)
    if t is bool:
        return ("bool", v)
    if t is int:
        return ("int", v)
    if t is float:
        return ("float", "nan" if v != v else v.hex())
    if t is str:
        return ("str", v)
    if t is bytes:
        return ("bytes", v)
    if isinstance(v, Enum):
        return ("enum", t.__name__, v.name)
    if t is list:
        return ("list", tuple(canon(e) for e in v))
    if t is tuple:
        return ("tuple", tuple(canon(e) for e in v))
    if t is frozenset or t is set:
        return (t.__name__, tuple(sorted(canon(e) for e in v)))
    if t is dict:
        return ("dict", tuple(sorted((canon(k), canon(x)) for k, x in v.items())))
    if isinstance(v, Decimal):
        return ("decimal", "nan" if v.is_nan() else str(v.normalize() + 0))
    if t is dt.datetime:
        if v.tzinfo is None:
            return ("datetime", v.isoformat())
        return ("datetime-aware", v.astimezone(UTC).isoformat(), v.utcoffset() == dt.timedelta(0))
    if t is dt.date:
        return ("date", v.isoformat())
    if t is dt.time:
        return ("time", v.isoformat(), v.tzinfo is None)
    if t is dt.timedelta:
        return ("timedelta", v.days, v.seconds, v.microseconds)
    if dataclasses.is_dataclass(v):
        return ("dc", t.__name__, tuple((f.name, canon(getattr(v, f.name))) for f in dataclasses.fields(v)))
    return ("other", t.__name__, repr(v))


def loose_eq(a: Any, b: Any) -> bool:
    """Python == made NaN-aware: the weakest notion of 'not changed'."""
    try:
        if type(a) is type(b) and canon(a) == canon(b):
            return True
        return bool(a == b)
    except Exception:
        return False


def base_name(tname: str) -> str:
    """Type name used in finding keys.  ``o_dc`` stays (Optional[dataclass] has its own schema path); other Optionals
    share the code path of their base type."""
    return ",".join(n if n == "o_dc" or not n.startswith("o_") else n[2:] for n in tname.split(","))


def vclass(v: Any) -> str:
    if v is None:
        return "none"
    if isinstance(v, float) and v != v:
        return "nan"
    if isinstance(v, (list, dict, frozenset, str, bytes)) and len(v) == 0:
        return "empty"
    return type(v).__name__


# --------------------------------------------------------------------------------------- driver


class Driver:
    """One open connection per transport, reopened when a failed call leaves it unusable."""

    def __init__(self, ctx: Any, kind: str, thorough: bool) -> None:
        self.ctx, self.kind, self.thorough = ctx, kind, thorough
        self.proto, self.impl, self.methods = build_protocol(thorough)
        self.conn: Any = None
        self.observes = kind != "subprocess"
        self._shm_min: int | None = None

    def open(self) -> None:
        from vf.kit.transports import Conn

        kw: dict[str, Any] = {}
        if self.kind == "subprocess":
            import os

            os.environ["C02_TIER"] = "thorough" if self.thorough else "quick"
            kw["worker_module"] = "vf.kit.c02_worker"
        if self.kind == "shm":
            # route every batch through the segment (same as VGI_RPC_SHM_MIN_BATCH_BYTES=0); with the 128 KiB default
            # none of the boundary values would ever leave the pipe
            import vgi_rpc.shm as shm_mod

            if self._shm_min is None:
                self._shm_min = shm_mod.SHM_MIN_BATCH_BYTES
            shm_mod.SHM_MIN_BATCH_BYTES = 0
        self.conn = Conn(self.kind, protocol=self.proto, impl=self.impl, on_log=None, **kw)
        self.conn.__enter__()

    def close(self) -> None:
        if self._shm_min is not None:
            import vgi_rpc.shm as shm_mod

            shm_mod.SHM_MIN_BATCH_BYTES = self._shm_min
            self._shm_min = None
        if self.conn is not None:
            try:
                self.conn.__exit__(None, None, None)
            except Exception:
                pass
            self.conn = None

    def call(self, method: str, kwargs: dict[str, Any]) -> tuple[str, Any, list[Any]]:
        """-> ("ok", result, invocations) | ("raised", exception, invocations)."""
        if self.conn is None:
            self.open()
        del LOG[:]
        x = self.ctx.extra
        x["calls"] = x.get("calls", 0) + 1
        try:
            res = getattr(self.conn.proxy, method)(**kwargs)
            x["impl_invocations_observed"] = x.get("impl_invocations_observed", 0) + len(LOG)
            return "ok", res, list(LOG)
        except BaseException as e:  # noqa: BLE001 - every caller-side error is an observation
            if isinstance(e, (KeyboardInterrupt, SystemExit)):
                raise
            inv = list(LOG)
            x["caller_side_errors"] = x.get("caller_side_errors", 0) + 1
            x["impl_invocations_observed"] = x.get("impl_invocations_observed", 0) + len(inv)
            # is the connection still usable?  (C04's business; we only need to carry on)
            try:
                del LOG[:]
                if self.conn.proxy.e_int(x=41) != 41:
                    raise RuntimeError("probe mismatch")
            except BaseException as e2:  # noqa: BLE001
                if isinstance(e2, (KeyboardInterrupt, SystemExit)):
                    raise
                self.ctx.extra["reconnects"] = self.ctx.extra.get("reconnects", 0) + 1
                self.close()
            return "raised", e, inv


def exc_name(e: BaseException) -> str:
    from vgi_rpc.rpc import RpcError

    if isinstance(e, RpcError):
        return f"RpcError({e.error_type})"
    return type(e).__name__


def judge_good(ctx: Any, drv: Driver, method: str, kwargs: dict[str, Any], expect_kwargs: dict[str, Any], expect_result: Any,
               tname: str, case: Any, base: Driver | None) -> str:  # fmt: skip
    st, res, inv = drv.call(method, kwargs)
    what = None
    bad: list[str] = []
    if st == "raised":
        what = f"raised-{exc_name(res)}"
        msg = f"{method}({kwargs!r:.200}) raised {res!r:.300}"
    elif drv.observes and len(inv) != 1:
        what = "invocations"
        msg = f"{method}({kwargs!r:.200}) invoked the implementation {len(inv)} times"
    elif drv.observes and (inv[0][0] != method or canon(inv[0][1]) != canon(expect_kwargs)):
        bad = [k for k in expect_kwargs if canon(inv[0][1].get(k)) != canon(expect_kwargs[k])]
        what = "param-changed"
        msg = f"{method}: implementation received {({k: inv[0][1].get(k) for k in bad})!r:.300}, caller passed {({k: expect_kwargs[k] for k in bad})!r:.300}"
    elif canon(res) != canon(expect_result):
        what = "result-changed"
        msg = f"{method}({kwargs!r:.200}) returned {res!r:.300}, expected {expect_result!r:.300}"
    if what is None:
        return "ok"
    where = ""
    if base is not None and base is not drv:
        if judge_quiet(base, method, kwargs, expect_kwargs, expect_result):
            where = f"@{drv.kind}"  # transport-specific: the in-memory transport handles the same call correctly
    # name the parameter type(s) at fault, not the whole signature: one root cause, one key
    names = tname.split(",")
    ptype = {"x": names[0], "a": names[0], "b": names[-1]}
    if what == "param-changed":
        culprits = [(ptype[k], expect_kwargs[k]) for k in bad]
    elif what == "result-changed":
        culprits = [(names[-1] if method[0] == "q" else names[0], expect_result)]
    elif len(names) == 1:
        culprits = [(names[0], expect_kwargs.get("x"))]
    else:
        # a two-parameter call raised: which parameter fails on its own?
        culprits = [(ptype[k], v) for k, v in expect_kwargs.items() if not judge_quiet(drv, f"e_{ptype[k]}", {"x": v}, {"x": v}, v)]
        if not culprits:
            ctx.fail(f"roundtrip:pair({base_name(tname)}):raised{where}", f"[{drv.kind}] {msg} (each parameter alone round-trips)", case)
    what_key = "raised" if what.startswith("raised-") else what
    for tn, v in culprits:
        ctx.fail(f"roundtrip:{base_name(tn)}:{what_key}:{vclass(v)}{where}", f"[{drv.kind}] {msg}", case)
    return what


def judge_quiet(drv: Driver, method: str, kwargs: dict[str, Any], expect_kwargs: dict[str, Any], expect_result: Any) -> bool:
    st, res, inv = drv.call(method, kwargs)
    return st == "ok" and (not drv.observes or (len(inv) == 1 and canon(inv[0][1]) == canon(expect_kwargs))) and canon(res) == canon(expect_result)


def judge_bad(ctx: Any, drv: Driver, method: str, tname: str, label: str, param: str, kwargs: dict[str, Any], case: Any) -> str:
    sent = kwargs[param]
    st, res, inv = drv.call(method, kwargs)
    out = "rejected" if st == "raised" else "accepted-equal"
    for m, kw in inv:
        if m == method and not loose_eq(kw.get(param), sent):
            ctx.fail(f"unrepresentable:{base_name(tname)}<-{label}:changed",
                     f"[{drv.kind}] {method}({param}={sent!r:.120}): the implementation was invoked with {kw.get(param)!r:.120}" + (f" and the caller then saw {res!r:.200}" if st == "raised" else ""), case)  # fmt: skip
            return "invoked-changed"
    if st == "ok" and label == "none":
        # None is the one non-representable input that can travel unchanged: the statement wants it *rejected*
        ctx.fail(f"unrepresentable:{base_name(tname)}<-none:accepted", f"[{drv.kind}] {method}({param}=None) on a non-optional parameter was accepted and returned {res!r:.120}", case)
        return "none-accepted"
    if st == "ok":
        # no error: then nothing may have changed (result of e_/d_/p_ is the parameter itself)
        if method[0] in "edp" and param in ("x", "a") and not loose_eq(res, sent):
            ctx.fail(f"unrepresentable:{base_name(tname)}<-{label}:changed", f"[{drv.kind}] {method}({param}={sent!r:.120}) returned {res!r:.120} without an error", case)
            return "returned-changed"
        if not drv.observes and not loose_eq(res, sent):
            return "returned-changed"
    return out


def cases(thorough: bool) -> list[Any]:
    """Top-level enumeration items: (transport, method-group)."""
    tab = [k for k in table(thorough) if not k.startswith("_")]
    out: list[Any] = []
    for tr in TRANSPORTS_T if thorough else TRANSPORTS_Q:
        for n in tab:
            out.append([tr, "single", n])
        for a in PAIR_SET:
            out.append([tr, "pairs", a])
    return out


def run_item(ctx: Any, drivers: dict[str, Driver], item: Any, only: int | None = None) -> None:
    tr, group, n = item
    thorough = ctx.thorough
    tab = table(thorough)
    if tr not in drivers:
        drivers[tr] = Driver(ctx, tr, thorough)
    if "mem" not in drivers:
        drivers["mem"] = Driver(ctx, "mem", thorough)
    drv, base = drivers[tr], drivers["mem"]
    idx = 0

    def want(i: int) -> bool:
        return only is None or only == i

    if group == "single":
        ts = tab[n]
        for v in ts.good:
            for meth in (f"e_{n}", f"d_{n}"):
                if want(idx):
                    out = judge_good(ctx, drv, meth, {"x": v}, {"x": v}, v, n, {"item": item, "i": idx}, base)
                    ctx.case(sample=None if ctx.evaluations % 97 else {"transport": tr, "call": f"{meth}(x={v!r:.60})", "outcome": out}, nontrivial=(tr, ts.kind, vclass(v)), outcome=(tr, "good", out))
                idx += 1
        if want(idx):
            out = judge_good(ctx, drv, f"d_{n}", {}, {"x": ts.default}, ts.default, n, {"item": item, "i": idx}, base)
            ctx.case(sample=None if ctx.evaluations % 97 else {"transport": tr, "call": f"d_{n}() default {ts.default!r:.60}", "outcome": out}, nontrivial=(tr, ts.kind, "default"), outcome=(tr, "default", out))
        idx += 1
        for label, v in ts.bad:
            if label == "none" and n.startswith("o_"):
                continue
            if want(idx):
                out = judge_bad(ctx, drv, f"e_{n}", n, label, "x", {"x": v}, {"item": item, "i": idx})
                ctx.case(sample=None if ctx.evaluations % 97 else {"transport": tr, "call": f"e_{n}(x={v!r:.60}) [{label}]", "outcome": out}, nontrivial=(tr, ts.kind, "bad-" + label), outcome=(tr, "bad", out))
            idx += 1
            if label == "none":
                # an explicit None for a defaulted NON-optional parameter is not "argument omitted"
                if want(idx):
                    out = judge_bad(ctx, drv, f"d_{n}", n, "none-with-default", "x", {"x": v}, {"item": item, "i": idx})
                    ctx.case(nontrivial=(tr, ts.kind, "bad-none-with-default"), outcome=(tr, "bad", out))
                idx += 1
    else:
        ta = tab[n]
        for b in PAIR_SET:
            tb = tab[b]
            va, vb = ta.good[:3], tb.good[:3]
            for i, j in itertools.product(range(len(va)), range(len(vb))):
                x, y = va[i], vb[len(vb) - 1 - j]
                if want(idx):
                    o1 = judge_good(ctx, drv, f"p_{n}_{b}", {"a": x, "b": y}, {"a": x, "b": y}, x, f"{n},{b}", {"item": item, "i": idx}, base)
                    o2 = judge_good(ctx, drv, f"q_{n}_{b}", {"b": y, "a": x}, {"a": x, "b": y}, y, f"{n},{b}", {"item": item, "i": idx}, base)
                    ctx.case(sample=None if ctx.evaluations % 97 else {"transport": tr, "call": f"p/q_{n}_{b}(a={x!r:.40}, b={y!r:.40})", "outcome": [o1, o2]}, nontrivial=(tr, "pair", ta.kind, tb.kind), outcome=(tr, "pair", o1, o2))
                idx += 1
            for i in range(len(va)):
                if want(idx):
                    o = judge_good(ctx, drv, f"p_{n}_{b}", {"a": va[i]}, {"a": va[i], "b": tb.default}, va[i], f"{n},{b}", {"item": item, "i": idx}, base)
                    ctx.case(nontrivial=(tr, "pair-default", ta.kind, tb.kind), outcome=(tr, "pair-default", o))
                idx += 1
            # one non-representable argument next to a representable one: nothing may reach the implementation changed
            for label, v in [*ta.bad[:2], *[x for x in ta.bad[2:] if x[0] == "none"]]:
                if label == "none" and n.startswith("o_"):
                    continue
                if want(idx):
                    o = judge_bad(ctx, drv, f"p_{n}_{b}", n, label, "a", {"a": v, "b": vb[0]}, {"item": item, "i": idx})
                    ctx.case(nontrivial=(tr, "pair-bad", ta.kind, label), outcome=(tr, "pair-bad", o))
                idx += 1
                if want(idx):  # q_ returns the *other* parameter: an accepted bad value cannot hide behind result validation
                    o = judge_bad(ctx, drv, f"q_{n}_{b}", n, label, "a", {"a": v, "b": vb[0]}, {"item": item, "i": idx})
                    ctx.case(nontrivial=(tr, "pair-bad-q", ta.kind, label), outcome=(tr, "pair-bad-q", o))
                idx += 1


def run(ctx: Any) -> None:
    drivers: dict[str, Driver] = {}
    ctx.extra.setdefault("reconnects", 0)
    try:
        for item in cases(ctx.thorough):
            if not ctx.mine():
                continue
            run_item(ctx, drivers, item)
    finally:
        for d in drivers.values():
            d.close()


def replay(ctx: Any, case: dict[str, Any]) -> None:
    drivers: dict[str, Driver] = {}
    try:
        run_item(ctx, drivers, case["item"], case.get("i"))
    finally:
        for d in drivers.values():
            d.close()

"""C38 — HTTP retries are bounded and never duplicate non-idempotent calls (E1: fault-sequence enumeration).

Seams (all real code, nothing re-implemented):

* part A — ``vgi_rpc.http._retry._post_with_retry`` / ``_options_with_retry`` driven with an outcome-scripted
  client, the injectable ``_sleep=`` recorder and ``random`` in the ``_retry`` namespace rebound to a
  deterministic object whose ``uniform`` returns the low end / the high end / the midpoint.
* part A2 — the same entry points through a real ``httpx2.Client`` whose *transport* is scripted (real
  exception classes, real ``httpx2.Headers``).
* part B — real ``HttpStreamSession.exchange`` / ``cancel`` / ``next_with_token`` over a real ``httpx2.Client``
  with a scripted transport.  The 413 fallback really runs (OPTIONS probe, ``__upload_url__/init``, PUT), those
  auxiliary requests are answered by the transport according to an "aux mode"; only POSTs to
  ``{prefix}/{method}/exchange`` are the scripted/counted requests.

* part C — real typed proxy calls (``http_connect(...).echo()`` unary, ``.produce()`` stream init) over the same
  scripted transport: a call may consist of up to three retried requests (original, one re-encode after a 415
  that names the server codecs, one externalised re-send after a 413); each obeys (i)-(ii).

The fault sequence is enumerated *lazily*: a run that asks for an outcome beyond the scripted prefix is aborted
(``NeedMore``), judged at that very moment (was this additional send allowed?) and — if allowed — the prefix is
extended by every symbol of the alphabet.  Behaviour can only depend on consumed outcomes, so this covers every
sequence of length <= max_retries+2 over the alphabet without executing unconsumed suffixes.

Oracle (weakest reading of the statement; it is a pure *safety* statement — nothing obliges the client to retry):
  (i)   a request that goes through the retry helper is sent at most ``max_retries+1`` times (once when no retry
        configuration is given);
  (ii)  every re-send directly follows an outcome that justifies it: a status in the configured
        ``retryable_status_codes``; or — only when ``retry_on_connection_error`` is on — a connect error, a timeout,
        or the disconnect-before-any-response-byte protocol error.  Network errors whose position relative to the
        response is not determined by the statement (read/write/close/proxy/OS-level errors, the HTTP/2 "Server
        disconnected") MAY be retried under the same switch (either behaviour accepted).  Any other exception
        (protocol error after bytes were flowing, local protocol error, decoding error, programming errors) and
        any non-retryable status must never be followed by a re-send;
  (iii) every value passed to the sleeper is a real number, not NaN, with 0 <= wait <= backoff_max;
  (iv)  ``HttpStreamSession.exchange`` and ``cancel`` POST to the exchange URL at most once, plus exactly one
        re-send permitted when the first response was a 413; ``next_with_token`` (a continuation, retried by
        design) obeys (i)-(ii);
  (v)   the helper ends by returning, by raising the injected exception, or by raising an ``RpcError``; any other
        exception type (e.g. from parsing a hostile ``Retry-After``) is reported as ``crash:*``.
Never compared: log text, timings, messages.
"""

from __future__ import annotations

import datetime
import itertools
from io import BytesIO
from typing import Any

from vf.core.runner import Ctx

PROPERTY = "C38"
LEVEL = "fault_enumeration"
ENGINE = "E1-SEQ"
SHARDS = {"quick": 8, "thorough": 16}
TECHNIQUE = "lazy exhaustive enumeration of fault/outcome sequences against the real retry loop and stream session"
RULE = (
    "config grid (max_retries 0..1 quick / 0..2 thorough x retry_on_connection_error x respect_retry_after x "
    "backoff_base {0,.5} x backoff_max {0,1,30} + custom retryable sets + config=None) x jitter {lo,hi,mid} x "
    "lazily extended outcome sequences (length <= max_retries+2): sweep D = every sequence over 23 exception "
    "kinds + retryable statuses x 17 Retry-After forms (+3 header-container variants) + representative final statuses; sweep W = every status "
    "200..599 (x Retry-After {absent,nan,7}) at every position after representative retryable prefixes; part B = "
    "programs of <=2 ops over {exchange,cancel,next} x retry configs x 413-fallback aux modes x outcome sequences; "
    "part C = typed-proxy unary call / stream init x retry configs x aux modes x outcome sequences (3 phases); "
    "non-trivial = the retry/resend decision code was reached (>=1 retry-eligible outcome, or >=1 session POST); "
    "distinct key = sequence of outcome classes + how the call ended"
)
LEVEL_TEXT = (
    "Every outcome sequence up to the bound over the stated alphabet is executed against the real "
    "_request_with_retry loop, the real _compute_delay/_parse_retry_after and the real HttpStreamSession; each "
    "additional send is judged at the moment it is attempted. Exhaustive enumeration is the right level because "
    "the property quantifies over all fault sequences and Retry-After forms, which scripted tests only sample."
)
LEVEL_NOTE = (
    "Outcomes are injected at the client/transport seam (fake client for the large sweeps, real httpx2.Client with a "
    "scripted transport for A2/B); sockets, TLS and real time are not exercised. Statuses outside the representative "
    "set carry only 3 Retry-After forms; HTTP-date Retry-After values are far past/far future so the wall clock "
    "cannot change their class."
)
ASSUMPTIONS = [
    "behaviour of the retry loop depends only on outcomes it consumed (lazy extension of the sequence is complete)",
    "jitter is drawn through the name `random` in vgi_rpc.http._retry (rebound to return low/high/mid of the range)",
    "httpx2 reports a dead keep-alive connection as RemoteProtocolError('Server disconnected without sending a response.')",
    "retry configurations are valid HttpRetryConfig values with finite non-NaN backoff parameters",
]

# ----------------------------------------------------------------------------------------------------------------
# alphabet
# ----------------------------------------------------------------------------------------------------------------

_DISC = "Server disconnected without sending a response."
#: name -> (httpx2 class name | builtin, message, reference class)
EXC: dict[str, tuple[str, str, str]] = {
    "connect": ("ConnectError", "All connection attempts failed", "connect"),
    "connect-timeout": ("ConnectTimeout", "timed out", "timeout"),
    "read-timeout": ("ReadTimeout", "The read operation timed out", "timeout"),
    "write-timeout": ("WriteTimeout", "The write operation timed out", "timeout"),
    "pool-timeout": ("PoolTimeout", "pool", "timeout"),
    "timeout-base": ("TimeoutException", "t", "timeout"),
    "disconnect": ("RemoteProtocolError", _DISC, "disconnect"),
    # position relative to the response not determined by the statement -> MAY be retried (if the switch is on)
    "h2-disconnect": ("RemoteProtocolError", "Server disconnected", "ambiguous"),
    "read-error": ("ReadError", "[Errno 104] Connection reset by peer", "ambiguous"),
    "write-error": ("WriteError", "[Errno 32] Broken pipe", "ambiguous"),
    "close-error": ("CloseError", "close", "ambiguous"),
    "proxy-error": ("ProxyError", "proxy", "ambiguous"),
    "os-conn-reset": ("ConnectionResetError", "reset", "ambiguous"),
    # must never be followed by a re-send
    "rpe-body": (
        "RemoteProtocolError",
        "peer closed connection without sending complete message body (received 3 bytes, expected 10)",
        "other",
    ),
    "rpe-empty": ("RemoteProtocolError", "", "other"),
    "rpe-chunk": ("RemoteProtocolError", "illegal chunk header", "other"),
    "local-protocol": ("LocalProtocolError", "Too much data for declared Content-Length", "other"),
    "unsupported-protocol": ("UnsupportedProtocol", "Request URL is missing an 'http://' or 'https://' protocol.", "other"),
    "decoding": ("DecodingError", "bad gzip", "other"),
    "too-many-redirects": ("TooManyRedirects", "Exceeded maximum allowed redirects.", "other"),
    "runtime-error": ("RuntimeError", "boom", "other"),
    "key-error": ("KeyError", "k", "other"),
    "value-error": ("ValueError", "v", "other"),
}
EXC_NAMES = list(EXC)
CONN_CLASSES = ("connect", "timeout", "disconnect", "ambiguous")

FUTURE = "Wed, 21 Oct 2099 07:28:00 GMT"
PAST = "Wed, 21 Oct 2015 07:28:00 GMT"
NAIVE = "Wed, 21 Oct 2015 07:28:00 -0000"
#: key -> raw header value (None = absent)
RA: dict[str, str | None] = {
    "absent": None,
    "2": "2",
    "0": "0",
    "7": "7",
    "0.25": "0.25",
    "-1": "-1",
    "nan": "nan",
    "inf": "inf",
    "-inf": "-inf",
    "1e999": "1e999",
    "huge": "9" * 400,
    "padded": " 5 ",
    "future-date": FUTURE,
    "past-date": PAST,
    "naive-date": NAIVE,
    "garbage": "soon",
    "empty": "",
}
RA_FULL = list(RA)
RA_SMALL = ["absent", "7", "nan", "inf"]
RA_FINAL = ["absent", "nan", "7"]
#: header containers: real httpx2.Headers, or the plain dict of _SyncTestResponse with one of three key casings
CONTAINERS = ["httpx", "dict:retry-after", "dict:Retry-After", "dict:RETRY-AFTER"]
DEFAULT_CODES = (429, 502, 503, 504)  # docs: "transient HTTP errors (429, 502, 503, 504)"


def sym_exc(name: str) -> list[Any]:
    return ["x", name]


def sym_st(code: int, ra: str = "absent", cont: str = "httpx") -> list[Any]:
    return ["s", code, ra, cont]


def cfg_codes(cfg: dict[str, Any]) -> tuple[int, ...]:
    if cfg.get("none"):
        return ()
    c = cfg.get("codes")
    return DEFAULT_CODES if c is None else tuple(c)


def cfg_budget(cfg: dict[str, Any]) -> int:
    return 1 if cfg.get("none") else cfg["mr"] + 1


def klass(sym: list[Any], cfg: dict[str, Any]) -> str:
    if sym[0] == "x":
        return EXC[sym[1]][2]
    return "retry-status" if sym[1] in cfg_codes(cfg) else "final-status"


def justified(sym: list[Any], cfg: dict[str, Any]) -> bool:
    """Reference policy, from the statement + docs of HttpRetryConfig: may a re-send follow this outcome?"""
    if cfg.get("none"):
        return False
    k = klass(sym, cfg)
    if k == "retry-status":
        return True
    if k in CONN_CLASSES:
        return bool(cfg["roce"])
    return False


def resend_key(sym: list[Any], cfg: dict[str, Any]) -> str:
    k = klass(sym, cfg)
    if cfg.get("none"):
        return f"no-config:{k}"
    if k in CONN_CLASSES:
        return f"{k}:switch-off"
    if k == "final-status":
        return f"final-status:{sym[1] // 100}xx" + (":413" if sym[1] == 413 else "")
    return f"{k}:{sym[1]}"


def alphabet_d(cfg: dict[str, Any], thorough: bool) -> list[list[Any]]:
    """Sweep D: used at every position."""
    out = [sym_exc(n) for n in EXC_NAMES]
    codes = cfg_codes(cfg)
    for i, c in enumerate(codes):
        full = i in (0, 2) or len(codes) <= 2  # 429 and 503 carry Retry-After in practice: all forms; others a few
        for ra in RA_FULL if full else RA_SMALL:
            out.append(sym_st(c, ra))
        if full:
            for cont in CONTAINERS[1:]:
                out.append(sym_st(c, "7", cont))
    finals = [200, 204, 400, 401, 413, 428, 430, 500, 501, 505] if thorough else [200, 400, 413, 500, 501]
    for c in finals + [c for c in DEFAULT_CODES if c not in codes][:2]:
        if c in codes:
            continue
        out.append(sym_st(c, "absent"))
        out.append(sym_st(c, "7", "dict:retry-after"))
    return out


def alphabet_w(cfg: dict[str, Any], thorough: bool) -> list[list[Any]]:
    """Sweep W: every status 200..599."""
    out = []
    codes = cfg_codes(cfg)
    for c in range(200, 600):
        for ra in RA_FINAL if (thorough or c in codes) else ["absent"]:
            out.append(sym_st(c, ra))
    return out


W_PREFIX = [sym_exc("connect"), sym_exc("read-timeout"), sym_exc("disconnect"), sym_st(503), sym_st(429, "7"), sym_st(502, "nan")]

# ----------------------------------------------------------------------------------------------------------------
# machinery shared by the parts
# ----------------------------------------------------------------------------------------------------------------


class NeedMore(BaseException):
    """The code under test asked for an outcome beyond the scripted prefix (BaseException: not swallowed)."""


class FakeRandom:
    def __init__(self, mode: str) -> None:
        self.mode = mode
        self.calls = 0

    def uniform(self, a: float, b: float) -> float:
        self.calls += 1
        if self.mode == "lo":
            return a
        if self.mode == "hi":
            return b
        return a + (b - a) * 0.5

    def random(self) -> float:
        self.calls += 1
        return {"lo": 0.0, "hi": 1.0 - 2.0**-53, "mid": 0.5}[self.mode]


def make_exc(name: str) -> BaseException:
    import httpx2

    cls_name, msg, _ = EXC[name]
    cls = getattr(httpx2, cls_name, None)
    if cls is None:
        import builtins

        cls = getattr(builtins, cls_name)
    return cls(msg)


def make_config(cfg: dict[str, Any]) -> Any:
    from vgi_rpc.http._retry import HttpRetryConfig

    if cfg.get("none"):
        return None
    kw: dict[str, Any] = dict(
        max_retries=cfg["mr"],
        backoff_base=cfg["base"],
        backoff_max=cfg["max"],
        retry_on_connection_error=cfg["roce"],
        respect_retry_after=cfg["rra"],
    )
    if cfg.get("codes") is not None:
        kw["retryable_status_codes"] = frozenset(cfg["codes"])
    return HttpRetryConfig(**kw)


_RESP_CACHE: dict[tuple[Any, ...], Any] = {}


def make_response(sym: list[Any], body: bytes = b"upstream says no") -> Any:
    key = (sym[1], sym[2], sym[3], body)
    r = _RESP_CACHE.get(key)
    if r is not None:
        return r
    import httpx2

    from vgi_rpc.http._testing import _SyncTestResponse

    _, code, ra, cont = sym
    val = RA[ra]
    if cont == "httpx":
        r = httpx2.Response(code, headers=({"Retry-After": val} if val is not None else {}), content=body)
    else:
        r = _SyncTestResponse(code, body, headers=({cont[5:]: val} if val is not None else {}))
    _RESP_CACHE[key] = r
    return r


RA_CLASS = {
    "absent": "absent", "2": "finite", "0": "finite", "7": "finite", "0.25": "finite", "padded": "finite", "-1": "negative",
    "-inf": "negative", "nan": "nan", "inf": "infinite", "1e999": "infinite", "huge": "infinite", "future-date": "http-date",
    "past-date": "http-date", "naive-date": "http-date", "garbage": "unparseable", "empty": "unparseable",
}


def check_waits(ctx: Ctx, where: str, sleeps: list[Any], consumed: list[list[Any]], cfg: dict[str, Any], rep: Any) -> None:
    bmax = 0.0 if cfg.get("none") else float(cfg["max"])
    for i, s in enumerate(sleeps):
        prev = consumed[min(i, len(consumed) - 1)] if consumed else ["x", "none"]
        ra = RA_CLASS[prev[2]] if prev[0] == "s" else "no-header"
        bad = None
        if isinstance(s, bool) or not isinstance(s, (int, float)):
            bad = "not-a-number"
        elif s != s:
            bad = "nan"
        elif s < 0:
            bad = "negative"
        elif s > bmax:
            bad = "above-backoff-max"
        if bad:
            ctx.fail(f"{where}wait:{bad}:retry-after={ra}", f"wait {s!r} outside [0, {bmax}] after outcome {prev} with config {cfg}", rep)


# ----------------------------------------------------------------------------------------------------------------
# part A / A2: the retry helper
# ----------------------------------------------------------------------------------------------------------------


class FakeClient:
    """Duck-typed client: every post()/options() consumes the next scripted outcome."""

    def __init__(self, seq: list[list[Any]]) -> None:
        self.seq = seq
        self.pos = 0
        self.verbs: list[str] = []

    def _next(self, verb: str) -> Any:
        if self.pos >= len(self.seq):
            raise NeedMore()
        sym = self.seq[self.pos]
        self.pos += 1
        self.verbs.append(verb)
        if sym[0] == "x":
            raise make_exc(sym[1])
        return make_response(sym)

    def post(self, url: str, *, content: bytes, headers: dict[str, str]) -> Any:
        return self._next("POST")

    def options(self, url: str, **kw: Any) -> Any:
        return self._next("OPTIONS")


def _scripted_transport_cls() -> Any:
    import httpx2

    class Scripted(httpx2.BaseTransport):
        """httpx2 transport: counted URL consumes the script, auxiliary URLs answered by mode."""

        def __init__(self, seq: list[list[Any]], counted_suffix: str, aux: str = "ok", bodies: dict[str, bytes] | None = None) -> None:
            self.seq = seq
            self.pos = 0
            self.counted_suffix = counted_suffix
            self.aux = aux
            self.bodies = bodies or {}
            self.op_sends: list[list[Any]] = []  # consumed symbols of the current op
            self.aux_log: list[str] = []

        def handle_request(self, request: Any) -> Any:
            request.read()
            path = request.url.path
            m = request.method
            if path.endswith(self.counted_suffix) and m in ("POST", "OPTIONS") and not path.endswith("__upload_url__/init"):
                if self.pos >= len(self.seq):
                    raise NeedMore()
                sym = self.seq[self.pos]
                self.pos += 1
                self.op_sends.append(sym)
                if sym[0] == "x":
                    raise make_exc(sym[1])
                val = RA[sym[2]]
                body = self.bodies.get(sym[4] if len(sym) > 4 else "garbage", b"upstream says no")
                return httpx2.Response(sym[1], headers=({"Retry-After": val} if val is not None else {}), content=body)
            self.aux_log.append(f"{m} {path}")
            if m == "OPTIONS":
                if self.aux == "options503":
                    return httpx2.Response(503)
                h = {"VGI-Max-Request-Bytes": "10", "VGI-Externalization-Enabled": "false", "VGI-Supported-Encodings": ""}
                if self.aux != "nosupport":
                    h["VGI-Upload-URL-Support"] = "true"
                return httpx2.Response(200, headers=h)
            if path.endswith("__upload_url__/init"):
                if self.aux == "upload404":
                    return httpx2.Response(404)
                return httpx2.Response(200, content=self.bodies["upload"])
            if m == "PUT":
                return httpx2.Response(500 if self.aux == "put500" else 200)
            return httpx2.Response(404)

    return Scripted


_SCRIPTED: Any = None


def scripted(*a: Any, **kw: Any) -> Any:
    global _SCRIPTED
    if _SCRIPTED is None:
        _SCRIPTED = _scripted_transport_cls()
    return _SCRIPTED(*a, **kw)


def run_a(p: dict[str, Any], seq: list[list[Any]]) -> dict[str, Any]:
    """Execute one scripted prefix against the retry helper. p: cfg, entry, jitter."""
    from vgi_rpc.http import _retry as R

    cfg = p["cfg"]
    config = make_config(cfg)
    sleeps: list[Any] = []
    fr = FakeRandom(p["jitter"])
    entry = p["entry"]
    transport = None
    if entry.startswith("httpx"):
        import httpx2

        transport = scripted(seq, "/p/m")
        client: Any = httpx2.Client(base_url="http://t.invalid", transport=transport)
    else:
        client = FakeClient(seq)
    old = R.random
    R.random = fr  # type: ignore[assignment]
    rec: dict[str, Any] = {"need_more": False, "end": None, "exc": None}
    try:
        if entry.endswith("options"):
            resp = R._options_with_retry(client, "/p/m", config=config, _sleep=sleeps.append)
        else:
            resp = R._post_with_retry(client, "/p/m", content=b"req", headers={"Content-Type": "a/b"}, config=config, _sleep=sleeps.append)
        rec["end"] = "return"
        rec["status"] = resp.status_code
    except NeedMore:
        rec["need_more"] = True
    except BaseException as e:  # noqa: BLE001 - classify everything the helper lets out
        rec["end"] = "raise"
        rec["exc"] = e
    finally:
        R.random = old  # type: ignore[assignment]
    consumed = transport.op_sends if transport is not None else seq[: client.pos]
    if transport is not None:
        client.close()
    rec["consumed"] = list(consumed)
    rec["sleeps"] = sleeps
    rec["uniform_calls"] = fr.calls
    return rec


def eval_a(ctx: Ctx, p: dict[str, Any], seq: list[list[Any]]) -> str:
    """Run + judge one prefix. Returns 'expand' (allowed additional send wanted), 'leaf' or 'pruned'."""
    from vgi_rpc.rpc import RpcError

    cfg = p["cfg"]
    rec = run_a(p, seq)
    consumed = rec["consumed"]
    rep = {"part": "A", "p": p, "seq": seq}
    check_waits(ctx, "", rec["sleeps"], consumed, cfg, rep)
    ctx.extra["uniform_calls"] += rec["uniform_calls"]
    classes = [klass(s, cfg) for s in consumed]
    if rec["need_more"]:
        if len(consumed) != len(seq):
            raise AssertionError("scripted prefix not consumed in order")
        n = len(seq)
        if n == 0:
            return "expand"
        if not justified(seq[-1], cfg):
            ctx.fail(
                "resend-after:" + resend_key(seq[-1], cfg),
                f"{p['entry']} sent the request again after outcome {seq[-1]} (class {classes[-1]}), which does not justify a retry under {cfg}; sequence {seq}",
                rep,
            )
            ctx.case(nontrivial="A!" + ">".join(classes), outcome=("viol", tuple(classes)))
            return "pruned"
        if n >= cfg_budget(cfg):
            ctx.fail(
                f"sends>max_retries+1:after-{classes[-1]}",
                f"{p['entry']} attempted send #{n + 1} with max_retries={cfg.get('mr')} after {seq}",
                rep,
            )
            ctx.case(nontrivial="A!" + ">".join(classes), outcome=("viol-count", tuple(classes)))
            return "pruned"
        return "expand"
    # completed
    end = rec["end"]
    if end == "raise":
        e = rec["exc"]
        last = consumed[-1] if consumed else None
        injected = last is not None and last[0] == "x" and type(e) is type(make_exc(last[1])) and str(e) == str(make_exc(last[1]))
        if injected:
            end = "raise-injected"
        elif isinstance(e, RpcError):
            end = "raise-" + type(e).__name__
        else:
            end = "crash"
            ctx.fail(
                f"crash:{type(e).__name__}:after-{classes[-1] if classes else 'nothing'}",
                f"{p['entry']} raised {e!r} (neither the injected fault nor an RpcError) on sequence {consumed} under {cfg}",
                rep,
            )
    if len(rec["sleeps"]) > max(0, len(consumed) - 1):
        ctx.extra["trailing_sleeps"] += 1
    eligible = any(c != "final-status" for c in classes)
    shape = ">".join(classes) + ":" + str(end)
    ctx.extra["max_sends"] = max(ctx.extra["max_sends"], len(consumed))
    ctx.extra["sends"] += len(consumed)
    ctx.extra["waits_checked"] += len(rec["sleeps"])
    sample = None
    if len(consumed) >= 2 and ctx.evaluations % 9973 == 0:
        sample = {"part": "A", "entry": p["entry"], "cfg": cfg, "jitter": p["jitter"], "seq": consumed, "waits": [repr(s) for s in rec["sleeps"]], "end": end}
    ctx.case(sample=sample, nontrivial=("A:" + shape) if eligible else None, outcome=(shape, tuple(repr(s) for s in rec["sleeps"])))
    return "leaf"


def dfs_a(ctx: Ctx, p: dict[str, Any], seq: list[list[Any]], alpha: list[list[Any]], expand_only: list[list[Any]] | None) -> None:
    r = eval_a(ctx, p, seq)
    if r != "expand":
        return
    if expand_only is not None and seq and seq[-1] not in expand_only:
        return  # sweep W: deeper continuation after this symbol is covered by sweep D
    for sym in alpha:
        dfs_a(ctx, p, seq + [sym], alpha, expand_only)


def configs_a(ctx: Ctx) -> list[dict[str, Any]]:
    out: list[dict[str, Any]] = [{"none": True}]
    mrs = (0, 1) if ctx.quick else (0, 1, 2)
    for mr, roce, rra, base, bmax in itertools.product(mrs, (True, False), (True, False), (0.0, 0.5), (0.0, 1.0, 30.0)):
        out.append({"mr": mr, "roce": roce, "rra": rra, "base": base, "max": bmax, "codes": None})
    for codes in ([500], [], [200, 503], [413, 429]):
        for mr in (1,) if ctx.quick else (1, 2):
            out.append({"mr": mr, "roce": True, "rra": True, "base": 0.5, "max": 1.0, "codes": codes})
    if ctx.quick:
        # one deep configuration so the quick tier also sees three sends
        out.append({"mr": 2, "roce": True, "rra": True, "base": 0.5, "max": 1.0, "codes": None, "narrow": True})
    else:
        out.append({"mr": 3, "roce": True, "rra": True, "base": 0.5, "max": 30.0, "codes": None, "narrow": True})
        out.append({"mr": 3, "roce": False, "rra": True, "base": 0.5, "max": 1.0, "codes": None, "narrow": True})
    return out


NARROW = (
    [sym_exc(n) for n in ("connect", "read-timeout", "disconnect", "read-error", "rpe-body", "runtime-error")]
    + [sym_st(503, ra) for ra in ("absent", "7", "nan", "inf", "-1", "future-date")]
    + [sym_st(429, "7", "dict:retry-after"), sym_st(502), sym_st(200), sym_st(500), sym_st(413)]
)


def items_a(ctx: Ctx) -> Any:
    """Top-level enumeration items of part A: (params, first symbol, alphabet, expand_only)."""
    for cfg in configs_a(ctx):
        narrow = cfg.pop("narrow", False)
        if cfg.get("none"):
            jitters = ["mid"]
        elif cfg["base"] == 0.0:
            jitters = ["hi"]  # uniform(0, 0): all modes coincide
        else:
            jitters = ["lo", "hi", "mid"]
        entries = ["post"]
        if cfg.get("none") or cfg["mr"] <= 1:
            entries.append("options")
        for entry in entries:
            for j in jitters:
                p = {"cfg": cfg, "entry": entry, "jitter": j}
                if narrow:
                    for s in NARROW:
                        yield p, s, NARROW, None
                    continue
                ad = alphabet_d(cfg, ctx.thorough)
                for s in ad:
                    yield p, s, ad, None
                if entry == "post" and j in ("hi", "mid"):
                    aw = alphabet_w(cfg, ctx.thorough)
                    chunk = 40
                    for i in range(0, len(aw), chunk):
                        yield p, ("W", i, chunk), aw, W_PREFIX
    # A2: real httpx2.Client + scripted transport
    for cfg in (
        {"none": True},
        {"mr": 1, "roce": True, "rra": True, "base": 0.5, "max": 1.0, "codes": None},
        {"mr": 1, "roce": False, "rra": False, "base": 0.5, "max": 30.0, "codes": None},
        {"mr": 2, "roce": True, "rra": True, "base": 0.5, "max": 30.0, "codes": None},
    ):
        if ctx.quick and cfg.get("mr") == 2:
            continue
        for entry in ("httpx-post", "httpx-options"):
            p = {"cfg": cfg, "entry": entry, "jitter": "hi"}
            alpha = [s for s in alphabet_d(cfg, False) if s[0] == "x" or s[3] == "httpx"]
            if cfg.get("mr") == 2:
                alpha = [s for s in NARROW if s[0] == "x" or s[3] == "httpx"]
            for s in alpha:
                yield p, s, alpha, None


# ----------------------------------------------------------------------------------------------------------------
# part B: HttpStreamSession.exchange / cancel / next_with_token
# ----------------------------------------------------------------------------------------------------------------

_B: dict[str, Any] = {}


def b_fixtures() -> dict[str, Any]:
    if _B:
        return _B
    import pyarrow as pa
    from pyarrow import ipc

    from vgi_rpc.http._common import _UPLOAD_URL_SCHEMA
    from vgi_rpc.metadata import STATE_KEY
    from vgi_rpc.rpc import AnnotatedBatch

    sch = pa.schema([("x", pa.int64())])
    b = BytesIO()
    with ipc.new_stream(b, sch) as w:
        w.write_batch(pa.record_batch({"x": [1]}, schema=sch), custom_metadata=pa.KeyValueMetadata({STATE_KEY: b"tok2"}))
        w.write_batch(pa.record_batch({"x": pa.array([], pa.int64())}, schema=sch), custom_metadata=pa.KeyValueMetadata({STATE_KEY: b"tok3"}))
    ok = b.getvalue()
    b = BytesIO()
    with ipc.new_stream(b, _UPLOAD_URL_SCHEMA) as w:
        w.write_batch(
            pa.record_batch(
                {
                    "upload_url": ["http://store.invalid/put/1"],
                    "download_url": ["http://store.invalid/get/1"],
                    "expires_at": [datetime.datetime(2099, 1, 1, tzinfo=datetime.UTC)],
                },
                schema=_UPLOAD_URL_SCHEMA,
            )
        )
    _B.update(
        schema=sch,
        bodies={"ok": ok, "garbage": b"<html>bad gateway</html>", "empty": b"", "upload": b.getvalue()},
        input=AnnotatedBatch(batch=pa.record_batch({"x": [5]}, schema=sch), custom_metadata=None),
    )
    return _B


B_EXC = ["connect", "read-timeout", "disconnect", "read-error", "rpe-body", "local-protocol", "runtime-error"]
B_STATUS = [200, 400, 401, 413, 429, 500, 502, 503, 504]
PROGRAMS_Q = [["exchange"], ["cancel"], ["next"], ["exchange", "cancel"], ["cancel", "cancel"], ["exchange", "exchange"]]
PROGRAMS_T = PROGRAMS_Q + [["cancel", "exchange"], ["next", "cancel"], ["next", "next"], ["next", "exchange"]]


def alphabet_b(thorough: bool) -> list[list[Any]]:
    out = [sym_exc(n) for n in B_EXC]
    for c in B_STATUS:
        for body in ("ok", "garbage") if (thorough or c in (200, 413, 503)) else ("garbage",):
            out.append(["s", c, "absent", "httpx", body])
    out.append(["s", 503, "7", "httpx", "garbage"])
    out.append(["s", 413, "nan", "httpx", "empty"])
    out.append(["s", 500, "absent", "httpx", "empty"])
    out.append(["s", 200, "absent", "httpx", "empty"])
    return out


def allowed_next_b(op: str, sends: list[list[Any]], cfg: dict[str, Any]) -> tuple[bool, str]:
    """May *op* POST to the exchange URL once more, having consumed *sends* so far? -> (ok, finding key)."""
    if op in ("exchange", "cancel"):
        if not sends:
            return True, ""
        if len(sends) == 1:
            if sends[0][0] == "s" and sends[0][1] == 413:
                return True, ""
            return False, f"{op}:resend-after:{klass(sends[0], cfg)}"
        return False, f"{op}:sends>2"
    # next_with_token: one continuation through the retry helper
    if not sends:
        return True, ""
    if not justified(sends[-1], cfg):
        return False, "next:resend-after:" + resend_key(sends[-1], cfg)
    if len(sends) >= cfg_budget(cfg):
        return False, f"next:sends>max_retries+1:after-{klass(sends[-1], cfg)}"
    return True, ""


def run_b(p: dict[str, Any], seq: list[list[Any]]) -> dict[str, Any]:
    import httpx2

    from vgi_rpc.http import _retry as R
    from vgi_rpc.http._client import HttpStreamSession

    fx = b_fixtures()
    cfg = p["cfg"]
    transport = scripted(seq, "/m/exchange", aux=p["aux"], bodies=fx["bodies"])
    client = httpx2.Client(base_url="http://t.invalid", transport=transport)
    sess = HttpStreamSession(client, "/p", "m", b"tok", fx["schema"], retry_config=make_config(cfg))
    sleeps: list[Any] = []
    fr = FakeRandom("hi")
    old_random = R.random
    olds = {f: dict(f.__kwdefaults__) for f in (R._post_with_retry, R._options_with_retry, R._request_with_retry)}
    R.random = fr  # type: ignore[assignment]
    for f in olds:
        f.__kwdefaults__["_sleep"] = sleeps.append  # the default sleeper is bound at def time: swap it (no real waiting)
    ops: list[dict[str, Any]] = []
    need_more = False
    try:
        for op in p["prog"]:
            transport.op_sends = []
            o: dict[str, Any] = {"op": op, "sends": transport.op_sends, "end": None}
            ops.append(o)
            try:
                if op == "exchange":
                    sess.exchange(fx["input"])
                elif op == "cancel":
                    sess.cancel()
                else:
                    sess.next_with_token()
                o["end"] = "return"
            except NeedMore:
                need_more = True
                break
            except Exception as e:  # noqa: BLE001
                o["end"] = "raise:" + type(e).__name__
                o["exc"] = e
    finally:
        R.random = old_random  # type: ignore[assignment]
        for f, d in olds.items():
            f.__kwdefaults__.clear()
            f.__kwdefaults__.update(d)
        client.close()
    return {"ops": ops, "need_more": need_more, "sleeps": sleeps, "aux": transport.aux_log}


def eval_b(ctx: Ctx, p: dict[str, Any], seq: list[list[Any]]) -> str:
    cfg = p["cfg"]
    rec = run_b(p, seq)
    rep = {"part": "B", "p": p, "seq": seq}
    ops = rec["ops"]
    check_waits(ctx, "session:", rec["sleeps"], seq, cfg, rep)
    shape = "/".join(f"{o['op'][0]}{len(o['sends'])}" for o in ops)
    if rec["need_more"]:
        cur = ops[-1]
        ok, key = allowed_next_b(cur["op"], cur["sends"], cfg)
        if not ok:
            ctx.fail(key, f"{cur['op']}() POSTed to the exchange URL again after {cur['sends']} (program {p['prog']}, config {cfg}, aux {p['aux']}, full sequence {seq})", rep)
            ctx.case(nontrivial="B!" + shape, outcome=("viol", shape))
            return "pruned"
        return "expand"
    for o in ops:
        e = o.get("exc")
        if e is not None:
            from vgi_rpc.rpc import RpcError

            last = o["sends"][-1] if o["sends"] else None
            injected = last is not None and last[0] == "x" and type(e) is type(make_exc(last[1]))
            if not injected and not isinstance(e, RpcError):
                ctx.fail(f"session-crash:{o['op']}:{type(e).__name__}", f"{o['op']}() raised {e!r} on {seq} (config {cfg}, aux {p['aux']})", rep)
    total = sum(len(o["sends"]) for o in ops)
    ctx.extra["session_posts"] += total
    ctx.extra["aux_requests"] += len(rec["aux"])
    if any(len(o["sends"]) == 2 and o["op"] == "exchange" for o in ops):
        ctx.extra["exchange_413_resends"] += 1
    ends = "/".join(str(o["end"]) for o in ops)
    sample = None
    if total >= 2 and ctx.evaluations % 4999 == 0:
        sample = {"part": "B", "prog": p["prog"], "cfg": cfg, "aux": p["aux"], "seq": seq, "posts_per_op": shape, "ends": ends}
    ctx.case(sample=sample, nontrivial=("B:" + shape + ":" + ends) if total else None, outcome=("B", shape, ends, len(rec["aux"])))
    return "leaf"


def dfs_b(ctx: Ctx, p: dict[str, Any], seq: list[list[Any]], alpha: list[list[Any]]) -> None:
    if eval_b(ctx, p, seq) != "expand":
        return
    for sym in alpha:
        dfs_b(ctx, p, seq + [sym], alpha)


def items_b(ctx: Ctx) -> Any:
    z = {"roce": True, "rra": True, "base": 0.5, "max": 30.0, "codes": None}
    cfgs: list[dict[str, Any]] = [{"none": True}, dict(z, mr=0), dict(z, mr=1)]
    if ctx.thorough:
        cfgs += [dict(z, mr=2), dict(z, mr=1, roce=False), dict(z, mr=1, codes=[413, 500])]
    auxes = ["ok", "nosupport"] if ctx.quick else ["ok", "nosupport", "options503", "upload404", "put500"]
    alpha = alphabet_b(ctx.thorough)
    for prog in PROGRAMS_Q if ctx.quick else PROGRAMS_T:
        for cfg in cfgs:
            if cfg.get("mr") == 2 and prog.count("next") and len(prog) > 1:
                continue  # 2 retried ops x 3 sends: covered with max_retries <= 1
            for aux in auxes:
                if aux != "ok" and "exchange" not in prog:
                    continue  # aux requests only happen on exchange's 413 fallback
                p = {"cfg": cfg, "prog": prog, "aux": aux}
                for s in alpha:
                    yield p, s, alpha


# ----------------------------------------------------------------------------------------------------------------
# part C: the typed proxy (unary call / stream init) — three retried phases at most
# ----------------------------------------------------------------------------------------------------------------

_C: dict[str, Any] = {}


def c_fixtures() -> dict[str, Any]:
    """Genuine response bodies for echo() / produce() captured once from a real in-process server."""
    if _C:
        return _C
    import json as _json

    from vgi_rpc.http import http_connect
    from vgi_rpc.http._testing import make_sync_client
    from vgi_rpc.rpc import RpcServer

    from vf.kit import prog

    inner = make_sync_client(RpcServer(prog.ScriptSvc, prog.ScriptImpl()), token_key=b"k" * 32, compression_level=None)
    got: dict[str, bytes] = {}

    class Rec:
        prefix = ""

        def post(self, url: str, *, content: bytes, headers: dict[str, str]) -> Any:
            r = inner.post(url, content=content, headers=headers)
            got[url] = bytes(r.content)
            return r

    script = _json.dumps({"steps": [[["emit", 2, None]], [["emit", 1, None]]]})
    with http_connect(prog.ScriptSvc, client=Rec(), compression_level=None) as px:  # type: ignore[arg-type]
        assert px.echo(n=3) == 3
        px.produce(script=script)
    _C.update(proto=prog.ScriptSvc, script=script, ok={"unary": got["/echo"], "init": got["/produce/init"]})
    return _C


C_ALPHA_WIDE = (
    [sym_exc(n) for n in B_EXC]
    + [["s", c, "absent", "httpx", body] for c in (200, 400, 401, 413, 415, 429, 500, 502, 503, 504) for body in ("ok", "garbage")]
    + [["s", 415, "absent", "httpx", "garbage", "gzip"], ["s", 415, "absent", "httpx", "garbage", ""], ["s", 503, "7", "httpx", "garbage"]]
    + [["s", 500, "absent", "httpx", "empty"], ["s", 502, "absent", "httpx", "empty"]]
)
C_ALPHA_NARROW = (
    [sym_exc(n) for n in ("connect", "read-timeout", "disconnect", "rpe-body")]
    + [["s", 200, "absent", "httpx", "ok"], ["s", 400, "absent", "httpx", "garbage"], ["s", 413, "absent", "httpx", "garbage"]]
    + [["s", 415, "absent", "httpx", "garbage", "gzip"], ["s", 415, "absent", "httpx", "garbage"], ["s", 500, "absent", "httpx", "garbage"]]
    + [["s", 503, "absent", "httpx", "garbage"], ["s", 429, "7", "httpx", "garbage"], ["s", 500, "absent", "httpx", "empty"]]
)


def allowed_next_c(sends: list[list[Any]], cfg: dict[str, Any]) -> tuple[bool, str]:
    """A typed call is at most three retried requests: the original, one re-encode after a 415 that named the
    server's codecs, one externalised re-send after a 413.  Within each the retry-helper rules hold."""
    phase_len = 0
    used415 = used413 = False
    budget = cfg_budget(cfg)
    for i in range(len(sends) + 1):
        if i == 0:
            phase_len = 1
            continue
        prev = sends[i - 1]
        if justified(prev, cfg):
            if phase_len < budget:
                phase_len += 1
                continue
            return False, f"call:sends>max_retries+1:after-{klass(prev, cfg)}"
        if prev[0] == "s" and prev[1] == 415 and not used415:
            used415 = True
            phase_len = 1
            continue
        if prev[0] == "s" and prev[1] == 413 and not used413:
            used413 = True
            phase_len = 1
            continue
        return False, "call:resend-after:" + resend_key(prev, cfg)
    return True, ""


def run_c(p: dict[str, Any], seq: list[list[Any]]) -> dict[str, Any]:
    import httpx2

    from vgi_rpc.http import _retry as R
    from vgi_rpc.http import http_connect

    fx = c_fixtures()
    op = p["op"]
    bodies = dict(b_fixtures()["bodies"])
    bodies["ok"] = fx["ok"][op]
    suffix = "/p/echo" if op == "unary" else "/p/produce/init"

    class T(_scripted_transport_cls()):  # type: ignore[misc]
        def handle_request(self, request: Any) -> Any:
            resp = super().handle_request(request)
            sym = self.op_sends[-1] if self.op_sends else None
            if sym is not None and len(sym) > 5 and request.url.path.endswith(suffix) and resp.status_code == 415:
                resp.headers["VGI-Supported-Encodings"] = sym[5]
            return resp

    transport = T(seq, suffix, aux=p["aux"], bodies=bodies)
    client = httpx2.Client(base_url="http://t.invalid", transport=transport)
    sleeps: list[Any] = []
    old_random = R.random
    olds = {f: dict(f.__kwdefaults__) for f in (R._post_with_retry, R._options_with_retry, R._request_with_retry)}
    R.random = FakeRandom("hi")  # type: ignore[assignment]
    for f in olds:
        f.__kwdefaults__["_sleep"] = sleeps.append
    rec: dict[str, Any] = {"need_more": False, "end": None, "exc": None}
    try:
        with http_connect(fx["proto"], client=client, prefix="/p", retry=make_config(p["cfg"]), compression_level=p["clevel"]) as px:
            if op == "unary":
                px.echo(n=3)
            else:
                px.produce(script=fx["script"])
        rec["end"] = "return"
    except NeedMore:
        rec["need_more"] = True
    except Exception as e:  # noqa: BLE001
        rec["end"] = "raise:" + type(e).__name__
        rec["exc"] = e
    finally:
        R.random = old_random  # type: ignore[assignment]
        for f, d in olds.items():
            f.__kwdefaults__.clear()
            f.__kwdefaults__.update(d)
        client.close()
    rec.update(consumed=list(transport.op_sends), sleeps=sleeps, aux=transport.aux_log)
    return rec


def eval_c(ctx: Ctx, p: dict[str, Any], seq: list[list[Any]]) -> str:
    from vgi_rpc.rpc import RpcError

    cfg = p["cfg"]
    rec = run_c(p, seq)
    rep = {"part": "C", "p": p, "seq": seq}
    consumed = rec["consumed"]
    check_waits(ctx, "call:", rec["sleeps"], seq, cfg, rep)
    classes = [klass(s_, cfg) + (":%d" % s_[1] if s_[0] == "s" and s_[1] in (413, 415) else "") for s_ in consumed]
    if rec["need_more"]:
        ok, key = allowed_next_c(consumed, cfg)
        if not ok:
            ctx.fail(key, f"{p['op']} call through the typed proxy POSTed again after {consumed} (config {cfg}, aux {p['aux']}, client compression {p['clevel']})", rep)
            ctx.case(nontrivial="C!" + ">".join(classes), outcome=("viol", tuple(classes)))
            return "pruned"
        return "expand"
    e = rec["exc"]
    if e is not None:
        last = consumed[-1] if consumed else None
        injected = last is not None and last[0] == "x" and type(e) is type(make_exc(last[1]))
        if not injected and not isinstance(e, RpcError):
            ctx.fail(f"call-crash:{p['op']}:{type(e).__name__}", f"{p['op']} call raised {e!r} on {seq} (config {cfg}, aux {p['aux']})", rep)
    ctx.extra["proxy_posts"] += len(consumed)
    ctx.extra["aux_requests"] += len(rec["aux"])
    ctx.extra["max_call_posts"] = max(ctx.extra["max_call_posts"], len(consumed))
    shape = ">".join(classes) + ":" + str(rec["end"])
    sample = None
    if len(consumed) >= 3 and ctx.evaluations % 2003 == 0:
        sample = {"part": "C", "op": p["op"], "cfg": cfg, "aux": p["aux"], "seq": consumed, "end": rec["end"]}
    ctx.case(sample=sample, nontrivial="C:" + p["op"] + ":" + shape, outcome=("C", p["op"], shape, len(rec["aux"])))
    return "leaf"


def dfs_c(ctx: Ctx, p: dict[str, Any], seq: list[list[Any]], alpha: list[list[Any]]) -> None:
    if eval_c(ctx, p, seq) != "expand":
        return
    for sym in alpha:
        dfs_c(ctx, p, seq + [sym], alpha)


def items_c(ctx: Ctx) -> Any:
    z = {"roce": True, "rra": True, "base": 0.5, "max": 30.0, "codes": None}
    plans: list[tuple[dict[str, Any], list[list[Any]]]] = [({"none": True}, C_ALPHA_WIDE), (dict(z, mr=0), C_ALPHA_WIDE), (dict(z, mr=1), C_ALPHA_NARROW)]
    if ctx.thorough:
        plans += [(dict(z, mr=1, roce=False), C_ALPHA_NARROW), (dict(z, mr=2), C_ALPHA_NARROW[:2] + C_ALPHA_NARROW[4:5] + C_ALPHA_NARROW[6:8] + C_ALPHA_NARROW[10:11])]
    for op in ("unary", "init"):
        for cfg, alpha in plans:
            for aux in ("ok", "nosupport") if ctx.quick else ("ok", "nosupport", "options503", "put500"):
                for clevel in (1, None):
                    if clevel is None and (aux != "ok" or cfg.get("mr", 0) > 1):
                        continue
                    p = {"cfg": cfg, "op": op, "aux": aux, "clevel": clevel}
                    for s_ in alpha:
                        yield p, s_, alpha


# ----------------------------------------------------------------------------------------------------------------


def run(ctx: Ctx) -> None:
    import logging

    logging.getLogger("vgi_rpc").setLevel(logging.WARNING)
    ctx.extra.update(
        {
            "uniform_calls": 0,
            "trailing_sleeps": 0,
            "max_sends": 0,
            "sends": 0,
            "waits_checked": 0,
            "session_posts": 0,
            "aux_requests": 0,
            "exchange_413_resends": 0,
            "proxy_posts": 0,
            "max_call_posts": 0,
            "configs": 0,
        }
    )
    for p, first, alpha, expand_only in items_a(ctx):
        if not ctx.mine():
            continue
        if isinstance(first, tuple):  # chunk of sweep W at position 0, then W after every representative prefix
            _, i, n = first
            for sym in alpha[i : i + n]:
                eval_a(ctx, p, [sym])
            budget = cfg_budget(p["cfg"])
            for depth in range(1, budget):
                for pre in itertools.product(W_PREFIX, repeat=depth):
                    pre_l = [list(s) for s in pre]
                    if not all(justified(s, p["cfg"]) for s in pre_l):
                        continue  # the run would stop inside the prefix: that shorter sequence is enumerated elsewhere
                    for sym in alpha[i : i + n]:
                        eval_a(ctx, p, pre_l + [sym])
            continue
        dfs_a(ctx, p, [first], alpha, expand_only)
    for p, first, alpha in items_b(ctx):
        if not ctx.mine():
            continue
        dfs_b(ctx, p, [first], alpha)
    for p, first, alpha in items_c(ctx):
        if not ctx.mine():
            continue
        dfs_c(ctx, p, [first], alpha)
    if ctx.shard[0] == 0:
        ctx.extra["configs"] = len(configs_a(ctx))


def replay(ctx: Ctx, case: dict[str, Any]) -> None:
    ctx.extra.update({k: 0 for k in ("uniform_calls", "trailing_sleeps", "max_sends", "sends", "waits_checked", "session_posts", "aux_requests", "exchange_413_resends", "proxy_posts", "max_call_posts")})
    {"A": eval_a, "B": eval_b, "C": eval_c}[case["part"]](ctx, case["p"], case["seq"])

"""C20 — Authentication precedes every dispatch (E1: exhaustive enumeration of routes x verbs x configurations).

For every configuration (service kind x prefix x PKCE x sticky x health endpoint x rejection kind) ONE real WSGI
app is built with ``make_wsgi_app`` around a service whose method names collide with framework endpoints
(``health``, ``healthz``, ``health_check``, ``healthcheck``, ``describe``, ``oauth``, ``session``,
``upload_url``, ``introspect``, ``x``), an upload-URL provider, a token-introspection resolver and (sticky) a
session state with ``close()`` — every one of those appends to an invocation LOG ("service code").

The app's ``authenticate`` is a switch.  Phase 1 (switch = accept-as-anonymous): the REAL client performs one
call per method (unary / producer with a continuation / exchange), ``__describe__``, an upload-URL request and
opens a sticky session; a recording client captures every request (path, body, headers) and whether it ran
service code (= the request is *live*: it WOULD dispatch if authentication were skipped; state tokens and the
session were minted for the anonymous identity, which is exactly what a skipped authentication yields).
Phase 2 (switch = reject): every recorded request is replayed under every verb, every live client POST with each of
12 steering-header sets (CORS preflight markers such as Access-Control-Request-Method, method / URL override headers), plus every
name x route-suffix and every framework path x verb x Accept.  Phase 3 (switch = accept): the live requests are
replayed once more as a positive control (they must still run service code, else the harness is vacuous).

Reference (independent of the repo's exemption code, from the statement):
  exempt(verb, path) = verb == OPTIONS  or  path starts with "/.well-known/"  or  (health endpoint enabled and
  path == prefix + "/health")  or  (PKCE active and path starts with prefix + "/_oauth/")
Oracle for every phase-2 request:
  (a) the service-code LOG stays empty (always, exempt or not);
  (b) if not exempt: the authenticate callback was consulted and the response is its refusal: 401 (403 / 5xx are
      tolerated as fail-closed; the exact status is C21's subject) — or, with PKCE active, the 302 to the
      authorization endpoint for a GET that accepts text/html.
Exempt requests are not otherwise judged.  ``on_serve_start`` is not service dispatch and is not logged.
Finding keys: when the un-refused path is a proper extension of ``{prefix}/health`` (one mechanism):
``exempt-prefix-startswith:<class>`` if service code ran, ``exempt-prefix-startswith-not-refused:<class>`` if the
request merely escaped authentication, with class = ``/healthz`` | ``/health_check`` | ``/healthcheck`` (colliding method
names, any route suffix), ``/health/*`` (sub-paths of the health endpoint such as ``/health/init``), ``/health*``
(other near-miss names); otherwise ``dispatch-after-reject:<route>`` / ``not-refused:<route>``.
"""

from __future__ import annotations

import hashlib
import itertools
import types
from dataclasses import dataclass
from datetime import datetime, timezone
from typing import Any, Protocol

import pyarrow as pa

from vf.core.runner import Ctx, HarnessError

PROPERTY = "C20"
LEVEL = "exploration"
ENGINE = "E1-SEQ"
SHARDS = {"quick": 8, "thorough": 16}
RULE = (
    "configs = kind{unary,producer,exchange} x prefix{'',/vgi,/a/b (+/health,/v1.0 T)} x PKCE{off,on} x "
    "sticky{off,on} x health endpoint{on,off} x rejection{ValueError (+PermissionError, AuthFailure T)}; per config: "
    "every request the real client emits for 10 colliding method names (+__describe__, upload-URL, session "
    "DELETE/resume) x verbs{GET,HEAD,POST,PUT,DELETE,OPTIONS,PATCH (+TRACE T)}, every live client POST x 12 steering-header sets (CORS "
    "preflight markers, method / URL override headers), every name x suffix{'',/init,/exchange,/,/x} x {POST,GET}, every framework/near-miss path x verbs x Accept{none,text/html (quick: text/html on GET/POST only)}; "
    "one evaluation = one HTTP request against the rejecting app; non-trivial = the authenticate callback ran "
    "and rejected it (class = kind, route class, verb, live?)"
)
TECHNIQUE = "exhaustive route x verb x configuration enumeration against the real WSGI app with a rejecting authenticator; liveness of each request established by recording the real client against the same app"
LEVEL_TEXT = (
    "Every request of the stated finite route/verb/config grammar is sent to the real Falcon app and judged on "
    "the service-code invocation log and the HTTP status; the requests that matter are provably live (the same "
    "bytes dispatch service code on the same app when the authenticator accepts)."
)
LEVEL_NOTE = (
    "Route grammar, name list, prefixes and verbs are the stated bounds; requests go through "
    "falcon.testing (no socket, no chunked bodies); OIDC discovery is stubbed (no network)."
)
ASSUMPTIONS = [
    "prefixes under /.well-known/ are excluded (the statement itself exempts that subtree)",
    "with PKCE active the whole {prefix}/_oauth/ subtree counts as 'OAuth browser-flow endpoints' (method names cannot start with '_')",
    "CONNECT (refused by the wsgiref validator used by falcon.testing) and non-standard verbs are not enumerated",
]

NAMES = ["health", "healthz", "health_check", "healthcheck", "describe", "oauth", "session", "upload_url", "introspect", "x"]
LOG: list[Any] = []
OUT = pa.schema([pa.field("v", pa.int64())])
IN = pa.schema([pa.field("v", pa.int64())])


# ------------------------------------------------------------------ services (generated, names collide on purpose)
def _mk_states() -> tuple[type, type]:
    from vgi_rpc.rpc import ExchangeState, ProducerState

    @dataclass
    class Prod(ProducerState):
        name: str
        step: int = 0

        def produce(self, out: Any, ctx: Any) -> None:
            LOG.append(["produce", self.name, self.step])
            if self.step >= 2:
                out.finish()
                return
            out.emit(pa.RecordBatch.from_pydict({"v": [self.step]}, schema=OUT))
            self.step += 1

    @dataclass
    class Exch(ExchangeState):
        name: str

        def exchange(self, input: Any, out: Any, ctx: Any) -> None:
            LOG.append(["exchange", self.name])
            out.emit(pa.RecordBatch.from_pydict({"v": input.batch.column("v").to_pylist()}, schema=OUT))

    return Prod, Exch


_SVC: dict[str, Any] = {}


class SessState:
    def close(self) -> None:
        LOG.append(["session.close"])


def services() -> dict[str, Any]:
    """kind -> (protocol, impl class)."""
    if _SVC:
        return _SVC
    from vgi_rpc.rpc import Stream

    Prod, Exch = _mk_states()
    g = globals()
    g["Prod"], g["Exch"], g["Stream"] = Prod, Exch, Stream

    def decl(kind: str, name: str) -> Any:
        if kind == "unary":
            def f(self, v: int) -> int: ...  # noqa: E704
        elif kind == "producer":
            def f(self, v: int) -> "Stream[Prod]": ...  # type: ignore[misc]  # noqa: E704
        else:
            def f(self, v: int) -> "Stream[Exch]": ...  # type: ignore[misc]  # noqa: E704
        f.__name__ = f.__qualname__ = name
        f.__doc__ = f"{kind} {name}."
        return f

    def impl(kind: str, name: str) -> Any:
        if kind == "unary":
            def f(self, v: int, ctx: Any) -> int:
                LOG.append(["unary", name])
                if name == "session" and getattr(self, "open_sessions", False):
                    ctx.open_session(SessState())
                return v
        elif kind == "producer":
            def f(self, v: int, ctx: Any) -> "Stream[Prod]":  # type: ignore[misc]
                LOG.append(["init", name])
                return Stream(output_schema=OUT, state=Prod(name=name), input_schema=pa.schema([]))
        else:
            def f(self, v: int, ctx: Any) -> "Stream[Exch]":  # type: ignore[misc]
                LOG.append(["init", name])
                return Stream(output_schema=OUT, state=Exch(name=name), input_schema=IN)
        f.__name__ = f.__qualname__ = name
        return f

    for kind in ("unary", "producer", "exchange"):
        proto = types.new_class(f"Svc_{kind}", (Protocol,), exec_body=lambda ns, kind=kind: ns.update({n: decl(kind, n) for n in NAMES}))
        icls = type(f"Impl_{kind}", (), {n: impl(kind, n) for n in NAMES})
        _SVC[kind] = (proto, icls)
    return _SVC


class Provider:
    def generate_upload_url(self, schema: Any) -> Any:
        from vgi_rpc.external import UploadUrl

        LOG.append(["upload_url_provider"])
        return UploadUrl("https://s.invalid/put", "https://s.invalid/get", datetime(2030, 1, 1, tzinfo=timezone.utc))


def resolver(token: str) -> Any:
    from vgi_rpc.http.server._introspect import TokenIdentity

    LOG.append(["introspect_resolver"])
    return TokenIdentity(principal="someone")


class Switch:
    """The authenticate callback: accept-as-anonymous or reject."""

    def __init__(self, exc: str) -> None:
        self.reject = False
        self.exc = exc
        self.calls = 0

    def __call__(self, req: Any) -> Any:
        from vgi_rpc.http._unauthorized import AuthFailure, AuthReason
        from vgi_rpc.rpc import AuthContext

        self.calls += 1
        if not self.reject:
            return AuthContext.anonymous()
        if self.exc == "PermissionError":
            raise PermissionError("no")
        if self.exc == "AuthFailure":
            raise AuthFailure(AuthReason.INVALID_CREDENTIAL, "no")
        raise ValueError("no")


# ------------------------------------------------------------------ app + recording
class Rec:
    """Recording client in front of _SyncTestClient."""

    def __init__(self, inner: Any) -> None:
        self._c = inner
        self.prefix = inner.prefix
        self.reqs: list[dict[str, Any]] = []

    def _do(self, verb: str, url: str, **kw: Any) -> Any:
        n0 = len(LOG)
        r = getattr(self._c, verb)(url, **kw)
        from urllib.parse import urlparse

        self.reqs.append({
            "verb": verb.upper(), "path": urlparse(url).path, "body": kw.get("content", b"") or b"",
            "headers": dict(kw.get("headers") or {}), "live": len(LOG) > n0, "status": r.status_code,
        })
        return r

    def post(self, url: str, **kw: Any) -> Any:
        return self._do("post", url, **kw)

    def get(self, url: str, **kw: Any) -> Any:
        return self._do("get", url, **kw)

    def options(self, url: str, **kw: Any) -> Any:
        return self._do("options", url, **kw)

    def delete(self, url: str, **kw: Any) -> Any:
        return self._do("delete", url, **kw)

    def put(self, url: str, **kw: Any) -> Any:
        return self._c.put(url, **kw)

    def close(self) -> None:
        pass


def build(cfg: dict[str, Any]) -> tuple[Any, Switch, Any]:
    import vgi_rpc.http._oauth_pkce as pk
    from vgi_rpc.http import OAuthResourceMetadata
    from vgi_rpc.http.server import make_wsgi_app
    from vgi_rpc.rpc import RpcServer

    proto, icls = services()[cfg["kind"]]
    impl = icls()
    impl.open_sessions = cfg["sticky"]
    server = RpcServer(proto, impl, enable_describe=True)
    sw = Switch(cfg["exc"])
    kw: dict[str, Any] = {}
    if cfg["pkce"]:
        kw["oauth_resource_metadata"] = OAuthResourceMetadata(
            resource="http://localhost" + cfg["prefix"], authorization_servers=("https://idp.invalid",), client_id="cid",
        )
    old = pk._create_oidc_discovery
    pk._create_oidc_discovery = lambda issuer: (lambda: ("https://idp.invalid/authorize", "https://idp.invalid/token"))  # no network
    try:
        app = make_wsgi_app(
            server, prefix=cfg["prefix"], token_key=b"k" * 32, authenticate=sw, upload_url_provider=Provider(),
            enable_sticky=cfg["sticky"], enable_health_endpoint=cfg["health"], introspect_resolver=resolver,
            introspect_principals=["proxy"], **kw,
        )
    finally:
        pk._create_oidc_discovery = old
    return app, sw, proto


def record(cfg: dict[str, Any], app: Any, proto: Any) -> tuple[list[dict[str, Any]], str | None]:
    """Phase 1: drive the real client, return the recorded requests and (sticky) a live session token."""
    from vgi_rpc.http import http_connect, http_introspect, request_upload_urls
    from vgi_rpc.http._testing import _SyncTestClient
    from vgi_rpc.rpc import AnnotatedBatch

    rec = Rec(_SyncTestClient(app, prefix=cfg["prefix"]))
    token = None
    with http_connect(proto, client=rec) as px:
        for n in NAMES:
            try:
                if cfg["kind"] == "unary":
                    getattr(px, n)(v=1)
                elif cfg["kind"] == "producer":
                    for _ in getattr(px, n)(v=1):
                        pass
                else:
                    s = getattr(px, n)(v=1)
                    s.exchange(AnnotatedBatch(batch=pa.RecordBatch.from_pydict({"v": [3]}, schema=IN)))
                    s.close()
            except Exception:  # e.g. POST /health or /describe hits the framework's GET-only route (405)
                pass
        if cfg["sticky"] and cfg["kind"] == "unary":
            try:
                with px.with_session_token() as view:
                    view.session(v=1)
                    token = view.detach()
            except Exception:
                token = None
    for fn in (lambda: http_introspect(client=rec), lambda: request_upload_urls(client=rec)):
        try:
            fn()
        except Exception:
            pass
    return rec.reqs, token


# ------------------------------------------------------------------ reference + request grammar
def ref_exempt(cfg: dict[str, Any], verb: str, path: str) -> bool:
    if verb == "OPTIONS":
        return True
    if path.startswith("/.well-known/"):
        return True
    if cfg["health"] and path == cfg["prefix"] + "/health":
        return True
    return bool(cfg["pkce"] and path.startswith(cfg["prefix"] + "/_oauth/"))


def rclass(cfg: dict[str, Any], path: str) -> str:
    """Route class of a path: relative to the prefix, method names kept (they are the point)."""
    p = cfg["prefix"]
    if p and (path == p or path.startswith(p + "/")):
        return path[len(p):] or "{prefix}"
    if p:
        return "outside:" + path
    return path


def requests_for(ctx: Ctx, cfg: dict[str, Any], recorded: list[dict[str, Any]], token: str | None) -> Any:
    """Phase-2 request list: dicts verb/path/body/headers/live/src."""
    P = cfg["prefix"]
    verbs = ["POST", "GET", "HEAD", "PUT", "DELETE", "OPTIONS", "PATCH"] + (["TRACE"] if ctx.thorough else [])
    seen: set[Any] = set()
    generic = next((r for r in recorded if r["verb"] == "POST" and r["live"]), None)
    gbody = generic["body"] if generic else b""
    ghdr = dict(generic["headers"]) if generic else {"Content-Type": "application/vnd.apache.arrow.stream"}
    for r in recorded:
        k = (r["path"], hashlib.blake2b(r["body"], digest_size=8).hexdigest())
        if r["verb"] != "POST" or k in seen:
            continue
        seen.add(k)
        for v in verbs:
            yield {"verb": v, "path": r["path"], "body": r["body"], "headers": r["headers"], "live": r["live"] and v == "POST", "src": "client"}
    # request headers that steer other layers (CORS preflight markers, method / URL override conventions of proxies and
    # frameworks): none of them makes a request exempt, whatever it claims to be
    steer = [
        {"Access-Control-Request-Method": "POST"}, {"Access-Control-Request-Method": "POST", "Origin": "https://evil.example"},
        {"Access-Control-Request-Headers": "authorization"}, {"Origin": "https://evil.example"}, {"X-HTTP-Method-Override": "OPTIONS"},
        {"X-Method-Override": "OPTIONS"}, {"X-Original-URL": f"{P}/health"}, {"X-Rewrite-URL": f"{P}/health"}, {"X-Forwarded-Uri": "/.well-known/x"},
        {"X-Forwarded-Prefix": "/.well-known"}, {"Sec-Fetch-Mode": "cors", "Sec-Fetch-Site": "same-origin"}, {"Purpose": "prefetch"},
    ]
    seen_live: set[Any] = set()
    for r in recorded:
        if r["verb"] != "POST" or not r["live"] or r["path"] in seen_live:
            continue
        seen_live.add(r["path"])
        for extra in steer:
            yield {"verb": "POST", "path": r["path"], "body": r["body"], "headers": {**r["headers"], **extra}, "live": True, "src": "client+hdr:" + ",".join(extra)}
    for n in NAMES + ["__describe__", "nosuch", "_oauth", "__upload_url__", "health.json", "healthcheck.init"]:
        for suf in ("", "/init", "/exchange", "/", "/x"):
            for v in ("POST", "GET"):
                yield {"verb": v, "path": f"{P}/{n}{suf}", "body": gbody, "headers": ghdr, "live": False, "src": "grammar"}
    sess_hdr = {"VGI-Session": token} if token else {}
    fw = [
        f"{P}/health", f"{P}/health/", f"{P}/Health", f"{P}/health/x/y", f"{P}/describe", f"{P}/__describe__", f"{P}/__session__",
        f"{P}/__session__/x", f"{P}/__upload_url__/init", f"{P}/__introspect_token__", f"{P}/_oauth/callback", f"{P}/_oauth/logout",
        f"{P}/_oauth/token", f"{P}/_oauth", f"{P}/_oauthx", P or "/", "/", "/nope", f"{P}/a/b/c/d", "/.well-known/oauth-protected-resource",
        f"/.well-known/oauth-protected-resource{P}", "/.well-known/x", "/.well-known", "/.well-knownx/y", f"{P}/.well-known/x", "/health", "/healthcheck",
    ]
    for path in dict.fromkeys(fw):
        for v in verbs:
            for accept in (None, "text/html"):
                if accept and ctx.quick and v not in ("GET", "POST"):
                    continue  # Accept only steers the browser redirect / 401 rendering; all verbs x Accept in thorough
                h = dict(sess_hdr) if "__session__" in path else {}
                if accept:
                    h["Accept"] = accept
                body = b""
                if path.endswith("__introspect_token__") and v == "POST":
                    body, h["Content-Type"] = b'{"token":"opaque"}', "application/json"
                yield {"verb": v, "path": path, "body": body, "headers": h, "live": bool(token) and path == f"{P}/__session__" and v == "DELETE", "src": "framework"}
    if token:
        # resume a live session on an ordinary call
        for r in recorded:
            if r["verb"] == "POST" and r["live"] and r["path"].endswith("/x"):
                yield {"verb": "POST", "path": r["path"], "body": r["body"], "headers": {**r["headers"], "VGI-Session": token}, "live": True, "src": "client+session"}
                break


def send(app: Any, rq: dict[str, Any]) -> Any:
    import falcon.testing

    return falcon.testing.simulate_request(app, method=rq["verb"], path=rq["path"], body=rq["body"] or None, headers=rq["headers"] or None)


def judge(ctx: Ctx, cfg: dict[str, Any], rq: dict[str, Any], status: int, calls: int, log: list[Any], location: str) -> str:
    exempt = ref_exempt(cfg, rq["verb"], rq["path"])
    rc = rclass(cfg, rq["path"])
    rep = {"cfg": cfg, "verb": rq["verb"], "path": rq["path"], "src": rq["src"], "accept": rq["headers"].get("Accept")}
    where = f"{rq['verb']} {rq['path']} (prefix={cfg['prefix']!r} kind={cfg['kind']} pkce={cfg['pkce']} sticky={cfg['sticky']} health={cfg['health']} exc={cfg['exc']})"
    hp = cfg["prefix"] + "/health"
    startswith_health = cfg["health"] and rq["path"].startswith(hp) and rq["path"] != hp
    browser_get = cfg["pkce"] and rq["verb"] == "GET" and "text/html" in (rq["headers"].get("Accept") or "")
    # refused = the callback's rejection ended the request: 401 (403/5xx tolerated: fail-closed, the exact status is C21's
    # business), or the PKCE redirect to the authorization endpoint; a 2xx/404/405/400 means routing went on regardless
    refused = status in (401, 403) or status >= 500 or (browser_get and status == 302 and location.startswith("https://idp.invalid/authorize"))
    bad = False
    if startswith_health and not exempt:
        # one mechanism (prefix test instead of equality); classes: sub-paths of the health endpoint, each
        # colliding method name, any other name that merely starts with "health"
        seg = rq["path"][len(hp):]
        first = rc.split("/")[1] if rc.startswith("/") and len(rc) > 1 else rc
        hclass = "/health/*" if seg.startswith("/") else ("/" + first if first in NAMES else "/health*")
    if log:
        bad = True
        key = f"exempt-prefix-startswith:{hclass}" if startswith_health and not exempt else f"dispatch-after-reject:{rc}"
        ctx.fail(key, f"{where}: service code ran although the authenticate callback rejects every request (callback consulted {calls}x): log={log} status={status}", rep)
    elif not exempt and (not refused or calls == 0):
        bad = True
        key = f"exempt-prefix-startswith-not-refused:{hclass}" if startswith_health else f"not-refused:{rc}"
        ctx.fail(key, f"{where}: not refused (status {status}, authenticate consulted {calls}x) though no service code ran; only OPTIONS, /.well-known/, exact {{prefix}}/health and the OAuth endpoints may bypass authentication", rep)
    return "bad" if bad else ("exempt" if exempt else ("302" if status == 302 else "401"))


def run_config(ctx: Ctx, cfg: dict[str, Any], only: dict[str, Any] | None = None) -> None:
    app, sw, proto = build(cfg)
    del LOG[:]
    recorded, token = record(cfg, app, proto)
    if not any(r["live"] for r in recorded):
        raise HarnessError(f"no live request recorded for {cfg}")
    ctx.extra["live_recorded_requests"] += sum(1 for r in recorded if r["live"] and r["verb"] == "POST")
    sw.reject = True
    lives: list[dict[str, Any]] = []
    nbad = 0
    for rq in requests_for(ctx, cfg, recorded, token):
        if only is not None and not (rq["verb"] == only["verb"] and rq["path"] == only["path"] and rq["src"] == only["src"] and rq["headers"].get("Accept") == only.get("accept")):
            continue
        del LOG[:]
        sw.calls = 0
        res = send(app, rq)
        out = judge(ctx, cfg, rq, res.status_code, sw.calls, list(LOG), res.headers.get("location", "") or "")
        if rq["live"]:
            lives.append(rq)
        if out == "bad":
            nbad += 1
        if only is None:
            nt = (cfg["kind"], rclass(cfg, rq["path"]), rq["verb"], rq["live"]) if sw.calls > 0 and out in ("401", "302") else None
            sample = None
            if rq["live"] and ctx.evaluations % 211 == 0:
                sample = {"cfg": cfg, "verb": rq["verb"], "path": rq["path"], "live": True, "status": res.status_code, "authenticate_calls": sw.calls}
            ctx.case(sample=sample, nontrivial=nt, outcome=(out, res.status_code))
            if rq["live"]:
                ctx.extra["live_requests_rejected_phase"] += 1
    # phase 3: positive control — the live requests still dispatch when the callback accepts
    sw.reject = False
    uniq: dict[Any, dict[str, Any]] = {}
    for rq in lives:
        uniq.setdefault((rq["verb"], rq["path"], rq["body"], "VGI-Session" in rq["headers"]), rq)
    # the session DELETE consumes the session: run it once, after everything else
    for rq in sorted(uniq.values(), key=lambda r: r["verb"] == "DELETE"):
        del LOG[:]
        res = send(app, rq)
        if not LOG:
            if nbad:
                # phase 2 let requests through (already reported): they may have consumed the session / state
                ctx.extra["positive_controls_skipped_after_violation"] += 1
                continue
            raise HarnessError(f"positive control failed: {rq['verb']} {rq['path']} did not run service code in accept mode (status {res.status_code}) for {cfg}")
        ctx.extra["positive_controls"] += 1
    del LOG[:]


def configs(ctx: Ctx) -> list[dict[str, Any]]:
    prefixes = ["", "/vgi", "/a/b"] + (["/health", "/v1.0"] if ctx.thorough else [])
    excs = ["ValueError"] + (["PermissionError", "AuthFailure"] if ctx.thorough else [])
    out = []
    for kind, prefix, pkce, sticky, health, exc in itertools.product(("unary", "producer", "exchange"), prefixes, (False, True), (False, True), (True, False), excs):
        out.append({"kind": kind, "prefix": prefix, "pkce": pkce, "sticky": sticky, "health": health, "exc": exc})
    return out


def _init(ctx: Ctx) -> None:
    import logging
    import warnings

    logging.getLogger("vgi_rpc").setLevel(logging.CRITICAL)
    logging.getLogger("vgi_rpc.http").setLevel(logging.CRITICAL)
    warnings.simplefilter("ignore")
    ctx.extra.update({"configs": 0, "live_recorded_requests": 0, "live_requests_rejected_phase": 0, "positive_controls": 0, "positive_controls_skipped_after_violation": 0})


def run(ctx: Ctx) -> None:
    _init(ctx)
    for cfg in configs(ctx):
        if not ctx.mine():
            continue
        run_config(ctx, cfg)
        ctx.extra["configs"] += 1


def replay(ctx: Ctx, case: dict[str, Any]) -> None:
    _init(ctx)
    run_config(ctx, case["cfg"], only=case)

"""C22 — Proxy-proof verification equals the normative nine-step decision table (E1: exhaustive input grammar).

Reference model: the table of ``/repo/docs/proxy-proof-spec.md`` §6 (with the charsets of §3 and the canonical
string of §4) transcribed below by hand — explicit character sets, an own base64url decoder, an own HMAC input
builder.  Nothing of ``vgi_rpc.http._proof`` is used by the model (tokens are minted by the check itself too).

Three observation levels, all on the real code:
  * ``verify``  — ``verify_proof(token, secrets=, origin_id=, skew_seconds=, nonce_cache=<real NonceCache on a
                  virtual clock>, now=)``: returns claims or raises ``ProofError(reason)``; anything else is a
                  violation ("never raising anything else").
  * ``allow``   — ``proxy_proof_gate(ProxyProofConfig(mode="allow"))`` called with a real ``falcon.Request``:
                  claims["reason"] / ["verified"] / ["proxy"] (label of the secret that verified).
  * ``require`` — the real WSGI app (``make_wsgi_app(..., authenticate=require_all(gate))``): every rejected
                  request must give status 401 and *exactly the bytes* (body + headers except x-request-id) of the
                  401 for an absent header; that reference response must not contain any §6 reason code; an
                  accepted proof must not give 401.

Space (finite, stated):
  bulk    — tokens ``version.kid.ts.nonce.mac`` where every field ranges over an alphabet of field-level mutations
            (count, version, charset per field, lengths, padding, non-ASCII, commas, newlines, unicode digits,
            clock offsets 0, ±(skew-1), ±skew, ±(skew+1), mac minted with wrong secret/origin/framing ...).
            quick: base + all single + all pairs of field mutations; thorough: + all triples at every level and
            the FULL product of the five alphabets at the ``verify`` level.  Each token × key maps {single,
            rotation overlap, two proxies} × skew {30, 1} × replay cache {on, off(single map)} × nonce history
            {fresh, same nonce accepted just before}.
  struct  — whole-header mutations: dropped/extra fields, other separators, wrappers, duplicates joined by
            "," / ", ", empty, blank, lengths 511/512/513, 64 KiB, absent (gate levels only).
  history — all sequences (length <=3 quick, <=4 thorough) over 9 request kinds × clock advances
            {0, skew-1, 3*skew} through ONE verifier/cache: a nonce is recorded only by an accepted proof and
            remembered for ``skew`` seconds (§10), steps 1-8 fire before step 9.

Weakest reading / accepted ambiguities:
  * a mac whose 43rd character differs from the canonical one only in the two padding bits decodes to the same
    32 bytes; §6 step 8 does not say whether comparison is on text or bytes -> {accept, bad_mac, malformed} allowed.
  * nonce memory exactly at ``skew`` seconds is never probed (advances avoid the boundary).
  * on failure only ``verified``, ``reason`` and an empty/absent ``proxy`` are checked in the allow-mode claims.
"""

from __future__ import annotations

import hashlib
import hmac
import io
import itertools
import logging
from typing import Any

from vf.core.runner import Ctx

PROPERTY = "C22"
LEVEL = "exploration"
ENGINE = "E1-SEQ"
SHARDS = {"quick": 8, "thorough": 16}
RULE = (
    "bulk: 5-field tokens over per-field mutation alphabets (quick: <=2 mutated fields; thorough: <=3 at gate/WSGI "
    "levels, full product at verify level) x 3 key maps x skew{30,1} x cache on/off x history{fresh,seen}; struct: "
    "whole-header mutations; history: all request sequences up to depth 3/4 over 9 kinds x 3 clock advances. "
    "non-trivial class = (level, expected outcome, set of mutated fields); every case runs the real verifier"
)
TECHNIQUE = "exhaustive grammar enumeration against an independently transcribed decision table (differential oracle)"
LEVEL_TEXT = (
    "Every header of the stated mutation grammar is decided by the real verify_proof, the real allow-mode gate and "
    "the real WSGI 401 path and compared with a hand transcription of the spec table; exhaustive within the bound, "
    "which is the right level for a total function on strings whose branch order is the contract."
)
LEVEL_NOTE = (
    "Field alphabets are representative mutations, not all strings; HMAC-SHA256/hashlib and falcon are trusted; the "
    "wall clock is injected through now=, the cache clock through NonceCache(clock=)."
)
ASSUMPTIONS = [
    "WSGI presents repeated headers joined by ',' (PEP 3333), so 'more than one instance' is observed as a comma in the value",
    "nonce memory is exactly skew seconds (spec section 10); the boundary instant itself is not probed",
    "non-canonical trailing base64 bits in mac: accept / bad_mac / malformed all allowed (spec silent)",
]

NOW = 1_700_000_000
ORIGIN = "worker-a.example:8443/rpc_1"
S1 = bytes(range(1, 33))
S2 = bytes(range(101, 133))
S3 = bytes(range(201, 233))
S9 = b"\x09" * 32
L64 = "L" + "0123456789abcdefghijklmnopqrstuvwxyzABCDEFGHIJKLMNOPQRSTUVWXYZ-"  # 64 chars
assert len(L64) == 64
KEYMAPS: dict[str, dict[str, tuple[bytes, str]]] = {
    "single": {"k1": (S1, "proxyA"), L64: (S3, "long")},
    "rotate": {"k1": (S1, "proxyA"), "k1-v2": (S2, "proxyA"), L64: (S3, "long")},
    "two": {"k1": (S1, "proxyA"), "k2": (S2, "proxyB"), L64: (S3, "long")},
}
N0 = "Aa0-_Zz9QwErTyUiOpAsDg"
N1 = "Bb1-_Yy8QwErTyUiOpAsDw"
assert len(N0) == 22 and len(N1) == 22
REASONS = ("no_proof", "malformed", "unknown_kid", "expired", "not_yet_valid", "bad_mac", "replayed")

# ======================================================================================================
# Reference model (transcribed from docs/proxy-proof-spec.md; independent of vgi_rpc)
# ======================================================================================================
_UP = "ABCDEFGHIJKLMNOPQRSTUVWXYZ"
_LO = "abcdefghijklmnopqrstuvwxyz"
_DG = "0123456789"
B64URL = _UP + _LO + _DG + "-_"  # value order of RFC 4648 section 5
_B64SET = frozenset(B64URL)
_DGSET = frozenset(_DG)
_B64VAL = {c: i for i, c in enumerate(B64URL)}


def _all_in(s: str, allowed: frozenset[str]) -> bool:
    for c in s:
        if c not in allowed:
            return False
    return True


def ref_b64(raw: bytes) -> str:
    bits = int.from_bytes(raw, "big")
    nbits = len(raw) * 8
    pad = (-nbits) % 6
    bits <<= pad
    n = (nbits + pad) // 6
    return "".join(B64URL[(bits >> (6 * (n - 1 - i))) & 63] for i in range(n))


def ref_mac(secret: bytes, kid: str, ts: str, nonce: str, origin: str) -> bytes:
    def e(s: str) -> bytes:
        return s.encode("utf-8", "surrogatepass")

    msg = b"vgi.proxy.proof.v1\x00" + e(kid) + b"\x00" + e(ts) + b"\x00" + e(nonce) + b"\x00" + e(origin)
    return hmac.new(secret, msg, hashlib.sha256).digest()


def ref_decide(raw: str | None, now: int, keymap: dict[str, tuple[bytes, str]], origin: str, skew: int,
               seen: Any) -> tuple[frozenset[str], str | None, str | None]:
    """Return (acceptable outcomes, kid if accepted, nonce to record if accepted)."""
    # 1 header absent
    if raw is None:
        return frozenset(["no_proof"]), None, None
    # 2 more than one instance (comma-joined), empty, > 512 bytes
    if "," in raw or raw == "" or len(raw.encode("utf-8", "surrogatepass")) > 512:
        return frozenset(["malformed"]), None, None
    # 3 exactly five dot-separated fields, field 0 == v1
    f = raw.split(".")
    if len(f) != 5 or f[0] != "v1":
        return frozenset(["malformed"]), None, None
    kid, ts, nonce, mac = f[1], f[2], f[3], f[4]
    # 4 charsets
    if not (1 <= len(kid) <= 64 and _all_in(kid, _B64SET)):
        return frozenset(["malformed"]), None, None
    if not (1 <= len(ts) <= 20 and _all_in(ts, _DGSET)):
        return frozenset(["malformed"]), None, None
    if not (len(nonce) == 22 and _all_in(nonce, _B64SET)):
        return frozenset(["malformed"]), None, None
    if not (len(mac) == 43 and _all_in(mac, _B64SET)):
        return frozenset(["malformed"]), None, None
    # 5 kid known
    if kid not in keymap:
        return frozenset(["unknown_kid"]), None, None
    t = 0
    for c in ts:
        t = t * 10 + _DG.index(c)
    # 6 / 7 two-sided window
    if now - t > skew:
        return frozenset(["expired"]), None, None
    if t - now > skew:
        return frozenset(["not_yet_valid"]), None, None
    # 8 MAC
    expected = ref_mac(keymap[kid][0], kid, ts, nonce, origin)
    bits = 0
    for c in mac:
        bits = (bits << 6) | _B64VAL[c]
    received = (bits >> 2).to_bytes(32, "big")
    if received != expected:
        return frozenset(["bad_mac"]), None, None
    final = "replayed" if seen(nonce) else "ok"
    if bits & 3:
        return frozenset([final, "bad_mac", "malformed"]), None, None  # non-canonical tail: spec silent
    # 9 replay
    if final == "replayed":
        return frozenset(["replayed"]), None, None
    return frozenset(["ok"]), kid, nonce


def mint(secret: bytes, kid: str, ts: str, nonce: str, origin: str = ORIGIN) -> str:
    return f"v1.{kid}.{ts}.{nonce}.{ref_b64(ref_mac(secret, kid, ts, nonce, origin))}"


# ======================================================================================================
# Field alphabets (first entry of each = unmutated)
# ======================================================================================================
VERSIONS = [("v=", "v1"), ("v2", "v2"), ("V1", "V1"), ("v1sp", "v1 "), ("vemp", ""), ("v10", "v10"), ("v", "v"),
            ("v1nl", "v1\n")]
KIDS = [
    ("k=", "k1"), ("krot", "k1-v2"), ("k2", "k2"), ("kL64", L64), ("kcase", "K1"), ("kpre", "k"), ("kext", "k1x"),
    ("k9", "k9"), ("kemp", ""), ("k65", L64 + "x"), ("ksp", "k 1"), ("kplus", "k+1"), ("kslash", "k/1"),
    ("keq", "k1="), ("knl", "k1\n"), ("kna", "ké"), ("knul", "k1\x00"), ("kcomma", "k1,k2"), ("kudig", "k١"),
    ("kok", "k_1-A"), ("kdot", "k1.k2"),
]


def ts_alphabet(now: int, skew: int) -> list[tuple[str, str]]:
    n = str(now)
    out = [
        ("t=", n), ("t-s", str(now - skew)), ("t-s-1", str(now - skew - 1)), ("t+s", str(now + skew)),
        ("t+s+1", str(now + skew + 1)), ("t-s+1", str(now - skew + 1)), ("t+s-1", str(now + skew - 1)),
        ("tlz", "000" + n), ("t20", n.rjust(20, "0")), ("t21", n.rjust(21, "0")), ("t0", "0"), ("t9x20", "9" * 20),
        ("temp", ""), ("tplus", "+" + n), ("tminus", "-" + n), ("tsp", n + " "), ("tlsp", " " + n), ("tnl", n + "\n"),
        ("tund", n[:1] + "_" + n[1:]), ("tarab", "".join(chr(0x0660 + int(c)) for c in n)),
        ("tfull", "".join(chr(0xFF10 + int(c)) for c in n)), ("texp", "17e8"), ("thex", "0x6553f100"),
        ("tdot", n + ".0"),
    ]
    seen: set[str] = set()
    res = []
    for tag, v in out:  # skew=1 makes some offsets coincide
        if v in seen:
            continue
        seen.add(v)
        res.append((tag, v))
    return res


NONCES = [
    ("n=", N0), ("n1", N1), ("n21", N0[:21]), ("n23", N0 + "A"), ("nemp", ""), ("nplus", "+" + N0[1:]),
    ("nslash", N0[:5] + "/" + N0[6:]), ("neq", N0[:21] + "="), ("npad", N0 + "=="), ("nna", N0[:10] + "é" + N0[11:]),
    ("nnl", N0 + "\n"), ("nnl21", N0[:21] + "\n"), ("nsp", N0[:21] + " "), ("nnul", "\x00" + N0[1:]),
    ("ndot", N0[:10] + "." + N0[11:]),
]
MACS = ["m=", "msec2", "msec3", "morig", "morigx", "mfrdot", "mnopre", "mnoorig", "mflip0", "mfliplast", "mnoncanon",
        "m42", "m44", "mpad", "mlasteq", "mplus", "mslash", "mna", "memp", "mnl", "mnl42", "msp", "mhex", "mzero"]


def make_mac(tag: str, keymap: dict[str, tuple[bytes, str]], kid: str, ts: str, nonce: str) -> str:
    secret = keymap[kid][0] if kid in keymap else S9
    good = ref_b64(ref_mac(secret, kid, ts, nonce, ORIGIN))
    if tag == "m=":
        return good
    if tag == "msec2":  # signed with another proxy's secret (kid <-> secret mismatch)
        return ref_b64(ref_mac(S2 if secret != S2 else S1, kid, ts, nonce, ORIGIN))
    if tag == "msec3":
        return ref_b64(ref_mac(S3 if secret != S3 else S1, kid, ts, nonce, ORIGIN))
    if tag == "morig":
        return ref_b64(ref_mac(secret, kid, ts, nonce, "worker-b.example:8443/rpc_1"))
    if tag == "morigx":
        return ref_b64(ref_mac(secret, kid, ts, nonce, ORIGIN + "x"))
    e = lambda s: s.encode("utf-8", "surrogatepass")  # noqa: E731
    if tag == "mfrdot":
        return ref_b64(hmac.new(secret, b".".join([b"vgi.proxy.proof.v1", e(kid), e(ts), e(nonce), e(ORIGIN)]), hashlib.sha256).digest())
    if tag == "mnopre":
        return ref_b64(hmac.new(secret, b"\x00".join([e(kid), e(ts), e(nonce), e(ORIGIN)]), hashlib.sha256).digest())
    if tag == "mnoorig":
        return ref_b64(hmac.new(secret, b"\x00".join([b"vgi.proxy.proof.v1", e(kid), e(ts), e(nonce)]), hashlib.sha256).digest())
    if tag == "mflip0":
        return ("B" if good[0] != "B" else "C") + good[1:]
    if tag == "mfliplast":  # change significant bits of the last character (stay canonical: low 2 bits zero)
        v = _B64VAL[good[-1]]
        return good[:-1] + B64URL[(v + 4) % 64 & ~3]
    if tag == "mnoncanon":
        v = _B64VAL[good[-1]]
        return good[:-1] + B64URL[v | 1]
    if tag == "m42":
        return good[:42]
    if tag == "m44":
        return good + "A"
    if tag == "mpad":
        return good + "="
    if tag == "mlasteq":
        return good[:42] + "="
    if tag == "mplus":
        return good[:7] + "+" + good[8:]
    if tag == "mslash":
        return good[:7] + "/" + good[8:]
    if tag == "mna":
        return good[:7] + "é" + good[8:]
    if tag == "memp":
        return ""
    if tag == "mnl":
        return good + "\n"
    if tag == "mnl42":
        return good[:42] + "\n"
    if tag == "msp":
        return good[:42] + " "
    if tag == "mhex":
        return ref_mac(secret, kid, ts, nonce, ORIGIN).hex()[:43]
    if tag == "mzero":
        return "A" * 43
    raise AssertionError(tag)


# ======================================================================================================
# Harness around the real code
# ======================================================================================================
class Env:
    """One verifier configuration with all three observation levels sharing a virtual clock."""

    def __init__(self, km: str, skew: int, cache: bool, levels: tuple[str, ...]) -> None:
        import falcon
        import falcon.testing as ft

        from vgi_rpc.http import _proof

        self.km, self.skew, self.cache_on, self.levels = km, skew, cache, levels
        self.keymap = KEYMAPS[km]
        self.wall = NOW
        self.mono = 1000.0
        self._proof = _proof
        self._falcon = falcon
        self._ft = ft
        self.ProofError = _proof.ProofError
        real_cache = _proof.NonceCache
        self.caches: dict[str, Any] = {}
        self.model_seen: dict[str, dict[str, float]] = {lv: {} for lv in levels}
        if "verify" in levels:
            self.caches["verify"] = real_cache(ttl_seconds=skew, capacity=1000, clock=lambda: self.mono) if cache else None
        self.gates: dict[str, Any] = {}
        for lv in ("allow", "require"):
            if lv not in levels:
                continue
            made: list[Any] = []

            def factory(*a: Any, **kw: Any) -> Any:
                kw.setdefault("clock", lambda: self.mono)
                c = real_cache(*a, **kw)
                made.append(c)
                return c

            cfg = _proof.ProxyProofConfig(mode=lv, origin_id=ORIGIN, secrets=self.keymap, skew_seconds=skew,  # type: ignore[arg-type]
                                          replay_capacity=1000, enable_replay_cache=cache)
            _proof.NonceCache = factory  # type: ignore[assignment,misc]
            try:
                self.gates[lv] = _proof.proxy_proof_gate(cfg, now=lambda: self.wall)
            finally:
                _proof.NonceCache = real_cache  # type: ignore[misc]
            if cache and len(made) != 1:
                from vf.core.runner import HarnessError

                raise HarnessError(f"expected the gate to build exactly one NonceCache, saw {len(made)}")
            self.caches[lv] = made[0] if made else None
        self.app = None
        self.ref401: Any = None
        if "require" in levels:
            from vgi_rpc.http import require_all
            from vgi_rpc.http._testing import make_sync_client
            from vgi_rpc.rpc import RpcServer

            from vf.kit import prog

            srv = RpcServer(prog.ScriptSvc, prog.ScriptImpl())
            client = make_sync_client(srv, authenticate=require_all(self.gates["require"]), token_key=b"k" * 32)
            self.app = client._client.app
            self.ref401 = self.wsgi(None)

    # ---- state --------------------------------------------------------------------------------------
    def reset(self) -> None:
        self.wall = NOW
        self.mono = 1000.0
        for c in self.caches.values():
            if c is not None:
                c._entries.clear()
        for d in self.model_seen.values():
            d.clear()

    def advance(self, dt: int) -> None:
        self.wall += dt
        self.mono += dt

    # ---- real code ----------------------------------------------------------------------------------
    def request(self, raw: str | None) -> Any:
        env = self._ft.create_environ(path="/vgi/echo", method="POST")
        if raw is not None:
            env["HTTP_VGI_PROXY_PROOF"] = raw
        return env

    def wsgi(self, raw: str | None) -> tuple[str, tuple[tuple[str, str], ...], bytes]:
        env = self.request(raw)
        env["wsgi.input"] = io.BytesIO(b"")
        env["CONTENT_LENGTH"] = "0"
        box: list[Any] = []

        def start_response(status: str, headers: list[tuple[str, str]], exc_info: Any = None) -> Any:
            box.append((status, headers))
            return lambda b: None

        it = self.app(env, start_response)
        try:
            body = b"".join(it)
        finally:
            close = getattr(it, "close", None)
            if close:
                close()
        status, headers = box[0]
        hs = tuple(sorted((k.lower(), v) for k, v in headers if k.lower() != "x-request-id"))
        return status, hs, body

    def observe(self, level: str, raw: str | None) -> tuple[str, Any]:
        """Run the real code; return (outcome, detail)."""
        try:
            if level == "verify":
                assert raw is not None
                try:
                    claims = self._proof.verify_proof(raw, secrets=self.keymap, origin_id=ORIGIN, skew_seconds=self.skew,
                                                      nonce_cache=self.caches["verify"], now=self.wall)
                except self.ProofError as e:
                    return str(e.reason), None
                return str(claims.get("reason")), dict(claims)
            if level == "allow":
                claims = self.gates["allow"](self._falcon.Request(self.request(raw)))
                return str(claims.get("reason")), dict(claims)
            if level == "require":
                resp = self.wsgi(raw)
                if resp[0].startswith("401"):
                    return "401", resp
                return "pass", resp
        except BaseException as e:  # noqa: BLE001 - "never raising anything else"
            if isinstance(e, (KeyboardInterrupt, SystemExit, MemoryError)):
                raise
            return f"EXC:{type(e).__name__}", repr(e)[:300]
        raise AssertionError(level)

    # ---- model --------------------------------------------------------------------------------------
    def expect(self, level: str, raw: str | None) -> tuple[frozenset[str], str | None]:
        seen_map = self.model_seen[level]
        mono, skew = self.mono, self.skew

        def seen(n: str) -> bool:
            return self.cache_on and n in seen_map and mono - seen_map[n] < skew

        acc, kid, nonce = ref_decide(raw, self.wall, self.keymap, ORIGIN, self.skew, seen)
        if nonce is not None and self.cache_on:
            seen_map[nonce] = mono
        return acc, kid


def judge(env: Env, level: str, raw: str | None, acc: frozenset[str], kid: str | None, got: str, detail: Any) -> str | None:
    """Return None if the observation agrees with the model, else a short description."""
    if got.startswith("EXC:"):
        return f"raised {detail}"
    if level == "require":
        if acc == frozenset(["ok"]):
            return None if got == "pass" else f"valid proof refused with {detail[0]}"
        if "ok" in acc:  # ambiguous (non-canonical mac): either is fine, but a refusal must still be uniform
            if got == "pass":
                return None
        elif got == "pass":
            return f"request served (status {detail[0]}) although the table says {sorted(acc)}"
        if detail != env.ref401:
            return "401 differs from the absent-header 401 (not uniform)"
        return None
    if got not in acc:
        return f"table says {sorted(acc)}, verifier says {got!r}"
    if got == "ok":
        want = {"verified": "true", "proxy": env.keymap[kid][1] if kid else None, "kid": kid, "origin_id": ORIGIN, "reason": "ok"}
        if kid is not None and detail != want:
            return f"claims {detail} != {want}"
        if kid is None and (detail.get("verified") != "true"):
            return f"claims {detail}"
    elif level == "allow":
        if detail.get("verified") != "false" or detail.get("proxy"):
            return f"failure claims carry attribution: {detail}"
    return None


# ======================================================================================================
# Enumeration
# ======================================================================================================
def configs(ctx: Ctx) -> list[tuple[str, int, bool]]:
    out = []
    for km in ("single", "rotate", "two"):
        for skew in (30, 1):
            out.append((km, skew, True))
    out.append(("single", 30, False))
    return out


def fkey(level: str, acc: frozenset[str], got: str, tags: tuple[str, ...]) -> str:
    exp = "|".join(sorted(acc))
    t = "+".join(tags) if len(tags) <= 2 else "multi"
    g = got if not got.startswith("EXC:") else got
    return f"{level}:{t or 'base'}:want={exp}:got={g}"


def bump(ctx: Ctx, exp_s: str) -> None:
    k = _EXPKEY.get(exp_s)
    if k is None:
        k = _EXPKEY[exp_s] = "by_expected_" + exp_s.replace("|", "_or_")
    ctx.extra[k] = ctx.extra.get(k, 0) + 1


_EXPKEY: dict[str, str] = {}


def run_steps(ctx: Ctx, env: Env, levels: tuple[str, ...], steps: list[tuple[str | None, int]], tags: tuple[str, ...],
              group: str, sample: bool = False) -> None:
    """Push the request sequence *steps* [(raw, dt_before)] through each level of *env*.

    Every step is judged; only the last one is counted as an evaluation (the earlier ones are the history).
    """
    for level in levels:
        if level == "verify" and any(r is None for r, _ in steps):
            continue
        env.reset()
        for i, (raw, dt) in enumerate(steps):
            if dt:
                env.advance(dt)
            acc, kid = env.expect(level, raw)
            got, detail = env.observe(level, raw)
            last = i == len(steps) - 1
            bad = judge(env, level, raw, acc, kid, got, detail)
            if last:
                exp_s = "|".join(sorted(acc))
                if len(tags) <= 2:
                    nt = f"{level[0]}{exp_s[:5]}{'+'.join(tags)}"[:16]
                else:
                    nt = f"{level[0]}{exp_s[:9]}:m{len(tags)}"[:16]
                ctx.case(
                    sample={"level": level, "km": env.km, "skew": env.skew, "steps": [[r if r is None else r[:120], d] for r, d in steps],
                            "expected": exp_s, "got": got} if sample else None,
                    nontrivial=nt, outcome=f"{level[0]}:{got}"[:16],
                )
                bump(ctx, exp_s)
            if bad is not None:
                rep = {"group": group, "level": level, "km": env.km, "skew": env.skew, "cache": env.cache_on,
                       "steps": [[r, d] for r, d in steps[: i + 1]], "tags": list(tags)}
                ktags = tuple(t for t in tags if t != "seen") if last else ("history-step",)
                ctx.fail(fkey(level, acc, got, ktags), f"{bad}; header={raw!r:.200} cfg={env.km}/skew{env.skew}/cache={env.cache_on} step {i} tags={tags}", rep)


def struct_headers(keymap: dict[str, tuple[bytes, str]]) -> list[tuple[str, str | None]]:
    ts = str(NOW)
    base = mint(S1, "k1", ts, N0)
    f = base.split(".")
    out: list[tuple[str, str | None]] = [("absent", None), ("empty", ""), ("blank", " "), ("tab", "\t"), ("dots4", "...."), ("dots5", "....."),
                                         ("garbage", "garbage"), ("v1only", "v1")]
    for i in range(5):
        out.append((f"drop{i}", ".".join(f[:i] + f[i + 1:])))
        out.append((f"dup{i}", ".".join(f[:i] + [f[i]] + f[i:])))
        out.append((f"ins{i}", ".".join(f[:i] + [""] + f[i:])))
    out.append(("trail.", base + "."))
    out.append(("lead.", "." + base))
    out.append(("x6", base + ".x"))
    for sep_tag, sep in (("comma", ","), ("colon", ":"), ("space", " "), ("nul", "\x00"), ("dotdot", ".."), ("udot", "．"), ("semi", ";")):
        for i in range(4):
            out.append((f"sep{sep_tag}{i}", ".".join(f[: i + 1]) + sep + ".".join(f[i + 1:])))
    out += [
        ("lsp", " " + base), ("tsp", base + " "), ("tnl", base + "\n"), ("tcrlf", base + "\r\n"), ("lnl", "\n" + base), ("quoted", '"' + base + '"'),
        ("bearer", "Bearer " + base), ("upper", base.upper()), ("lower", base.lower()),
        ("dupc", base + "," + base), ("dupcs", base + ", " + base), ("dup2", base + ", " + mint(S1, "k1", ts, N1)),
        ("tcomma", base + ","), ("lcomma", "," + base), ("commaonly", ","), ("tnul", base + "\x00"), ("bom", "﻿" + base),
    ]
    # total length 511 / 512 / 513 (and far beyond): by an over-long kid, by a sixth field, by trailing junk on mac
    for total in (511, 512, 513, 65536):
        pad = total - len(base)
        out.append((f"len{total}kid", mint(S1, "k1" + "a" * pad, ts, N0)))
        out.append((f"len{total}f6", base + "." + "A" * (pad - 1)))
        out.append((f"len{total}mac", base + "A" * pad))
        out.append((f"len{total}sp", base + " " * pad))
        out.append((f"len{total}na", "é" * total))
    return out


HIST_KINDS = ("a", "areplay", "b", "crot", "dbad", "eexp", "ffut", "gmal", "hunk")


def hist_token(kind: str, env: Env, first_a: list[str]) -> str:
    """Token of request kind *kind* minted at the current virtual wall clock."""
    ts = str(env.wall)
    if kind == "a":
        tok = mint(S1, "k1", ts, N0)
        if not first_a:
            first_a.append(tok)
        return tok
    if kind == "areplay":  # byte-identical replay of the first 'a' token (or of a never-sent one)
        return first_a[0] if first_a else mint(S1, "k1", str(NOW), N0)
    if kind == "b":
        return mint(S1, "k1", ts, N1)
    if kind == "crot":  # same nonce under another configured kid (unknown_kid on maps without it)
        return mint(S2, "k1-v2", ts, N0)
    if kind == "dbad":
        return mint(S9, "k1", ts, N0)
    if kind == "eexp":
        return mint(S1, "k1", str(env.wall - env.skew - 1), N0)
    if kind == "ffut":
        return mint(S1, "k1", str(env.wall + env.skew + 1), N0)
    if kind == "gmal":
        return mint(S1, "k1", ts, N0) + "="
    if kind == "hunk":
        return mint(S1, "k9", ts, N0)
    raise AssertionError(kind)


def run_history(ctx: Ctx, env: Env, levels: tuple[str, ...], seq: tuple[tuple[str, int], ...]) -> None:
    """One history: tokens are minted at the moving clock; all steps run, the LAST step is judged and counted
    (every proper prefix is itself an enumerated sequence)."""
    for level in levels:
        env.reset()
        first_a: list[str] = []
        for i, (kind, dt) in enumerate(seq):
            if dt:
                env.advance(dt)
            raw = hist_token(kind, env, first_a)
            acc, kid = env.expect(level, raw)
            got, detail = env.observe(level, raw)
            if i < len(seq) - 1:
                continue
            bad = judge(env, level, raw, acc, kid, got, detail)
            exp_s = "|".join(sorted(acc))
            shape = ">".join(f"{k}{'' if d == 0 else ('~' if d < 3 * env.skew else '^')}" for k, d in seq)
            ctx.case(
                sample={"level": level, "km": env.km, "skew": env.skew, "history": [list(x) for x in seq], "expected": exp_s, "got": got}
                if (len(seq) >= 3 and exp_s == "replayed" and level == "allow" and seq[1][1] and seq[2][0] == "a") else None,
                nontrivial="H" + level[0] + shape, outcome=f"{level[0]}:{got}"[:16],
            )
            bump(ctx, exp_s)
            if bad is not None:
                rep = {"group": "history", "level": level, "km": env.km, "skew": env.skew, "cache": env.cache_on, "seq": [list(x) for x in seq]}
                ctx.fail(f"{level}:history:{shape}:want={exp_s}:got={got}", f"{bad}; history={seq} cfg={env.km}/skew{env.skew}/cache={env.cache_on}", rep)


def bulk_item(ctx: Ctx, env: Env, levels_small: tuple[str, ...], vi: int, ki: int, max_mut_small: int, full: bool,
              tsa: list[tuple[str, str]], seen_tok: str) -> None:
    vtag, v = VERSIONS[vi]
    ktag, k = KIDS[ki]
    nbase = (vi != 0) + (ki != 0)
    for ti, (ttag, t) in enumerate(tsa):
        for ni, (ntag, n) in enumerate(NONCES):
            for mi, mtag in enumerate(MACS):
                nmut = nbase + (ti != 0) + (ni != 0) + (mi != 0)
                if nmut > max_mut_small and not full:
                    continue
                levels = levels_small if nmut <= max_mut_small else ("verify",)
                raw = f"{v}.{k}.{t}.{n}.{make_mac(mtag, env.keymap, k, t, n)}"
                tags = tuple(x for x, on in ((vtag, vi), (ktag, ki), (ttag, ti), (ntag, ni), (mtag, mi)) if on)
                smp = nmut == 2 and (ti + ni + mi) % 97 == 5
                run_steps(ctx, env, levels, [(raw, 0)], tags, "bulk", sample=smp)
                run_steps(ctx, env, levels, [(seen_tok, 0), (raw, 0)], tags + ("seen",), "bulk")


def run(ctx: Ctx) -> None:
    logging.disable(logging.CRITICAL)
    all_levels = ("verify", "allow", "require")
    ctx.extra.update({"bulk_version_kid_items": 0, "struct_headers": 0, "history_sequences": 0, "max_configs": 0})
    envs: dict[tuple[str, int, bool], Env] = {}

    def env_for(c: tuple[str, int, bool]) -> Env:
        if c not in envs:
            e = envs[c] = Env(c[0], c[1], c[2], all_levels)
            status, hs, body = e.ref401
            blob = body + b"\n" + repr(hs).encode()
            leaked = [r for r in REASONS if r.encode() in blob]
            if not status.startswith("401") or leaked:
                ctx.fail("require:absent-header-401:" + ("status" if not status.startswith("401") else "echoes-" + leaked[0]),
                         f"the 401 for an absent header is {status} and contains reason codes {leaked}", None)
        return envs[c]

    max_small = 2 if ctx.quick else 3
    for cfg in configs(ctx):
        tsa = ts_alphabet(NOW, cfg[1])
        # ---- bulk: top-level item = (config, version, kid) ------------------------------------------
        for vi in range(len(VERSIONS)):
            for ki in range(len(KIDS)):
                nb = (vi != 0) + (ki != 0)
                if nb > max_small and not ctx.thorough:
                    continue
                if not ctx.mine():
                    continue
                env = env_for(cfg)
                seen_tok = mint(S1, "k1", str(NOW), N0)
                bulk_item(ctx, env, all_levels, vi, ki, max_small, ctx.thorough, tsa, seen_tok)
                ctx.extra["bulk_version_kid_items"] += 1
        # ---- struct -----------------------------------------------------------------------------------
        for tag, raw in struct_headers(KEYMAPS[cfg[0]]):
            if not ctx.mine():
                continue
            env = env_for(cfg)
            run_steps(ctx, env, all_levels, [(raw, 0)], (tag,), "struct", sample=tag in ("empty", "dupcs", "len513f6"))
            run_steps(ctx, env, all_levels, [(mint(S1, "k1", str(NOW), N0), 0), (raw, 0)], (tag, "seen"), "struct")
            ctx.extra["struct_headers"] += 1
    # ---- history ----------------------------------------------------------------------------------------
    depth = 3 if ctx.quick else 4
    for cfg in (("rotate", 30, True), ("single", 30, True), ("rotate", 1, True), ("single", 30, False)):
        skew = cfg[1]
        dts = sorted({0, skew - 1, 3 * skew})
        alphabet = [(k, d) for k in HIST_KINDS for d in dts]
        for first in HIST_KINDS:
            for second in [None] + alphabet:  # top-level item = (config, first request, second request or none)
                if not ctx.mine():
                    continue
                env = env_for(cfg)
                if second is None:
                    run_history(ctx, env, all_levels, ((first, 0),))
                    ctx.extra["history_sequences"] += 1
                    continue
                for extra_len in range(0, depth - 1):
                    for rest in itertools.product(alphabet, repeat=extra_len):
                        seq = ((first, 0), second) + rest
                        run_history(ctx, env, all_levels if len(seq) <= 3 else ("verify", "allow"), seq)
                        ctx.extra["history_sequences"] += 1
    ctx.extra["max_configs"] = len(envs)


def replay(ctx: Ctx, case: dict[str, Any]) -> None:
    logging.disable(logging.CRITICAL)
    env = Env(case["km"], case["skew"], case["cache"], (case["level"],))
    if case["group"] == "history":
        run_history(ctx, env, (case["level"],), tuple((k, d) for k, d in case["seq"]))
    else:
        run_steps(ctx, env, (case["level"],), [(r, d) for r, d in case["steps"]], tuple(case.get("tags", [])), case["group"])

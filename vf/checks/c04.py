"""C04 — A socket connection stays usable after any call outcome (E2: all call histories up to a depth).

One long-lived connection to the script service (``vf.kit.prog``).  Every history of events of length
<= D (quick D=2, thorough D=3 on MemTransport, D=2 on the real transports) is executed on a FRESH real
connection; after *every* event a probe ``echo(n)`` with a fresh ``n`` must return ``n``.

Event menu (one per call outcome named in the property): ok unary; method raises; init raises; header
declared but ``header=None``; method returns a non-Stream; unknown method; bad request_version; parameter
rejection (wrong column type / null in non-optional); producer error at first / middle / last step; exchange
error; client close after 0/1/all batches; cancel after 0/1; ``on_log`` raising during a unary, during stream
init (before the header) and during a stream turn; calls whose arguments the client itself cannot encode (wrong
Python type, integer overflow, lone surrogate, None, unary and stream methods).

Oracle: (a) the event's own client-visible trace equals the reference interpreter's (``prog.expected``) where
the property defines it; raw-framed events must be answered by an error stream; (b) the probe after the event
returns its own number — not an earlier response, not an error, not EOF; (c) no hang: MemTransport detects
"both ends blocked reading" deterministically; on OS transports a 20 s watchdog expiry is the hang.

The canonical state recorded for the evidence is (serve loop alive, client inbound bytes pending, server
inbound bytes pending, last event outcome class); histories are NOT pruned on it (the server may keep hidden
per-connection state such as the shm attachment cache), so every history is really executed.
"""

from __future__ import annotations

import itertools
import threading
from typing import Any

from vf.core.runner import Ctx
from vf.kit import mem, prog, raw
from vf.kit.transports import Conn

PROPERTY = "C04"
LEVEL = "model_checking"
ENGINE = "E2-BFS"
SHARDS = {"quick": 8, "thorough": 16}
RULE = (
    "every history of length <= D over a 45-event menu of call outcomes on one fresh real connection per history, "
    "probe echo(n) after each event; non-trivial = history whose last event is not the plain ok-unary; distinct = "
    "(transport, history)"
)
TECHNIQUE = "explicit enumeration of all call/fault histories up to depth D against the real server and client, probe-after-each-event invariant, deterministic deadlock detection"
LEVEL_TEXT = (
    "All histories up to the stated depth are executed on the real RpcServer.serve loop and the real client over an "
    "in-memory transport with deterministic hang detection (and over the OS transports in the thorough tier); the "
    "property is about what the *next* call sees after any outcome, which only chaining outcomes reaches."
)
LEVEL_NOTE = "Depth 2 (quick) / 3 (thorough, MemTransport); data values fixed; OS transports use a 20 s watchdog as hang oracle."
ASSUMPTIONS = ["client and server are single-threaded per connection (as documented)", "MemTransport models an unbounded pipe"]


class LogBoom(Exception):
    pass


from typing import Protocol  # noqa: E402

from vgi_rpc.rpc import Stream  # noqa: E402


class SvcV1(prog.ScriptSvc, Protocol):
    """The script service with a declared protocol version (server and ordinary client)."""

    protocol_version = "1.0.0"


class SvcV2(prog.ScriptSvc, Protocol):
    """A client built against another major version: every call is refused by the version gate."""

    protocol_version = "2.0.0"


class SvcBadParams(Protocol):
    """A client whose idea of the stream methods' parameters differs: the server rejects the request."""

    protocol_version = "1.0.0"

    def produce(self, script: int) -> Stream[prog.ScriptProducer]:
        """Producer with a wrongly typed parameter."""
        ...

    def exch(self, script: int) -> Stream[prog.ScriptExchange]:
        """Exchange with a wrongly typed parameter."""
        ...

    def unary(self, script: int, x: int) -> int:
        """Unary with a wrongly typed parameter."""
        ...


# events run through a *different* client proxy on the same transport
ALT = {
    "version-unary": (SvcV2, "unary"),
    "version-produce": (SvcV2, "produce"),
    "version-produce-hdr": (SvcV2, "produce_h"),
    "version-exch": (SvcV2, "exch"),
    "badparam-unary": (SvcBadParams, "unary"),
    "badparam-produce": (SvcBadParams, "produce"),
    "badparam-exch": (SvcBadParams, "exch"),
}


STEPS3 = [[["emit", 1, None]], [["log", "INFO", "s1"], ["emit", 2, {"m": "v"}]], [["emit", 1, None], ["finish"]]]


def ev_calls() -> dict[str, Any]:
    C = prog.Call
    e: dict[str, Any] = {
        "ok": C("unary", {"acts": [["log", "INFO", "a"], ["ret", 3]]}),
        "raise": C("unary", {"acts": [["log", "WARN", "w"], ["raise", "ValueError", "bad"]]}),
        "init-raise": C("produce", {"init": [["raise", "BoomError", "i"]]}),
        # the client never ticks: it closes / cancels the session it was handed
        "init-raise-close0": C("produce", {"init": [["raise", "BoomError", "i"]]}, consume=["take", 0, "close"]),
        "init-raise-cancel0": C("produce", {"init": [["raise", "BoomError", "i"]]}, consume=["take", 0, "cancel"]),
        "xinit-raise": C("exch", {"init": [["raise", "BoomError", "xi"]]}, inputs=[[1]]),
        "hdr-none": C("produce_h", {"hdr": "none", "steps": STEPS3}),
        "non-stream": C("produce", {"bad_return": True}),
        "prod-err0": C("produce", {"steps": [[["raise", "RuntimeError", "p0"]]]}),
        "prod-err1": C("produce", {"steps": [[["log", "INFO", "x"], ["emit", 1, None]], [["raise", "RuntimeError", "p1"]], [["emit", 1, None]]]}),
        "prod-err-last": C("produce", {"steps": [[["emit", 1, None]], [["emit", 1, None]], [["raise", "KeyError", "pl"]]]}),
        "exch-err": C("exch", {"steps": [[["echo", 2, None]], [["raise", "ValueError", "e1"]]]}, inputs=[[1], [2], [3]]),
        "exch-ok": C("exch_h", {"hdr": 4, "steps": [[["log", "INFO", "e"], ["echo", 3, None]]]}, inputs=[[1, 2], [5]]),
        "prod-all": C("produce_h", {"hdr": 1, "init": [["log", "INFO", "i"]], "steps": STEPS3}),
        "close0": C("produce", {"steps": STEPS3}, consume=["take", 0, "close"]),
        "close1": C("produce", {"steps": STEPS3}, consume=["take", 1, "close"]),
        "cancel0": C("produce", {"steps": STEPS3}, consume=["take", 0, "cancel"]),
        "cancel1": C("produce", {"steps": STEPS3}, consume=["take", 1, "cancel"]),
        "xcancel1": C("exch", {}, consume=["take", 1, "cancel"], inputs=[[1], [2]]),
    }
    return e


RAW = ["unknown-method", "bad-version", "param-type", "param-null"]
PV = {b"vgi_rpc.protocol_version": b"1.0.0"}
LOGRAISE = {
    "onlog-unary": prog.Call("unary", {"acts": [["log", "INFO", "a"], ["log", "INFO", "b"], ["ret", 1]]}),
    "onlog-init": prog.Call("produce_h", {"hdr": 2, "init": [["log", "INFO", "i"]], "steps": STEPS3}),
    "onlog-stream": prog.Call("produce", {"steps": [[["log", "INFO", "s"], ["emit", 1, None]], [["emit", 1, None]]]}),
    # a callback that is simply broken raises on EVERY message, also while the framework is cleaning up
    "onlog-unary-every": prog.Call("unary", {"acts": [["log", "INFO", "a"], ["log", "WARN", "b"], ["log", "INFO", "c"], ["ret", 1]]}),
    "onlog-init-every": prog.Call("produce_h", {"hdr": 2, "init": [["log", "INFO", "i"], ["log", "INFO", "j"]], "steps": STEPS3}),
    "onlog-stream-every": prog.Call(
        "produce", {"steps": [[["log", "INFO", "s"], ["log", "INFO", "t"], ["emit", 1, None]], [["log", "INFO", "u"], ["emit", 1, None]]]}
    ),
}


# calls whose arguments the CLIENT cannot put on the wire (whatever it raises, and whether it raises before or
# after it started writing, the connection must be usable afterwards)
BADARG: dict[str, tuple[str, dict[str, Any]]] = {
    "badarg-unary-str-for-int": ("unary", {"script": "{}", "x": "seven"}),
    "badarg-unary-list-for-int": ("unary", {"script": "{}", "x": [1, 2]}),
    "badarg-unary-int-overflow": ("unary", {"script": "{}", "x": 2**70}),
    "badarg-unary-surrogate": ("unary", {"script": "\ud800", "x": 1}),
    "badarg-unary-none": ("unary", {"script": None, "x": 1}),
    "badarg-echo-float": ("echo", {"n": 1.5}),
    "badarg-produce-surrogate": ("produce", {"script": "\ud800"}),
    "badarg-produce-bytes": ("produce", {"script": b"\xff"}),
    "badarg-exch-int": ("exch", {"script": 2**70}),
    "badarg-produce-hdr-surrogate": ("produce_h", {"script": "\udfff"}),
}


def menu(ctx: Ctx) -> list[str]:
    return list(ev_calls()) + RAW + list(LOGRAISE) + list(ALT) + list(BADARG)


def do_alt(conn: Conn, name: str, trace: list[Any]) -> str | None:
    """A call through a client proxy whose Protocol the server refuses (version gate / parameter contract).

    The client behaves as any client of that method kind does: for a stream it ticks / exchanges once and then
    closes.  The call must fail with an RpcError (the refusal); nothing else is asserted about it."""
    import json as _json

    from vgi_rpc.rpc import RpcError
    from vgi_rpc.rpc._client import _RpcProxy

    proto, method = ALT[name]
    proxy = _RpcProxy(proto, conn.ct, conn.on_log)
    script: Any = _json.dumps({"steps": STEPS3}) if proto is SvcV2 else 5
    try:
        if method == "unary":
            proxy.unary(script=script, x=1)
            return "refused call succeeded"
        sess = getattr(proxy, method)(script=script)
        try:
            if method.startswith("produce"):
                next(iter(sess))
            else:
                sess.exchange(prog.input_batch([1]))
            return "refused stream delivered a batch"
        finally:
            sess.close()
    except RpcError:
        return None
    except StopIteration:
        return "refused stream ended without an error"


def do_raw(conn: Conn, name: str) -> dict[str, Any]:
    import pyarrow as pa

    w, r = conn.ct.writer, conn.ct.reader
    if name == "unknown-method":
        data = raw.frame_request("no_such_method", {"x": [1]}, metadata=PV)
    elif name == "bad-version":
        data = raw.frame_request("echo", {"n": [1]}, request_version=b"999", metadata=PV)
    elif name == "param-type":
        data = raw.frame_request("echo", {"n": ["str"]}, metadata=PV)
    else:
        data = raw.frame_request(
            "echo", pa.RecordBatch.from_pydict({"n": [None]}, schema=pa.schema([pa.field("n", pa.int64())])), metadata=PV
        )
    w.write(data)
    w.flush()
    return raw.classify(raw.read_stream(r))


def run_history(kind: str, hist: tuple[str, ...]) -> list[dict[str, Any]]:
    """Execute *hist* on a fresh connection. Returns one record per event: {ev, own, probe}."""
    calls = ev_calls()
    mode: dict[str, Any] = {"raise_at": None, "n": 0}
    trace: list[Any] = []

    def on_log(m: Any) -> None:
        mode["n"] += 1
        if mode["raise_at"] is not None and (mode["raise_at"] == "every" or mode["n"] == mode["raise_at"]):
            raise LogBoom("on_log failed")
        trace.append(prog.log_event(m))

    out: list[dict[str, Any]] = []
    with Conn(kind, on_log=on_log, protocol=SvcV1, worker_module="vf.kit.c04_worker") as conn:
        for pos, ev in enumerate(hist):
            rec: dict[str, Any] = {"ev": ev, "own": None, "probe": None}
            out.append(rec)
            del trace[:]
            mode["raise_at"], mode["n"] = None, 0
            try:
                if ev in calls:
                    prog.run_call(conn.proxy, calls[ev], trace)
                    rec["own"] = prog.trace_matches(prog.expected(calls[ev]), trace)
                    if ev in ("init-raise-close0", "init-raise-cancel0"):
                        # a client that closes / cancels without ever ticking never reads the init error
                        # of a headerless stream; what it observes is not specified -- only the probe is judged
                        rec["own"] = None
                elif ev in ALT:
                    rec["own"] = do_alt(conn, ev, trace)
                elif ev in BADARG:
                    method, kwargs = BADARG[ev]
                    sess = None
                    try:
                        got = getattr(conn.proxy, method)(**kwargs)
                        if method not in ("unary", "echo"):
                            sess = got
                            if method.startswith("produce"):
                                next(iter(sess), None)
                            else:
                                sess.exchange(prog.input_batch([1]))
                    except mem.Deadlock:
                        raise
                    except Exception:  # noqa: BLE001 - the refusal itself is C02's subject; only the aftermath is judged here
                        pass
                    finally:
                        if sess is not None:
                            try:
                                sess.close()
                            except mem.Deadlock:
                                raise
                            except Exception:  # noqa: BLE001
                                pass
                    rec["own"] = None
                elif ev in RAW:
                    res = do_raw(conn, ev)
                    rec["own"] = None if res["error"] is not None and not res["data"] else f"raw request {ev} answered {res}"
                else:
                    # the callback raises on the first log of this call; whether the exception reaches the
                    # caller or is swallowed is not asserted.  A stream session the caller did obtain is
                    # closed by the caller (as `with session:` would); a failure *inside* the unary call or
                    # inside stream initialisation leaves nothing for the caller to close.
                    mode["raise_at"] = "every" if ev.endswith("-every") else 1
                    call = LOGRAISE[ev]
                    sess = None
                    try:
                        import json as _json

                        if call.method == "unary":
                            conn.proxy.unary(script=_json.dumps(call.script), x=1)
                        else:
                            sess = getattr(conn.proxy, call.method)(script=_json.dumps(call.script))
                            for _ab in sess:
                                pass
                    except LogBoom:
                        pass
                    finally:
                        if sess is not None:
                            # the caller closes the session it holds; the broken callback is still installed
                            try:
                                sess.close()
                            except LogBoom:
                                pass
                        mode["raise_at"] = None
                    rec["own"] = None
            except mem.Deadlock as e:
                rec["own"] = f"HANG: {e}"
            except Exception as e:  # noqa: BLE001
                rec["own"] = f"client raised {type(e).__name__}: {str(e)[:200]}"
            # probe
            mode["raise_at"] = None
            n = 1000 + pos
            try:
                got = conn.proxy.echo(n=n)
                rec["probe"] = None if got == n else f"probe echo({n}) returned {got!r}"
            except mem.Deadlock as e:
                rec["probe"] = f"HANG: probe blocked forever ({e})"
            except Exception as e:  # noqa: BLE001
                rec["probe"] = f"probe echo({n}) failed: {type(e).__name__}: {str(e)[:160]}"
            rec["alive"] = conn.server_alive()
            if kind == "mem":
                rec["pending"] = (conn.ct.pending_in, conn.st.pending_in)
            if rec["probe"] is not None:
                break  # the connection is gone; later events would only repeat the failure
    return out


def run_guarded(kind: str, hist: tuple[str, ...], timeout: float = 20.0) -> list[dict[str, Any]] | str:
    if kind == "mem":
        return run_history(kind, hist)
    box: dict[str, Any] = {}

    def target() -> None:
        try:
            box["r"] = run_history(kind, hist)
        except BaseException as e:  # noqa: BLE001
            box["e"] = e

    th = threading.Thread(target=target, daemon=True)
    th.start()
    th.join(timeout)
    if th.is_alive():
        return "HANG"
    if "e" in box:
        return f"harness exception {box['e']!r}"
    return box["r"]


def judge(ctx: Ctx, kind: str, hist: tuple[str, ...], res: Any) -> Any:
    rep = {"transport": kind, "history": list(hist)}
    if isinstance(res, str):
        ctx.fail(f"hang-after:{hist[-1]}", f"{kind}: client blocked (watchdog) in history {hist}: {res}", rep)
        return ("hang",)
    outcome = []
    for i, rec in enumerate(res):
        if rec["own"] is not None:
            key = ("hang-in:" if str(rec["own"]).startswith("HANG") else "own-outcome:") + rec["ev"]
            ctx.fail(key, f"{kind}: event {rec['ev']} at position {i} of {hist}: {rec['own']}", rep)
        if rec["probe"] is not None:
            key = ("hang-after:" if str(rec["probe"]).startswith("HANG") else "probe-after:") + rec["ev"]
            ctx.fail(key, f"{kind}: after event {rec['ev']} (position {i} of {hist}) the next call failed: {rec['probe']}", rep)
        outcome.append((rec["ev"], rec["own"] is None, rec["probe"] is None, rec.get("alive"), rec.get("pending")))
    return tuple(outcome)


def plan(ctx: Ctx) -> list[tuple[str, int]]:
    if ctx.quick:
        return [("mem", 2), ("pipe", 1)]
    return [("mem", 3), ("pipe", 2), ("unix", 2), ("tcp", 1), ("shm", 2), ("subprocess", 1)]


def run(ctx: Ctx) -> None:
    evs = menu(ctx)
    ctx.extra.update({"histories": 0, "events_executed": 0, "menu": len(evs), "max_depth": 0})
    for kind, depth in plan(ctx):
        ctx.extra["max_depth"] = max(ctx.extra["max_depth"], depth)
        for d in range(1, depth + 1):
            for hist in itertools.product(evs, repeat=d):
                if not ctx.mine():
                    continue
                res = run_guarded(kind, hist)
                oc = judge(ctx, kind, hist, res)
                ctx.extra["histories"] += 1
                ctx.trace()
                if not isinstance(res, str):
                    ctx.extra["events_executed"] += len(res)
                    prev: Any = ("init", kind)
                    for rec in res:
                        st = (kind, rec.get("alive"), rec.get("pending"), rec["own"] is None, rec["probe"] is None)
                        ctx.state(st)
                        ctx.transition(prev, rec["ev"], st)
                        prev = st
                ctx.case(
                    sample={"transport": kind, "history": list(hist), "outcome": repr(oc)[:300]} if ctx.extra["histories"] % 97 == 1 else None,
                    nontrivial=(kind, hist) if hist[-1] != "ok" else None,
                    outcome=oc,
                )


def replay(ctx: Ctx, case: dict[str, Any]) -> None:
    hist = tuple(case["history"])
    judge(ctx, case["transport"], hist, run_guarded(case["transport"], hist))

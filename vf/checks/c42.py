"""C42 — The serve-start hook runs exactly once per binding (E3: schedule exploration).

Real ``RpcServer._notify_transport`` and the real ``_TransportNotifyMiddleware`` inside the real falcon app
built by ``make_wsgi_app`` (requests travel through ``http_connect`` -> falcon ``TestClient`` -> every
middleware -> the unary resource -> the method body), plus real ``RpcServer.serve`` calls on in-memory
transports whose *type* decides the kind (``PipeTransport`` -> PIPE, ``ShmPipeTransport`` -> PIPE+{"shm"},
a ``UnixTransport`` subclass backed by memory -> UNIX).  ``server._transport_lock`` is replaced by the
cooperative lock; every source line of ``_notify_transport`` and of the middleware's ``process_request`` is a
scheduling point, as are the hook body and the method body.  A change that drops or narrows the lock, commits
before the hook, or swallows the hook's exception is therefore still explored.  The server, its implementation
and the falcon app are built once per configuration; every execution starts unbound with a fresh lock.

Oracle (weakest reading of the statement; a "binding" is a recorded ``(transport_kind, capabilities)`` value):

  (lin)   the ``_notify_transport`` calls of an execution are *linearizable* against this sequential
          specification, written from the docstring/docs and not from the code: state B (initially unbound);
          ``notify(k, caps)``: if B == (k, caps) the hook is not invoked and the call returns; otherwise the hook
          is invoked exactly once with k; if it raises the call raises the same exception and B is unchanged
          ("the binding is not recorded and the next request runs it again"); otherwise B := (k, caps).
          Real-time order (call a returned before call b was invoked) must be respected and the final B must be
          what ``server.transport_kind`` / ``transport_capabilities`` report after the execution.
          "exactly once per binding" and "runs again after a raise" are both consequences.
  (disp)  every method body that ran observed ``server.transport_kind == K`` with K not None and a *successfully
          completed* hook invocation for K strictly earlier in the execution ("before any method of that binding
          is dispatched"); which kind an HTTP request that arrives on an already bound server runs under is left
          open by the text and not judged.
  (own)   a request whose own notification raised is not dispatched (no method body runs for it) and it reports
          the failure (HTTP: non-success; serve(): the hook's exception leaves serve()); every other request runs
          its method body exactly once and succeeds with the right value.
  (live)  no deadlock, no exception other than the hook's own.
"""

from __future__ import annotations

import io
import logging
from itertools import permutations
from typing import Any, Protocol

from vf.core import sched as S
from vf.core.runner import Ctx
from vf.kit import mem

PROPERTY = "C42"
LEVEL = "model_checking"
ENGINE = "E3-SCHED"
SHARDS = {"quick": 8, "thorough": 16}
RULE = (
    "all schedules (preemption bound 2 for two tasks, quick: 1 / thorough: 2 for three tasks, thorough also bound 3 "
    "for five two-task configs) of 2-3 tasks, each issuing 1-3 first requests from {H: HTTP request through the real falcon app, P: serve() on a PipeTransport, M: serve() on a "
    "ShmPipeTransport, U: serve() on a UnixTransport}, hook in {ok, raises on 1st call, raises on 1st+2nd, raises "
    "always}; line-level points in _notify_transport and the middleware, points in hook/method bodies; non-trivial = "
    "schedule with >=1 choice point"
)
TECHNIQUE = (
    "stateless model checking of the real _notify_transport/_TransportNotifyMiddleware under a controlled thread "
    "scheduler (preemption-bounded, line-granular), judged by a linearizability check against a sequential "
    "specification of the binding"
)
LEVEL_TEXT = (
    "Every schedule with <=2 preemptions (quick: <=1 for three tasks; thorough: <=3 for five two-task configurations) of 2-3 real "
    "threads issuing concurrent first requests (HTTP through the complete falcon app, serve() on pipe / shm-pipe / "
    "unix transports) against one real RpcServer is executed and judged; the property quantifies over interleavings, "
    "which a free-running test samples once."
)
LEVEL_NOTE = (
    "Granularity is one source line inside _notify_transport and the middleware's process_request plus the lock, "
    "hook and method-body points; bytecode inside a line is not split. Task count 2-3, 1-3 requests "
    "per task, four hook behaviours and the four binding values {HTTP, PIPE, PIPE+shm, UNIX} are the stated bounds. "
    "The server under test is an RpcServer subclass that only logs entry/exit of _notify_transport."
)
ASSUMPTIONS = [
    "scheduling granularity is one source line inside RpcServer._notify_transport and _TransportNotifyMiddleware.process_request (bytecode-level races inside a line are not explored)",
    "HTTP requests are issued through falcon's in-process TestClient (no socket, no real WSGI server threads)",
    "the UNIX kind is reached with a UnixTransport subclass whose streams are in-memory; PIPE and PIPE+shm use the real PipeTransport/ShmPipeTransport classes over in-memory streams",
]

TRACE = S.trace_window(
    ("rpc/_server.py", "RpcServer._notify_transport"),
    ("http/server/_middleware.py", "_TransportNotifyMiddleware.process_request"),
)


class Svc(Protocol):
    """One-method service."""

    def ping(self, n: int) -> int:
        """Return n + 1."""
        ...


class HookBoom(RuntimeError):
    """Raised by the harness hook."""


# ------------------------------------------------------------------------------------------------
# one-time material


_REQ: dict[int, bytes] = {}
_SHM: list[Any] = []


def request_bytes(n: int) -> bytes:
    """The client's wire bytes of ``ping(n)`` (captured once from the real client)."""
    if n not in _REQ:
        from vgi_rpc.rpc import RpcConnection, RpcServer

        class _I:
            def ping(self, n: int) -> int:
                return n + 1

        ct, st = mem.make_mem_pair(capture=True)
        th = mem.ServerThread(RpcServer(Svc, _I()), st).start()
        with RpcConnection(Svc, ct) as p:
            assert p.ping(n=n) == n + 1
        th.stop(ct)
        _REQ[n] = b"".join(d for side, d in ct.hub.log if side == "client")
    return _REQ[n]


def shm_segment() -> Any:
    if not _SHM:
        import atexit

        from vgi_rpc.shm import ShmSegment

        seg = ShmSegment.create(1 << 20)
        _SHM.append(seg)

        def _cleanup() -> None:
            for f in (seg.close, seg.unlink):
                try:
                    f()
                except Exception:
                    pass

        atexit.register(_cleanup)
    return _SHM[0]


def quiet_logs() -> None:
    for name in ("falcon", "vgi_rpc.rpc", "vgi_rpc.http", "vgi_rpc.access", "vgi_rpc"):
        logging.getLogger(name).setLevel(logging.CRITICAL + 1)
    logging.getLogger("falcon").propagate = False
    logging.getLogger("falcon").handlers[:] = [logging.NullHandler()]


# ------------------------------------------------------------------------------------------------
# configurations

HOOKS = {"ok": 0, "raise1": 1, "raise2": 2, "always": 10**9}


def configs(ctx: Ctx) -> list[dict[str, Any]]:
    out: list[dict[str, Any]] = []

    def add(tasks: list[str], hook: str, bound: int = 2) -> None:
        out.append({"tasks": tasks, "hook": hook, "bound": bound})

    def weight(c: dict[str, Any]) -> int:
        # rough cost: heavy configurations first, so round-robin sharding spreads them
        pts = sum(17 if ch == "H" else 12 for t in c["tasks"] for ch in t)
        return int((pts * (len(c["tasks"]) - 1)) ** c["bound"])

    if ctx.quick:
        for hook in ("ok", "raise1", "always"):
            add(["H", "H"], hook)
            add(["P", "P"], hook)
            add(["H", "P"], hook)
        add(["HH", "H"], "raise1")
        add(["HH", "H"], "raise2")
        add(["PH", "H"], "ok")       # rebinding pipe -> http racing a first HTTP request
        add(["PHP", "H"], "raise1")  # pipe -> http -> pipe in one task against a concurrent first HTTP request
        add(["P", "M"], "ok")        # same kind, different capabilities
        add(["U", "PM"], "raise1")
        # three tasks: one preemption in the quick tier (two in the thorough tier)
        add(["H", "H", "H"], "ok", 1)
        add(["H", "H", "H"], "raise1", 1)
        add(["H", "P", "H"], "ok", 1)
        add(["H", "H", "P"], "raise1", 1)
        out.sort(key=lambda c: -weight(c))
        return out
    two = [["H", "H"], ["P", "P"], ["H", "P"], ["HH", "H"], ["HH", "HH"], ["PH", "H"], ["PHP", "H"], ["HP", "PH"],
           ["P", "M"], ["M", "M"], ["U", "PM"], ["UH", "HU"], ["PHP", "HPH"]]
    for t in two:
        for hook in HOOKS:
            add(t, hook)
    for t, hooks in (
        (["H", "H", "H"], ("ok", "raise1", "always")),
        (["H", "P", "H"], ("ok", "raise1")),
        (["H", "H", "P"], ("raise1",)),
        (["P", "P", "P"], ("raise1", "raise2")),
        (["H", "P", "U"], ("ok", "raise1")),
        (["P", "M", "H"], ("ok",)),
    ):
        for hook in hooks:
            add(t, hook)
    for t in (["H", "H"], ["P", "P"], ["H", "P"], ["PH", "H"], ["P", "M"]):
        for hook in ("ok", "raise1", "always"):
            add(t, hook, 3)
    out.sort(key=lambda c: -weight(c))
    return out


# ------------------------------------------------------------------------------------------------
# harness


def make_setup(cfg: dict[str, Any]):
    from vgi_rpc.http import http_connect
    from urllib.parse import urlparse

    from vgi_rpc.http._testing import _SyncTestClient, _SyncTestResponse, make_sync_client
    from vgi_rpc.rpc import PipeTransport, RpcError, RpcServer, ShmPipeTransport
    from vgi_rpc.rpc._transport import UnixTransport

    class MemUnix(UnixTransport):
        """UnixTransport (for serve()'s isinstance dispatch) whose streams are in-memory."""

        __slots__ = ()

        def __init__(self, rd: Any, wr: Any) -> None:  # noqa: D107 - deliberately does not call the socket constructor
            self._sock = None  # type: ignore[assignment]
            self._reader = rd
            self._writer = wr

        def close(self) -> None:
            pass

    class QuietClient(_SyncTestClient):
        """``_SyncTestClient.post`` with falcon's ``wsgi.errors`` pointed at a sink (the hook's traceback is noise)."""

        __slots__ = ()

        def post(self, url: str, *, content: bytes, headers: dict[str, str]) -> Any:
            merged = {**self._default_headers, **headers}
            result = self._client.simulate_post(urlparse(url).path, body=content, headers=merged, wsgierrors=io.StringIO())
            return _SyncTestResponse(result.status_code, result.content, headers=dict(result.headers))

    n_fail = HOOKS[cfg["hook"]]
    need_http = any("H" in t for t in cfg["tasks"])
    # The server, the implementation and the falcon app are built once per configuration (building the app costs
    # more than an execution); every execution starts from a fresh *binding* state: unbound, no capabilities, a
    # fresh cooperative lock, fresh monitor logs.  Nothing else in the server/app depends on earlier executions.
    rig: dict[str, Any] = {"w": None, "s": None}

    def tid() -> int:
        t = rig["s"].current()
        return -1 if t is None else t.id

    class Impl:
        def on_serve_start(self, kind: Any) -> None:
            w = rig["w"]
            log = w["log"]
            w["hooks"] += 1
            k = w["hooks"]
            c = w["cur_call"].get(tid())
            ev = {"e": "hook", "kind": str(kind.value), "n": k, "res": None, "pos": len(log)}
            log.append(ev)
            if c is not None:
                c["hooks"].append(ev)
            else:
                w.setdefault("stray_hooks", []).append(ev)
            S.point("hook:enter")
            ev["res"] = "raise" if k <= n_fail else "ok"
            ev["end"] = len(log)
            log.append({"e": "hook-end", "n": k})
            if k <= n_fail:
                raise HookBoom(f"hook failure {k}")

        def ping(self, n: int) -> int:
            w = rig["w"]
            log = w["log"]
            kind = srv.transport_kind
            ev = {"e": "body", "n": n, "seen": None if kind is None else str(kind.value), "pos": len(log)}
            log.append(ev)
            r = w["cur_req"].get(tid())
            if r is not None:
                r["bodies"].append(ev)
            S.point("body")
            return n + 1

    class Srv(RpcServer):
        """Logs entry/exit of the real method (linearizability history)."""

        def _notify_transport(self, kind: Any, capabilities: frozenset[str]) -> None:
            w = rig["w"]
            log, calls, cur_call = w["log"], w["calls"], w["cur_call"]
            me = tid()
            c = {"task": me, "kind": str(kind.value), "caps": tuple(sorted(capabilities)), "inv": len(log),
                 "ret": None, "raised": None, "hooks": []}
            calls.append(c)
            log.append({"e": "call", "i": len(calls) - 1})
            r = w["cur_req"].get(me)
            if r is not None:
                r["calls"].append(c)
            prev = cur_call.get(me)
            cur_call[me] = c
            try:
                super()._notify_transport(kind, capabilities)
                c["raised"] = False
            except BaseException as e:
                c["raised"] = type(e).__name__
                raise
            finally:
                c["ret"] = len(log)
                log.append({"e": "ret", "i": calls.index(c)})
                if prev is None:
                    cur_call.pop(me, None)
                else:
                    cur_call[me] = prev

    srv = Srv(Svc, Impl())
    client: Any = None
    if need_http:
        client = make_sync_client(srv, token_key=b"k" * 32)
        client.__class__ = QuietClient  # same object; falcon's error log goes to a sink instead of stderr

    def do_http(rec: dict[str, Any], n: int) -> None:
        try:
            with http_connect(Svc, client=client) as p:
                rec["out"] = ["ok", p.ping(n=n)]
        except RpcError as e:
            rec["out"] = ["err", e.error_type]

    def do_serve(rec: dict[str, Any], n: int, op: str) -> None:
        # the client sent one request and closed: serve() answers it, sees EOF and returns.  Plain in-memory
        # streams (no scheduling points at reads/writes: the response bytes are not what this property is about)
        rd, wr = io.BytesIO(request_bytes(n)), io.BytesIO()
        if op == "P":
            tr: Any = PipeTransport(rd, wr)
        elif op == "M":
            tr = ShmPipeTransport(PipeTransport(rd, wr), shm_segment())
        else:
            tr = MemUnix(rd, wr)
        try:
            srv.serve(tr)
            rec["out"] = ["ok", len(wr.getvalue()) > 0]
        except HookBoom:
            rec["out"] = ["err", "HookBoom"]

    def worker(i: int, ops: str) -> None:
        w = rig["w"]
        for j, op in enumerate(ops):
            n = 10 * i + j
            rec = {"task": i, "op": op, "n": n, "calls": [], "bodies": [], "out": None}
            w["reqs"].append(rec)
            w["cur_req"][tid()] = rec
            S.point(f"req:{op}")
            try:
                if op == "H":
                    do_http(rec, n)
                else:
                    do_serve(rec, n, op)
            finally:
                w["cur_req"].pop(tid(), None)

    def setup(s: S.Sched) -> Any:
        w: dict[str, Any] = {"log": [], "calls": [], "reqs": [], "hooks": 0, "cur_call": {}, "cur_req": {}, "srv": srv}
        rig["w"], rig["s"] = w, s
        srv._transport_kind = None
        srv._transport_capabilities = frozenset()
        srv._transport_lock = S.CoopLock("tl")  # type: ignore[assignment]
        for i, ops in enumerate(cfg["tasks"]):
            s.spawn(lambda i=i, ops=ops: worker(i, ops), f"t{i}")

        def state() -> Any:
            k = srv.transport_kind
            return (None if k is None else k.value, tuple(sorted(srv.transport_capabilities)), w["hooks"], len(w["log"]))

        s.state_fn = state
        return w

    return setup


# ------------------------------------------------------------------------------------------------
# oracle


def linearizable(calls: list[dict[str, Any]], final: tuple[Any, tuple[str, ...]] | None) -> str | None:
    """None when some real-time-respecting order of *calls* is explained by the sequential specification."""
    n = len(calls)
    why = "no order tried"
    for perm in permutations(range(n)):
        pos = {c: k for k, c in enumerate(perm)}
        if any(calls[a]["ret"] <= calls[b]["inv"] and pos[a] > pos[b] for a in range(n) for b in range(n) if a != b):
            continue
        bound: tuple[Any, tuple[str, ...]] | None = None
        bad = None
        for ci in perm:
            c = calls[ci]
            want = (c["kind"], c["caps"])
            hooks = c["hooks"]
            if bound == want:
                if hooks or c["raised"]:
                    bad = f"call {ci} {want} on an already recorded identical binding invoked the hook {len(hooks)}x (raised={c['raised']})"
                    break
                continue
            if len(hooks) != 1 or hooks[0]["kind"] != c["kind"]:
                bad = f"call {ci} {want} with binding {bound} invoked the hook {[h['kind'] for h in hooks]} instead of exactly once"
                break
            if hooks[0]["res"] == "raise":
                if not c["raised"]:
                    bad = f"call {ci} {want}: the hook raised but the notification returned normally"
                    break
            else:
                if c["raised"]:
                    bad = f"call {ci} {want}: the hook succeeded but the notification raised {c['raised']}"
                    break
                bound = want
        if bad is None and final is not None and bound != final:
            bad = f"order {perm} ends bound to {bound} but the server reports {final}"
        if bad is None:
            return None
        why = bad
    return why


def oracle(ctx: Ctx, cfg: dict[str, Any], x: S.Exec) -> Any:
    w = x.world
    rep = {"cfg": cfg, **x.schedule()}
    tag = f"{'+'.join(cfg['tasks'])}/{cfg['hook']}"
    shape = "+".join("".join(sorted(set(t))) for t in cfg["tasks"])
    if x.deadlock or x.livelock:
        ctx.fail(f"deadlock:{cfg['hook']}", f"deadlock/livelock under {tag}", rep)
        return ("deadlock",)
    for t in x.tasks:
        if t.exc is not None:
            ctx.fail(f"exception:{type(t.exc).__name__}", f"task {t.name} raised {t.exc!r} under {tag}", rep)
            return ("exception", type(t.exc).__name__)
    calls, log, reqs = w["calls"], w["log"], w["reqs"]
    srv = w["srv"]
    k = srv.transport_kind
    final = None if k is None else (str(k.value), tuple(sorted(srv.transport_capabilities)))
    if w.get("stray_hooks"):
        ctx.fail("hook-outside-notify", f"hook invoked outside _notify_transport under {tag}", rep)
    # (lin)
    why = linearizable(calls, final)
    if why is not None:
        n_ok = sum(1 for c in calls for h_ in c["hooks"] if h_["res"] == "ok")
        kinds = sorted({c["kind"] for c in calls})
        conc = any(a["inv"] < b["inv"] < a["ret"] for a in calls for b in calls if a is not b)
        ctx.fail(
            f"not-once-per-binding:{'concurrent' if conc else 'sequential'}:{cfg['hook']}:{'same-kind' if len(kinds) == 1 else 'rebind'}",
            f"{tag}: notifications {[(c['task'], c['kind'], c['caps'], [h_['res'] for h_ in c['hooks']], c['raised']) for c in calls]} "
            f"({n_ok} successful hook runs, server finally {final}) have no sequential explanation: {why}",
            rep,
        )
    # (disp)
    oks = [e for e in log if e["e"] == "hook" and e["res"] == "ok"]
    for e in log:
        if e["e"] != "body":
            continue
        if e["seen"] is None:
            ctx.fail(f"dispatch-unbound:{cfg['hook']}", f"{tag}: method body ping({e['n']}) ran while no binding was recorded", rep)
        elif not any(h_["kind"] == e["seen"] and h_["end"] < e["pos"] for h_ in oks):
            ctx.fail(
                f"dispatch-before-hook:{cfg['hook']}:{shape}",
                f"{tag}: method body ping({e['n']}) ran under binding {e['seen']} before any on_serve_start({e['seen']}) completed successfully",
                rep,
            )
    # (own)
    for r in reqs:
        own_raise = any(c["raised"] for c in r["calls"])
        if r["out"] is None:
            ctx.fail("request-unfinished", f"{tag}: request {r['op']}{r['n']} produced no outcome", rep)
            continue
        if own_raise:
            if r["bodies"]:
                ctx.fail(f"dispatch-after-failed-hook:{r['op']}", f"{tag}: request {r['op']}{r['n']} was dispatched although its own on_serve_start notification raised", rep)
            if r["out"][0] != "err":
                ctx.fail(f"failed-hook-not-reported:{r['op']}", f"{tag}: request {r['op']}{r['n']} reported {r['out']} although its own notification raised", rep)
        else:
            want = ["ok", r["n"] + 1] if r["op"] == "H" else ["ok", True]
            if len(r["bodies"]) != 1 or r["out"] != want:
                ctx.fail(
                    f"request-result:{r['op']}",
                    f"{tag}: request {r['op']}{r['n']} (own notification did not raise) ran {len(r['bodies'])} bodies and reported {r['out']}, expected {want}",
                    rep,
                )
    hooks = [(e["kind"], e["res"]) for e in log if e["e"] == "hook"]
    return (tuple(hooks), final, tuple((r["op"], r["n"], tuple(r["out"] or ()), len(r["bodies"])) for r in reqs))


# ------------------------------------------------------------------------------------------------


def run(ctx: Ctx) -> None:
    quiet_logs()
    request_bytes(0)
    ctx.extra.update({"schedules": 0, "max_bound_completed": 0, "configs": 0, "deadlocks": 0, "max_choice_points": 0,
                      "hook_runs": 0, "hook_raises": 0, "rebinds": 0, "concurrent_notifies": 0, "max_steps": 0,
                      "config_schedules": []})

    def judged(x: S.Exec, cfg: dict[str, Any]) -> Any:
        o = oracle(ctx, cfg, x)
        w = x.world
        hk = [e for e in w["log"] if e["e"] == "hook"]
        ctx.extra["hook_runs"] += len(hk)
        ctx.extra["hook_raises"] += sum(1 for e in hk if e["res"] == "raise")
        ctx.extra["rebinds"] += max(0, sum(1 for e in hk if e["res"] == "ok") - 1)
        cs = w["calls"]
        if any(a["inv"] < b["inv"] and (a["ret"] is None or b["inv"] < a["ret"]) for a in cs for b in cs if a is not b):
            ctx.extra["concurrent_notifies"] += 1
        return o

    for cfg in configs(ctx):
        if not ctx.mine():
            continue
        for n in sorted(_needed(cfg)):
            request_bytes(n)  # captured outside the scheduler
        label = f"{'+'.join(cfg['tasks'])}/{cfg['hook']}/b{cfg['bound']}"
        st = S.explore(ctx, make_setup(cfg), lambda x, cfg=cfg: judged(x, cfg), bound=cfg["bound"], label=label, trace=TRACE)
        ctx.extra["schedules"] += st["schedules"]
        ctx.extra["config_schedules"].append(f"{label}={st['schedules']}")
        ctx.extra["configs"] += 1
        ctx.extra["deadlocks"] += st["deadlocks"]
        ctx.extra["max_choice_points"] = max(ctx.extra["max_choice_points"], st["max_points"])
        ctx.extra["max_steps"] = max(ctx.extra["max_steps"], st["max_steps"])
        ctx.extra["max_bound_completed"] = max(ctx.extra["max_bound_completed"], st["bound_completed"])
        if st["bound_completed"] < cfg["bound"]:
            ctx.cap(f"bound {cfg['bound']} not completed for {label}")


def _needed(cfg: dict[str, Any]) -> set[int]:
    return {10 * i + j for i, ops in enumerate(cfg["tasks"]) for j, op in enumerate(ops) if op != "H"}


def replay(ctx: Ctx, case: dict[str, Any]) -> None:
    quiet_logs()
    cfg = case["cfg"]
    for n in _needed(cfg):
        request_bytes(n)
    x = S.run_one(make_setup(cfg), case["choices"], None, trace=TRACE)
    oracle(ctx, cfg, x)

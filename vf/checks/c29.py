"""C29 — Shared-memory transfer is transparent and releases every region (E2: BFS over call histories).

Seam: the real ``RpcServer.serve`` in a thread and the real client proxy joined by a real ``ShmPipeTransport``
pair over the in-memory pipe (``vf.kit.mem``: deterministic deadlock detection) — plus real OS pipes for every
single-call history — sharing one real ``ShmSegment``.  ``vgi_rpc.shm.SHM_MIN_BATCH_BYTES`` is rebound to
0 / 1 / T (T = size of the middle stream batch, so one stream has a batch above, at and below the threshold).

State space: histories of calls from a fixed menu (unary results / None / errors, producer streams with
``is`` / dictionary-encoded / zero-column outputs, headers, logs, mid-stream errors, partial consumption with
close / cancel, exchanges with castable, dictionary-encoded and rejected inputs, requests routed through the
side channel the way a foreign client does) x how the client treats received stream batches (release at once /
keep / release every other / release after the call) plus the event "release the oldest kept batch".
Breadth-first over histories up to the tier's depth; canonical state = (allocation table, descriptors of the kept
batches): the real code's future behaviour depends on the segment only through the table, kept batches matter
only to the oracle, and a completed call leaves no other connection state (assumption).

Oracle, evaluated for the last call of every history (weakest reading of the statement):
  1. the client-visible trace (logs, header, batches incl. schema and user metadata, result, error type+message,
     end markers) equals the trace of the *same call over a plain in-memory pipe without shared memory*;
  2. region accounting, read from the segment header with an independent reader: the table after the call is
     exactly the table before it plus one region per batch of this call that the client still keeps
     (so every request / input / result / stream region that was consumed or released is gone, whether the
     call succeeded or failed);
  3. every batch kept from earlier calls still validates and equals its inline twin (no reuse of a referenced
     region), releasing a kept batch frees exactly one region and never raises;
  4. no deadlock, no unexpected exception, the server survives.
"""

from __future__ import annotations

import contextlib
import json
import queue
import struct
import threading
from typing import Any

import pyarrow as pa

from vf.core import bfs as B
from vf.core.runner import Ctx
from vf.kit import mem, prog

PROPERTY = "C29"
LEVEL = "model_checking"
ENGINE = "E2-BFS"
SHARDS = {"quick": 16, "thorough": 16}
RULE = (
    "BFS over call histories drawn from a 43-event menu {unary ok/None/void/error+logs, produce x out{is,dict,empty} "
    "x client policy{release,keep,alternate,late}, 160-column batches (framing above the writer's estimate), header+logs, mid-stream raise, take-k then close/cancel, init "
    "error, exchange ok/raise/cancel/header/null/castable/dictionary/rejected input, request via shm pointer "
    "(unary ok/error, produce), release-oldest-kept}; configurations = segment data bytes {1,1000,9000,65536 "
    "(+4 MiB thorough)} x SHM_MIN_BATCH_BYTES {1,0,T=32}.  quick: 6 configurations (all sizes at threshold 1, size "
    "9000 at all thresholds) depth 2, size 9000/threshold 1 depth 3 with a 14-event menu for the third call; "
    "thorough: all 15 configurations, depth 3 with the full menu on 9000/1, depth 3 with the 14-event third-call "
    "menu on sizes 1000..65536, depth 2 on sizes 1 and 4 MiB; every single-call history also over real OS pipes "
    "(2 / 4 configurations); non-trivial = distinct (allocation table, kept batches) state reached"
)
TECHNIQUE = "explicit-state BFS over call histories on the real client/server/ShmSegment, differential against inline transfer, region accounting from the raw header"
LEVEL_TEXT = (
    "All histories up to the stated depth over the stated menu are executed on the real server, client and "
    "shared-memory segment and each is compared with inline transfer and with exact region accounting; region "
    "leaks and reuse are properties of histories (what was kept, what was freed, in which order), which a fixed "
    "test scenario visits once."
)
LEVEL_NOTE = (
    "Bounded: menu of 41 events, depth <=3 (third call partly from a 14-event menu), 4-5 segment sizes, 3 thresholds; states are merged on (table, kept "
    "batches).  The free-running server thread is synchronised only by the lockstep protocol (deterministic: the "
    "client observes the table after the response/EOS that the server writes after its last free).  Evaluation "
    "counts depend on the number of shards (each shard deduplicates states on its own), not on the seed."
)
ASSUMPTIONS = [
    "a completed call leaves no connection state other than the segment's allocation table (basis of the state merge)",
    "lockstep protocol: the server performs its last free before the bytes that let the client call return (true for the pinned tree: final input release precedes output EOS)",
    "SHM_MIN_BATCH_BYTES is read from the vgi_rpc.shm module global at call time",
    "a foreign client routes a request through shm exactly as maybe_write_to_shm does (pointer batch + merged metadata)",
]

HDR = 65536

# ------------------------------------------------------------------------------------------------ menu


def _steps(out: str, rows: list[int], md: bool = True) -> dict[str, Any]:
    steps: list[list[Any]] = []
    for i, r in enumerate(rows):
        acts: list[Any] = [["emit", r, {"k": f"v{i}"} if (md and i == 0) else None]]
        if i == len(rows) - 1:
            acts.append(["finish"])
        steps.append(acts)
    return {"out": out, "steps": steps}


def build_menu() -> dict[str, dict[str, Any]]:
    M: dict[str, dict[str, Any]] = {}

    def add(name: str, cls: str, **kw: Any) -> None:
        M[name] = {"name": name, "cls": cls, **kw}

    add("u-ret", "unary", m="unary", script={"acts": [["ret", 5]]})
    add("u-none", "unary", m="unary_opt", script={"acts": []})
    add("u-void", "unary", m="unary_none", script={"acts": [["log", "INFO", "hello", {"a": "1"}]]})
    add("u-raise", "unary-error", m="unary", script={"acts": [["log", "WARN", "w", {}], ["raise", "ValueError", "boom"]]})
    for out in ("is", "dict", "empty"):
        for mode in ("rel", "keep", "alt", "late"):
            add(f"p-{out}-{mode}", f"produce-{out}", m="produce", script=_steps(out, [3, 2, 1]), mode=mode)
    # a batch whose IPC framing overflows the writer's size estimate (160 columns): the exact-size fallback path
    add("p-wide-rel", "produce-wide", m="produce", script=_steps("wide", [3, 2]), mode="rel")
    add("p-wide-keep", "produce-wide", m="produce", script=_steps("wide", [2, 1]), mode="keep")
    add("p-h-logs-rel", "produce-header", m="produce_h",
        script={"hdr": 4, "init": [["log", "INFO", "init", {}]], "out": "is",
                "steps": [[["log", "DEBUG", "s0", {"q": "z"}], ["emit", 2, None]], [["emit", 1, {"m": "n"}], ["finish"]]]}, mode="rel")
    add("p-h-keep", "produce-header", m="produce_h", script={"hdr": 9, **_steps("dict", [2, 2])}, mode="keep")
    for mode in ("rel", "keep"):
        add(f"p-raise-{mode}", "produce-raise", m="produce",
            script={"out": "is", "steps": [[["emit", 2, None]], [["raise", "BoomError", "mid"]]]}, mode=mode)
        add(f"p-take1-close-{mode}", "produce-take-close", m="produce", script=_steps("is", [2, 2, 2]), take=1, fin="close", mode=mode)
        add(f"p-take2-cancel-{mode}", "produce-take-cancel", m="produce", script=_steps("dict", [2, 2, 2]), take=2, fin="cancel", mode=mode)
    add("p-init-raise", "produce-init-error", m="produce", script={"init": [["raise", "KeyError", "nope"]]}, mode="rel")
    # an exchange whose init raises: the client has already sent its first input (through the segment) when it learns
    add("x-init-raise", "exchange-init-error", m="exch", script={"init": [["raise", "KeyError", "xnope"]]}, inputs=[[1, 2], [3]], mode="rel")
    ex = {"steps": [[["echo", 2, {"e": "0"}]], [["log", "INFO", "x1", {}], ["echo", 3, None]], [["echo", 1, None]]]}
    for mode in ("rel", "keep", "alt"):
        add(f"x-{mode}", "exchange", m="exch", script=ex, inputs=[[1, 2], [3], [4, 5, 6]], mode=mode)
    add("x-h-rel", "exchange-header", m="exch_h", script={"hdr": 2, **ex}, inputs=[[7]], mode="rel")
    add("x-raise-rel", "exchange-raise", m="exch", script={"steps": [[["echo", 2, None]], [["raise", "ValueError", "bad step"]]]},
        inputs=[[1], [2], [3]], mode="rel")
    add("x-raise-keep", "exchange-raise", m="exch", script={"steps": [[["echo", 2, None]], [["raise", "ValueError", "bad step"]]]},
        inputs=[[1], [2], [3]], mode="keep")
    add("x-cancel-keep", "exchange-cancel", m="exch", script=ex, inputs=[[1, 2]], fin="cancel", mode="keep")
    add("x-in-int32", "exchange-input-cast", m="exch", script=ex, inputs=[{"kind": "int32", "x": [1, 2]}, {"kind": "int32", "x": [3]}], mode="rel")
    add("x-in-dict", "exchange-input-dictionary", m="exch", script=ex, inputs=[{"kind": "dict", "x": [5, 6, 5]}, {"kind": "dict", "x": [6]}], mode="rel")
    add("x-in-badname", "exchange-input-rejected", m="exch", script=ex, inputs=[{"kind": "badname"}], mode="rel")
    add("x-in-badtype", "exchange-input-rejected", m="exch", script=ex, inputs=[{"kind": "badtype"}], mode="rel")
    add("x-in-null", "exchange-null-input", m="exch", script=ex, inputs=[[1], {"kind": "nullx"}], mode="keep")
    add("r-u-ret", "shm-request-unary", m="unary", script={"acts": [["ret", 11]]}, raw=True)
    add("r-u-raise", "shm-request-unary", m="unary", script={"acts": [["raise", "RuntimeError", "r"]]}, raw=True)
    add("r-p-keep", "shm-request-produce", m="produce", script=_steps("is", [2, 1]), mode="keep", raw=True)
    add("REL0", "release-kept")
    return M


MENU = build_menu()
# reduced menu for the last call of the deepest histories where the full menu is too expensive (one per class)
PROBE = ("u-ret", "p-is-rel", "p-is-keep", "p-dict-alt", "p-empty-keep", "p-wide-rel", "p-take2-cancel-keep", "x-rel", "x-keep",
         "x-raise-rel", "x-in-dict", "x-in-badname", "r-u-ret", "r-p-keep", "REL0")


def make_input(spec: Any) -> Any:
    from vgi_rpc.rpc import AnnotatedBatch

    if isinstance(spec, list):
        return AnnotatedBatch(batch=pa.RecordBatch.from_pydict({"x": spec}, schema=prog.IN_X))
    k = spec["kind"]
    if k == "int32":
        b = pa.RecordBatch.from_arrays([pa.array(spec["x"], pa.int32())], names=["x"])
    elif k == "dict":
        b = pa.RecordBatch.from_arrays([pa.array(spec["x"], pa.int64()).dictionary_encode()], names=["x"])
    elif k == "badname":
        b = pa.RecordBatch.from_pydict({"z": ["a", "b"]})
    elif k == "badtype":
        b = pa.RecordBatch.from_pydict({"x": ["a", "b"]})
    elif k == "nullx":
        b = pa.RecordBatch.from_pydict({"x": [None]}, schema=prog.IN_X)
    else:
        raise ValueError(k)
    return AnnotatedBatch(batch=b)


# ------------------------------------------------------------------------------------------------ driver


def do_call(proxy: Any, ev: dict[str, Any], trace: list[Any], on_batch: Any) -> None:
    """Run one menu call through *proxy*; client-visible events go to *trace*, stream batches to *on_batch*."""
    from vgi_rpc.rpc import RpcError

    m = ev["m"]
    s = json.dumps(ev.get("script", {}))
    try:
        if m == "unary":
            trace.append(["result", proxy.unary(script=s, x=ev.get("x", 7))])
            return
        if m in ("unary_opt", "unary_none"):
            trace.append(["result", getattr(proxy, m)(script=s)])
            return
        sess = getattr(proxy, m)(script=s)
    except RpcError as e:
        trace.append(["error", e.error_type, e.error_message])
        return
    if m.endswith("_h"):
        hd = sess.header
        trace.append(["header", None if hd is None else [hd.tag, hd.note]])
    take, fin = ev.get("take"), ev.get("fin")
    try:
        if m.startswith("produce"):
            n = 0
            while take is None or n < take:
                try:
                    ab = sess.tick()
                except StopIteration:
                    trace.append(["end"])
                    return
                on_batch(ab)
                n += 1
        else:
            for spec in ev["inputs"]:
                on_batch(sess.exchange(make_input(spec)))
            fin = fin or "close"
    except RpcError as e:
        trace.append(["error", e.error_type, e.error_message])
        return
    if fin == "close":
        sess.close()
        trace.append(["closed"])
    elif fin == "cancel":
        sess.cancel()
        trace.append(["cancelled"])


class RawClient:
    """A client that routes the *request* batch through the shm side channel (what the C++ client does) and then
    reads the response with the real client code."""

    def __init__(self, transport: Any, seg: Any, on_log: Any) -> None:
        from vgi_rpc.rpc._types import rpc_methods

        self.t, self.seg, self.on_log = transport, seg, on_log
        self.methods = rpc_methods(prog.ScriptSvc)

    def _send(self, name: str, kwargs: dict[str, Any]) -> Any:
        import vgi_rpc.shm as M
        from vgi_rpc.metadata import REQUEST_VERSION, REQUEST_VERSION_KEY, RPC_METHOD_KEY, SHM_SEGMENT_NAME_KEY, SHM_SEGMENT_SIZE_KEY
        from vgi_rpc.utils import new_ipc_stream

        info = self.methods[name]
        arrays = [pa.array([kwargs.get(f.name)], type=f.type) for f in info.params_schema]
        batch = pa.RecordBatch.from_arrays(arrays, schema=info.params_schema)
        md = {RPC_METHOD_KEY: name.encode(), REQUEST_VERSION_KEY: REQUEST_VERSION,
              SHM_SEGMENT_NAME_KEY: self.seg.name.encode(), SHM_SEGMENT_SIZE_KEY: str(self.seg.size).encode()}
        b2, cm = M.maybe_write_to_shm(batch, pa.KeyValueMetadata(md), self.seg)
        with new_ipc_stream(self.t.writer, info.params_schema) as w:
            w.write_batch(b2, custom_metadata=cm)
        return info

    def unary(self, **kwargs: Any) -> Any:
        from pyarrow import ipc
        from vgi_rpc.rpc._wire import _read_unary_response
        from vgi_rpc.utils import IpcValidation, ValidatedReader

        info = self._send("unary", kwargs)
        reader = ValidatedReader(ipc.open_stream(self.t.reader), IpcValidation.FULL)
        return _read_unary_response(reader, info, self.on_log, None, shm=self.seg)

    def produce(self, **kwargs: Any) -> Any:
        from vgi_rpc.rpc._client import StreamSession

        self._send("produce", kwargs)
        return StreamSession(self.t.writer, self.t.reader, self.on_log, shm=self.seg)


class _Job:
    def __init__(self, server: Any, transport: Any) -> None:
        self.server, self.transport = server, transport
        self.done = threading.Event()
        self.exc: BaseException | None = None
        self.returned = False


class ServePool:
    """One persistent thread that runs ``server.serve(transport)`` jobs (thread creation costs ~10 ms in this
    sandbox).  Same contract as ``mem.ServerThread``: when serve() returns or raises, the transport is closed."""

    def __init__(self) -> None:
        self.q: queue.SimpleQueue[_Job] = queue.SimpleQueue()
        self.th: threading.Thread | None = None

    def _loop(self, q: "queue.SimpleQueue[_Job]") -> None:
        while True:
            job = q.get()
            try:
                job.server.serve(job.transport)
                job.returned = True
            except BaseException as e:  # noqa: BLE001
                job.exc = e
            finally:
                with contextlib.suppress(Exception):
                    job.transport.close()
                job.done.set()

    def submit(self, server: Any, transport: Any) -> _Job:
        if self.th is None or not self.th.is_alive():
            self.q = queue.SimpleQueue()
            self.th = threading.Thread(target=self._loop, args=(self.q,), daemon=True, name="vf-c29-serve")
            self.th.start()
        job = _Job(server, transport)
        self.q.put(job)
        return job

    def abandon(self) -> None:
        """The current job never returned: leave its thread behind and start a new one for the next job."""
        self.th = None


POOL = ServePool()
ALLOCS = [0]  # successful ShmAllocator.allocate calls (instrument around the real method)


def _install_alloc_counter() -> None:
    import vgi_rpc.shm as M

    if getattr(M.ShmAllocator.allocate, "_vf_counted", False):
        return
    real = M.ShmAllocator.allocate

    def allocate(self: Any, size: int) -> Any:
        r = real(self, size)
        if r is not None:
            ALLOCS[0] += 1
        return r

    allocate._vf_counted = True  # type: ignore[attr-defined]
    M.ShmAllocator.allocate = allocate  # type: ignore[method-assign]


def read_table(buf: Any, total: int) -> tuple[tuple[int, int], ...] | None:
    """Independent reader of the documented segment header (count: uint32 at 16, (offset,length) uint64 pairs at 24)."""
    (n,) = struct.unpack_from("<I", buf, 16)
    if 24 + 16 * n > min(total, HDR):
        return None
    flat = struct.unpack_from(f"<{2 * n}Q", buf, 24) if n else ()
    return tuple(zip(flat[0::2], flat[1::2]))


def same_batch(a: pa.RecordBatch, b: pa.RecordBatch) -> str | None:
    try:
        a.validate(full=True)
    except Exception as e:  # noqa: BLE001
        return f"invalid batch: {e}"
    if not a.schema.equals(b.schema, check_metadata=True):
        return f"schema {a.schema} != {b.schema}"
    if a.num_rows != b.num_rows:
        return f"rows {a.num_rows} != {b.num_rows}"
    if not a.equals(b):
        return f"data {a.to_pydict()} != {b.to_pydict()}"
    return None


_INLINE: dict[str, tuple[list[Any], list[pa.RecordBatch]]] = {}


def inline_twin(name: str) -> tuple[list[Any], list[pa.RecordBatch]]:
    """The same call over a plain in-memory pipe without shm (computed once per process)."""
    if name in _INLINE:
        return _INLINE[name]
    from vf.kit.transports import Conn

    ev = MENU[name]
    trace: list[Any] = []
    got: list[pa.RecordBatch] = []

    def on_batch(ab: Any) -> None:
        trace.append(["batch", len(got), prog.user_meta(ab.custom_metadata)])
        got.append(ab.batch)

    with Conn("mem", on_log=lambda m: trace.append(prog.log_event(m))) as c:
        do_call(c.proxy, ev, trace, on_batch)
    _INLINE[name] = (trace, got)
    return _INLINE[name]


class Result:
    """Plain-data outcome of one executed history (what bfs sees)."""

    def __init__(self) -> None:
        self.table: tuple[tuple[int, int], ...] = ()
        self.kept: tuple[Any, ...] = ()
        self.bad: list[tuple[str, str]] = []
        self.stats: dict[str, int] = {}
        self.outcome: Any = None
        self.depth = 0


def run_history(cfg: dict[str, Any], hist: tuple[str, ...]) -> Result:
    """Fresh server + client + segment; run *hist*; judge the last event; tear everything down."""
    import vgi_rpc.shm as M
    from vgi_rpc.rpc import RpcConnection, RpcServer, ShmPipeTransport
    from vgi_rpc.rpc import make_pipe_pair

    res = Result()
    res.depth = len(hist)
    st = res.stats = {"shm_batches": 0, "inline_batches": 0, "kept_checks": 0, "calls": 0, "regions_seen_max": 0, "regions_allocated": 0}
    _install_alloc_counter()
    a0 = ALLOCS[0]
    old_min = M.SHM_MIN_BATCH_BYTES
    M.SHM_MIN_BATCH_BYTES = cfg["min"]
    c, s = mem.make_mem_pair() if cfg["pipe"] == "mem" else make_pipe_pair()
    seg = M.ShmSegment.create(HDR + cfg["size"])
    ct, stt = ShmPipeTransport(c, seg), ShmPipeTransport(s, seg)
    server = RpcServer(prog.ScriptSvc, prog.ScriptImpl())
    sth = POOL.submit(server, stt)
    kept: list[dict[str, Any]] = []  # {"ab", "twin", "desc", "region"}
    watchdog: threading.Timer | None = None
    if cfg["pipe"] != "mem":
        watchdog = threading.Timer(60.0, ct.close)  # safety net only: real pipes have no deadlock detection
        watchdog.daemon = True
        watchdog.start()
    try:
        total = seg.size
        log_trace: list[Any] = []
        on_log = lambda m: log_trace.append(prog.log_event(m))  # noqa: E731
        proxy = RpcConnection(prog.ScriptSvc, ct, on_log).__enter__()
        raw = RawClient(ct, seg, on_log)
        for hi, name in enumerate(hist):
            ev = MENU[name]
            last = hi == len(hist) - 1
            bad: list[tuple[str, str]] = []
            pre = read_table(seg.buf, total)
            where = f"[{cfg['label']}] history {list(hist[: hi + 1])}"
            if name == "REL0":
                if kept:
                    k = kept.pop(0)
                    d = same_batch(k["ab"].batch, k["twin"])
                    if d:
                        bad.append((f"kept-batch-changed:{k['cls']}", f"{where}: kept batch {k['desc']} no longer equals its inline twin before release: {d}"))
                    try:
                        k["ab"].release()
                    except Exception as e:  # noqa: BLE001
                        bad.append((f"release-failed:{k['cls']}", f"{where}: release of kept batch {k['desc']} raised {e!r}"))
                    post = read_table(seg.buf, total)
                    want = len(pre or ()) - (1 if k["region"] else 0)
                    if post is None or len(post) != want or not set(post) <= set(pre or ()):
                        bad.append(("release-accounting", f"{where}: releasing {k['desc']} (region={k['region']}) changed table {pre} -> {post}"))
                    del k
                res.outcome = ("rel0", len(kept))
            else:
                st["calls"] += 1
                exp_trace, twins = inline_twin(name)
                del log_trace[:]
                got_n = [0]
                new_kept: list[dict[str, Any]] = []
                late: list[Any] = []
                mode = ev.get("mode", "rel")

                def on_batch(ab: Any, _ev: dict[str, Any] = ev, _tw: list[pa.RecordBatch] = twins, _bad: list[tuple[str, str]] = bad,
                             _new: list[dict[str, Any]] = new_kept, _late: list[Any] = late, _mode: str = mode, _where: str = where) -> None:
                    i = got_n[0]
                    got_n[0] += 1
                    log_trace.append(["batch", i, prog.user_meta(ab.custom_metadata)])
                    region = ab._release_fn is not None
                    st["shm_batches" if region else "inline_batches"] += 1
                    if i < len(_tw):
                        d = same_batch(ab.batch, _tw[i])
                        if d:
                            _bad.append((f"differs-from-inline:{_ev['cls']}:{'shm' if region else 'inline-fallback'}",
                                         f"{_where}: batch {i} ({'via shm' if region else 'inline fallback'}) differs from inline transfer: {d}"))
                    if _mode == "rel" or (_mode == "alt" and i % 2 == 0):
                        ab.release()
                    elif _mode == "late":
                        _late.append(ab)
                    elif i < len(_tw):
                        _new.append({"ab": ab, "twin": _tw[i], "desc": f"{_ev['name']}#{i}", "region": region, "cls": _ev["cls"]})

                try:
                    do_call(raw if ev.get("raw") else proxy, ev, log_trace, on_batch)
                except Exception as e:  # noqa: BLE001  (Deadlock, Arrow errors, ...)
                    kind = "deadlock" if isinstance(e, mem.Deadlock) else "client-exception"
                    bad.append((f"{kind}:{ev['cls']}", f"{where}: client raised {type(e).__name__}: {e}"))
                    log_trace.append(["exc", type(e).__name__])
                for ab in late:
                    try:
                        ab.release()
                    except Exception as e:  # noqa: BLE001
                        bad.append((f"release-failed:{ev['cls']}", f"{where}: late release raised {e!r}"))
                del late[:]
                if log_trace != exp_trace:
                    diff = next((i for i, (a, b) in enumerate(zip(log_trace, exp_trace)) if a != b), min(len(log_trace), len(exp_trace)))
                    bad.append((f"trace-differs-from-inline:{ev['cls']}",
                                f"{where}: client-visible trace differs from inline transfer at event {diff}: got {log_trace[diff:diff + 2]} expected {exp_trace[diff:diff + 2]}"))
                n_new = sum(1 for k in new_kept if k["region"])
                # The server may still be consuming input it answered ahead of (an init error is written before the
                # refused stream's input is drained): the table is judged once the server is parked on its next read.
                if cfg["pipe"] == "mem":
                    with contextlib.suppress(Exception):
                        mem.wait_reply_or_idle(c, 10.0)
                else:
                    import time as _time

                    t_end = _time.monotonic() + 1.0
                    while _time.monotonic() < t_end:
                        cur = read_table(seg.buf, total)
                        if cur is not None and len(cur) == len(pre or ()) + n_new:
                            break
                        _time.sleep(0.005)
                post = read_table(seg.buf, total)
                if post is None:
                    bad.append(("table-corrupt", f"{where}: header count does not fit"))
                else:
                    st["regions_seen_max"] = max(st["regions_seen_max"], len(post))
                    if not set(pre or ()) <= set(post):
                        bad.append((f"kept-region-freed:{ev['cls']}", f"{where}: regions {sorted(set(pre or ()) - set(post))} of still-kept batches were freed by this call"))
                    elif len(post) != len(pre or ()) + n_new:
                        bad.append((f"region-leak:{ev['cls']}" if len(post) > len(pre or ()) + n_new else f"region-missing:{ev['cls']}",
                                    f"{where}: allocation table {list(pre or ())} -> {list(post)} but the client keeps only {n_new} new shm batch(es) "
                                    f"of this call ({len(post) - len(pre or ()) - n_new:+d} region(s) unaccounted)"))
                kept.extend(new_kept)
                res.outcome = (name, len(post or ()), n_new, got_n[0])
            # kept batches must be unaffected by whatever just happened
            for k in kept:
                st["kept_checks"] += 1
                d = same_batch(k["ab"].batch, k["twin"])
                if d:
                    bad.append((f"kept-batch-changed:{ev['cls']}", f"{where}: kept batch {k['desc']} (region={k['region']}) no longer equals its inline twin: {d}"))
            if sth.done.is_set():
                bad.append((f"server-died:{ev['cls']}", f"{where}: serve loop ended: {sth.exc!r}"))
            if last:
                res.bad = bad
        tab = read_table(seg.buf, total)
        res.table = tab if tab is not None else ((-1, -1),)
        res.kept = tuple((k["desc"], k["region"]) for k in kept)
        st["regions_allocated"] = ALLOCS[0] - a0
        return res
    finally:
        M.SHM_MIN_BATCH_BYTES = old_min
        if watchdog is not None:
            watchdog.cancel()
        for k in kept:
            k.clear()
        del kept[:]
        with contextlib.suppress(Exception):
            ct.close()
        if not sth.done.wait(20):
            POOL.abandon()
            res.bad.append(("server-hung", f"[{cfg['label']}] history {list(hist)}: serve() did not return after the client closed the transport"))
        with contextlib.suppress(Exception):
            stt.close()
        try:
            seg.close()
        finally:
            seg.unlink()


# ------------------------------------------------------------------------------------------------ exploration


def threshold_T() -> int:
    return prog.make_batch("is", 1, 2).nbytes  # the middle batch of p-is-*: first is above, last below


def configs(ctx: Ctx) -> list[dict[str, Any]]:
    T = threshold_T()
    out: list[dict[str, Any]] = []
    sizes = [1, 1000, 9000, 65536] + ([4 << 20] if ctx.thorough else [])
    for size in sizes:
        for mn in (1, 0, T):
            # "full" = number of leading calls drawn from the full menu; deeper calls come from PROBE
            if ctx.thorough:
                depth, full = (3, 3) if (size, mn) == (9000, 1) else ((2, 2) if size == 4 << 20 else (3, 2))
            else:
                if mn != 1 and size != 9000:
                    continue
                depth, full = (3, 2) if (size, mn) == (9000, 1) else (2, 2)
            if size == 1:
                depth, full = 2, 2  # nothing ever fits: every history returns to the initial state
            out.append({"size": size, "min": mn, "pipe": "mem", "depth": depth, "full": full})
    # every single-call history also over real OS pipes
    for size, mn in ((9000, 1), (65536, 0)) if ctx.quick else ((1000, 1), (9000, 1), (65536, 0), (65536, T)):
        out.append({"size": size, "min": mn, "pipe": "os", "depth": 1, "full": 1})
    for c in out:
        c["label"] = f"shm:{c['pipe']}:S{c['size']}:M{c['min']}:D{c['depth']}:F{c['full']}"
    return out


def explore(ctx: Ctx, cfg: dict[str, Any]) -> None:
    agg: dict[str, int] = {}

    def build(hist: tuple[Any, ...]) -> Result:
        r = run_history(cfg, tuple(hist))
        for k, v in r.stats.items():
            if k.endswith("_max"):
                agg[k] = max(agg.get(k, 0), v)
            else:
                agg[k] = agg.get(k, 0) + v
        return r

    def enabled(r: Result) -> list[str]:
        menu = PROBE if r.depth >= cfg["full"] else tuple(MENU)
        return [n for n in menu if n != "REL0" or r.kept]

    def invariant(r: Result, hist: tuple[Any, ...]) -> Any:
        return r.bad[0] if r.bad else None

    st = B.bfs(ctx, build, enabled, lambda r: (cfg["size"], cfg["min"], cfg["pipe"], r.table, r.kept), invariant,
               max_depth=cfg["depth"], label=cfg["label"])
    ctx.extra["histories"] = ctx.extra.get("histories", 0) + st["transitions"]
    ctx.extra["max_depth_reached"] = max(ctx.extra.get("max_depth_reached", 0), st["max_depth"])
    for k, v in agg.items():
        kk = "max_" + k[:-4] if k.endswith("_max") else k
        ctx.extra[kk] = max(ctx.extra.get(kk, 0), v) if k.endswith("_max") else ctx.extra.get(kk, 0) + v


def run(ctx: Ctx) -> None:
    ctx.extra.update({"histories": 0, "shm_batches": 0, "inline_batches": 0, "kept_checks": 0, "calls": 0,
                      "regions_allocated": 0, "max_regions_seen": 0, "max_depth_reached": 0, "max_configs": 0})
    for cfg in configs(ctx):
        ctx.extra["max_configs"] += 1
        explore(ctx, cfg)  # sharded inside by first event


def replay(ctx: Ctx, case: dict[str, Any]) -> None:
    _, pipe, size, mn, depth, full = case["harness"].split(":")
    cfg = {"size": int(size[1:]), "min": int(mn[1:]), "pipe": pipe, "depth": int(depth[1:]), "full": int(full[1:]), "label": case["harness"]}
    r = run_history(cfg, tuple(case["history"]))
    for k, m in r.bad:
        ctx.fail(k, m, case)

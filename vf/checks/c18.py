"""C18 — Compression codecs round-trip and respect output caps (E1: exhaustive input enumeration).

Seam: the real ``vgi_rpc._codec.compress`` / ``decompress`` (the dispatchers every caller goes through).

Space (finite, enumerated completely, see ``RULE``): every byte string up to a length bound over a small
alphabet plus structured inputs around the 64 KiB streaming-chunk boundary; for each input every frame
producer (the repo's own ``compress`` at every level of the tier, and *independent* producers from
``zstandard`` / ``zlib`` / ``gzip`` / ``pyarrow`` that emit size-declaring frames, size-less streaming frames,
multi-block frames, checksummed frames, stored gzip members, gzip members with optional header fields);
for each frame every cap in {None, 0, len-1, len, len+1, 2**31} (+ chunk-boundary caps for large inputs).

Oracle (written from the property text, does not use the repo's helpers):
  * cap None or len(data) <= cap  ->  ``decompress`` returns exactly ``data``;
  * len(data) > cap               ->  ``decompress`` raises ``DecompressionLimitExceeded`` (the limit error),
                                       nothing else, and does not return;
  * the output of the repo's ``compress`` is a frame an independent decoder of that codec decodes to ``data``
    (zstd: ``zstandard`` stream reader, gzip: ``gzip.decompress``) — "the compressed form" of codec X is an X frame.
Whether a zstd frame declares its size is decided by a 6-line independent frame-header parser
(``zstd_declares_size``), only used to label the class of the case / the finding key.

Reading note: the statement lists ``identity`` among the codecs and quantifies the cap sentence over
"decompression" in general, so ``decompress(IDENTITY, data, max_output_size=cap)`` with ``len(data) > cap``
is judged by the same rule; a finding there gets its own key (``identity:...``) so it can be classified
separately from the framed codecs.
"""

from __future__ import annotations

import gzip as _gzip
import io
import itertools
import zlib
from typing import Any, Callable

from vf.core.runner import Ctx

PROPERTY = "C18"
LEVEL = "exploration"
ENGINE = "E1-SEQ"
SHARDS = {"quick": 8, "thorough": 16}
RULE = (
    "inputs: all byte strings of length <=6 (quick) / <=8 (thorough) over {00,41,ff} + (thorough) length <=4 over "
    "{00,01,41,ff} + structured inputs (zeros / ramp / LCG-noise) at sizes around the 64 KiB read chunk "
    "(65535,65536,65537,131072,131073; thorough adds 1,2,196609,1048577 and a 4 MiB zero run); x frame producers "
    "(repo compress at every tier level; zstd one-shot without size, compressobj, compressobj with block flushes, "
    "stream_writer with declared size, checksummed, pyarrow CompressedOutputStream; gzip.compress, zlib sync/full "
    "flush, FNAME header, pyarrow; identity) x caps {None,0,len-1,len,len+1,2^31} (+65535/65536/65537, "
    "len-65536, len-65537 for structured inputs). One evaluation = one decompress(frame, cap) call judged against "
    "the rule; non-trivial class = (codec, size-declaring?, len-vs-cap relation)"
)
TECHNIQUE = "exhaustive enumeration of (input, producer, level, cap) against a 3-line reference rule; independent frame producers and decoders"
LEVEL_TEXT = (
    "Every (byte string, frame producer, level, cap) combination inside the stated bounds is executed through the real "
    "compress/decompress and compared with the rule 'returns the original iff len<=cap else DecompressionLimitExceeded'. "
    "Exploration level: the space is a finite input grammar, no state or interleaving is involved."
)
LEVEL_NOTE = (
    "Byte strings longer than the bound are represented by three structured patterns only; frames are produced by "
    "zstandard/zlib/gzip/pyarrow as shipped in the sandbox (trusted producers); multi-frame / trailing-garbage "
    "inputs are not part of this property (see C17)."
)
ASSUMPTIONS = [
    "zstandard, zlib, gzip and pyarrow (the independent frame producers/decoders) are correct",
    "negative caps are not part of the space (cap >= 0)",
]

BIG = 2**31
CHUNK = 65536


# ----------------------------------------------------------------------------------------------
# inputs


def pattern(name: str, size: int) -> bytes:
    if name == "zeros":
        return bytes(size)
    if name == "ramp":
        return bytes((i * 7 + (i >> 8)) & 0xFF for i in range(size))
    if name == "noise":  # LCG, incompressible -> raw/stored blocks
        out = bytearray(size)
        x = 0x2545F491
        for i in range(size):
            x = (x * 1103515245 + 12345) & 0x7FFFFFFF
            out[i] = (x >> 16) & 0xFF
        return bytes(out)
    raise ValueError(name)


def input_specs(ctx: Ctx) -> list[dict[str, Any]]:
    specs: list[dict[str, Any]] = []
    maxlen = 6 if ctx.quick else 8
    for n in range(maxlen + 1):
        for t in itertools.product((0x00, 0x41, 0xFF), repeat=n):
            specs.append({"hex": bytes(t).hex()})
    if ctx.thorough:
        seen = {s["hex"] for s in specs}
        for n in range(1, 5):
            for t in itertools.product((0x00, 0x01, 0x41, 0xFF), repeat=n):
                hx = bytes(t).hex()
                if hx not in seen:
                    seen.add(hx)
                    specs.append({"hex": hx})
    sizes = [65535, 65536, 65537, 131072, 131073]
    if ctx.thorough:
        sizes = [1, 2] + sizes + [196609, 1048577]
    for size in sizes:
        for pat in ("zeros", "ramp", "noise"):
            specs.append({"pattern": pat, "size": size})
    if ctx.thorough:
        specs.append({"pattern": "zeros", "size": 4 * 1024 * 1024})
    return specs


def materialize(spec: dict[str, Any]) -> bytes:
    if "hex" in spec:
        return bytes.fromhex(spec["hex"])
    return pattern(spec["pattern"], spec["size"])


def caps_for(spec: dict[str, Any], n: int) -> list[int | None]:
    caps: list[int | None] = [None, 0, n - 1, n, n + 1, BIG]
    if "pattern" in spec:
        caps += [1, CHUNK - 1, CHUNK, CHUNK + 1, n - CHUNK, n - CHUNK - 1, n - CHUNK + 1]
    out: list[int | None] = []
    for c in caps:
        if c is not None and c < 0:
            continue
        if c not in out:
            out.append(c)
    return out


def relation(n: int, cap: int | None) -> str:
    if cap is None:
        return "nocap"
    if cap == BIG:
        return "large"
    if cap == n:
        return "len==cap"
    if cap == n - 1:
        return "len==cap+1"
    if cap == n + 1:
        return "len==cap-1"
    if cap == 0:
        return "cap0"
    return "len>cap" if n > cap else "len<cap"


# ----------------------------------------------------------------------------------------------
# frame producers (independent of the repo, except "repo")


def pieces(data: bytes) -> list[bytes]:
    """Split *data* into up to three pieces (deterministic) for the flush-between-pieces producers."""
    n = len(data)
    if n < 2:
        return [data]
    a, b = n // 3, (2 * n) // 3
    return [p for p in (data[:a], data[a:b], data[b:]) if p] or [data]


_ZCTX: dict[Any, Any] = {}
_TABLES: dict[str, Any] = {}
STREAMING = {"compressobj", "compressobj-blocks"}


def producers(codec: str) -> list[tuple[str, Callable[[bytes, int | None], bytes], bool]]:
    if codec not in _TABLES:
        _TABLES[codec] = zstd_producers() if codec == "zstd" else gzip_producers()
    return _TABLES[codec]


def zstd_producers() -> list[tuple[str, Callable[[bytes, int | None], bytes], bool]]:
    """(name, fn(data, level), takes_level)."""
    import pyarrow as pa
    import zstandard as zs

    def cctx(level: int | None, **kw: Any) -> Any:
        # compression contexts are cached: a streaming context of unknown source size costs up to seconds
        # to set up at high levels, and it is only the producer (not the code under test)
        key = (3 if level is None else level, tuple(sorted(kw.items())))
        if key not in _ZCTX:
            _ZCTX[key] = zs.ZstdCompressor(level=key[0], **kw)
        return _ZCTX[key]

    def repo(data: bytes, level: int | None) -> bytes:
        from vgi_rpc._codec import Encoding, compress

        return compress(Encoding.ZSTD, data, level=level) if level is not None else compress(Encoding.ZSTD, data)

    def nosize(data: bytes, level: int | None) -> bytes:
        return cctx(level, write_content_size=False).compress(data)

    def cobj(data: bytes, level: int | None) -> bytes:
        co = cctx(level).compressobj()
        return co.compress(data) + co.flush()

    def cobj_blocks(data: bytes, level: int | None) -> bytes:
        co = cctx(level).compressobj()
        out = b""
        for p in pieces(data):
            out += co.compress(p) + co.flush(zs.COMPRESSOBJ_FLUSH_BLOCK)
        return out + co.flush()

    def writer_sized(data: bytes, level: int | None) -> bytes:
        out = io.BytesIO()
        with cctx(level).stream_writer(out, size=len(data), closefd=False) as w:
            for p in pieces(data):
                w.write(p)
        return out.getvalue()

    def checksum(data: bytes, level: int | None) -> bytes:
        return cctx(level, write_checksum=True).compress(data)

    def arrow(data: bytes, level: int | None) -> bytes:
        sink = pa.BufferOutputStream()
        s = pa.CompressedOutputStream(sink, "zstd")
        s.write(data)
        s.close()
        return sink.getvalue().to_pybytes()

    return [
        ("repo", repo, True),
        ("oneshot-nosize", nosize, True),
        ("compressobj", cobj, True),
        ("compressobj-blocks", cobj_blocks, True),
        ("writer-sized", writer_sized, True),
        ("checksum", checksum, True),
        ("arrow-stream", arrow, False),
    ]


def gzip_producers() -> list[tuple[str, Callable[[bytes, int | None], bytes], bool]]:
    import pyarrow as pa

    def lvl(level: int | None) -> int:
        return 6 if level is None else level

    def repo(data: bytes, level: int | None) -> bytes:
        from vgi_rpc._codec import Encoding, compress

        return compress(Encoding.GZIP, data, level=level) if level is not None else compress(Encoding.GZIP, data)

    def stdlib(data: bytes, level: int | None) -> bytes:
        lv = lvl(level)
        return _gzip.compress(data, compresslevel=9 if lv < 0 else lv, mtime=0)

    def flushed(kind: int) -> Callable[[bytes, int | None], bytes]:
        def f(data: bytes, level: int | None) -> bytes:
            co = zlib.compressobj(lvl(level), zlib.DEFLATED, 31)
            out = b""
            for p in pieces(data):
                out += co.compress(p) + co.flush(kind)
            return out + co.flush(zlib.Z_FINISH)

        return f

    def fname(data: bytes, level: int | None) -> bytes:
        lv = lvl(level)
        buf = io.BytesIO()
        with _gzip.GzipFile(filename="payload.arrow", mode="wb", compresslevel=9 if lv < 0 else lv, fileobj=buf, mtime=1) as g:
            g.write(data)
        return buf.getvalue()

    def arrow(data: bytes, level: int | None) -> bytes:
        sink = pa.BufferOutputStream()
        s = pa.CompressedOutputStream(sink, "gzip")
        s.write(data)
        s.close()
        return sink.getvalue().to_pybytes()

    return [
        ("repo", repo, True),
        ("gzip.compress", stdlib, True),
        ("sync-flush", flushed(zlib.Z_SYNC_FLUSH), True),
        ("full-flush", flushed(zlib.Z_FULL_FLUSH), True),
        ("fname-header", fname, True),
        ("arrow-stream", arrow, False),
    ]


def levels(ctx_quick: bool, codec: str, structured: bool, streaming: bool = False) -> list[int | None]:
    """Levels per tier. Size-less streaming zstd contexts above level 8 cost seconds and up to ~1 GB each to set
    up, so the streaming producers take {.., 1..8, 19}; the decoder under test does not depend on the level."""
    if codec == "zstd":
        if ctx_quick:
            return [None, 1, 3] + ([] if streaming else [19])
        if structured:
            return [None, -1, 1, 3, 19] + ([] if streaming else [22])
        return [None] + list(range(-5, 0)) + list(range(1, 9)) + ([19] if streaming else list(range(9, 23)))
    if ctx_quick:
        return [None, 0, 1, 6, 9]
    return [None, -1] + list(range(0, 10))


def zstd_declares_size(frame: bytes) -> bool:
    """Independent zstd frame-header read (RFC 8878 §3.1.1.1): is Frame_Content_Size present?"""
    if len(frame) < 5 or frame[:4] != b"\x28\xb5\x2f\xfd":
        return False
    fhd = frame[4]
    fcs_flag, single_segment = fhd >> 6, (fhd >> 5) & 1
    return fcs_flag != 0 or single_segment == 1


def independent_decode(codec: str, frame: bytes) -> bytes:
    if codec == "zstd":
        import zstandard as zs

        with zs.ZstdDecompressor().stream_reader(frame) as r:
            return r.read()
    if codec == "gzip":
        return _gzip.decompress(frame)
    return frame


# ----------------------------------------------------------------------------------------------
# the judged step


def make_frame(codec: str, producer: str, data: bytes, level: int | None) -> bytes:
    if codec == "identity":
        from vgi_rpc._codec import Encoding, compress

        return compress(Encoding.IDENTITY, data, level=level) if level is not None else compress(Encoding.IDENTITY, data)
    fn = next(f for name, f, _ in producers(codec) if name == producer)
    return fn(data, level)


def judge(ctx: Ctx, spec: dict[str, Any], data: bytes, codec: str, producer: str, level: int | None,
          frame: bytes, cap: int | None, sample: bool = False) -> None:
    from vgi_rpc._codec import DecompressionLimitExceeded, Encoding, decompress

    n = len(data)
    sized = "n/a" if codec != "zstd" else ("declared" if zstd_declares_size(frame) else "sizeless")
    rel = relation(n, cap)
    want_ok = cap is None or n <= cap
    try:
        got = decompress(Encoding(codec), frame, max_output_size=cap) if cap is not None else decompress(Encoding(codec), frame)
        outcome = "ok" if got == data else "mismatch"
    except DecompressionLimitExceeded:
        outcome = "limit"
    except Exception as e:  # noqa: BLE001 - any other failure is judged below
        outcome = "exc:" + type(e).__name__
    case = {"data": spec, "codec": codec, "producer": producer, "level": level, "cap": cap}
    # key = codec / frame kind / failure kind (one root cause -> one key); the len-vs-cap relation is in the message
    cls = codec if codec != "zstd" else f"{codec}:{sized}"
    if want_ok and outcome != "ok":
        kind = {"mismatch": "roundtrip-mismatch", "limit": "spurious-limit"}.get(outcome, "error-" + outcome[4:])
        ctx.fail(f"{cls}:{kind}",
                 f"decompress({codec}, frame from {producer} level={level}, len={n}, cap={cap} [{rel}]) -> {outcome}; "
                 f"expected the original {n} bytes", case)
    elif not want_ok and outcome != "limit":
        kind = "cap-ignored" if outcome == "ok" else ("cap-wrong-bytes" if outcome == "mismatch" else "cap-wrong-error-" + outcome[4:])
        ctx.fail(f"{cls}:{kind}",
                 f"decompress({codec}, frame from {producer} level={level}, len={n}, cap={cap} [{rel}]) -> {outcome}; "
                 f"expected DecompressionLimitExceeded because {n} > {cap}", case)
    ctx.case(
        sample=dict(case, frame_len=len(frame), outcome=outcome) if sample else None,
        nontrivial=f"{codec[0]}{sized[0]}{rel}",
        outcome=f"{codec[0]}{sized[0]}{outcome}"[:16],
    )


def run_input(ctx: Ctx, spec: dict[str, Any], want_samples: bool) -> None:
    data = materialize(spec)
    n = len(data)
    caps = caps_for(spec, n)
    structured = "pattern" in spec
    for codec in ("zstd", "gzip", "identity"):
        if codec == "identity":
            plan: list[tuple[str, int | None]] = [("repo", None)] + ([("repo", 5)] if not structured else [])
        else:
            plan = []
            for name, _fn, takes_level in producers(codec):
                for lv in levels(ctx.quick, codec, structured, name in STREAMING) if takes_level else [None]:
                    plan.append((name, lv))
        for producer, lv in plan:
            frame = make_frame(codec, producer, data, lv)
            ctx.extra["frames"] += 1
            if producer == "repo":
                # the compressed form must be a frame of the named codec (independent decoder agrees)
                ctx.extra["interop_decodes"] += 1
                try:
                    ind = independent_decode(codec, frame)
                except Exception as e:  # noqa: BLE001
                    ind = None
                    err = repr(e)
                else:
                    err = "different bytes"
                if ind != data:
                    ctx.fail(f"{codec}:compress-not-a-{codec}-frame",
                             f"compress({codec}, len={n}, level={lv}) output is not decoded to the input by an independent {codec} decoder: {err}",
                             {"data": spec, "codec": codec, "producer": producer, "level": lv, "cap": None})
            if codec == "zstd":
                ctx.extra["zstd_declared_frames" if zstd_declares_size(frame) else "zstd_sizeless_frames"] += 1
            for cap in caps:
                smp = want_samples and producer in ("repo", "compressobj") and lv in (None, 1) and cap in (n, n - 1)
                judge(ctx, spec, data, codec, producer, lv, frame, cap, sample=smp)


def run(ctx: Ctx) -> None:
    ctx.extra.update({"frames": 0, "interop_decodes": 0, "zstd_declared_frames": 0, "zstd_sizeless_frames": 0, "inputs": 0,
                      "max_input_len": 0})
    specs = input_specs(ctx)
    # structured (expensive) inputs first so that they spread evenly over shards
    specs.sort(key=lambda s: -s.get("size", 0))
    for i, spec in enumerate(specs):
        if not ctx.mine():
            continue
        ctx.extra["inputs"] += 1
        ctx.extra["max_input_len"] = max(ctx.extra["max_input_len"], spec.get("size", len(spec.get("hex", "")) // 2))
        run_input(ctx, spec, want_samples=(spec.get("hex") in ("41", "00ff41") or spec.get("size") == 65537 and spec.get("pattern") == "ramp"))


def replay(ctx: Ctx, case: dict[str, Any]) -> None:
    ctx.extra.update({"frames": 0, "interop_decodes": 0, "zstd_declared_frames": 0, "zstd_sizeless_frames": 0})
    data = materialize(case["data"])
    frame = make_frame(case["codec"], case["producer"], data, case["level"])
    if case["cap"] is None and case["producer"] == "repo":
        try:
            ok = independent_decode(case["codec"], frame) == data
        except Exception:  # noqa: BLE001
            ok = False
        if not ok:
            ctx.fail(f"{case['codec']}:compress-not-a-{case['codec']}-frame", "independent decoder disagrees", case)
    judge(ctx, case["data"], data, case["codec"], case["producer"], case["level"], frame, case["cap"])

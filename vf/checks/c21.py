"""C21 — 401 responses follow the unauthorized specification (E1: exhaustive enumeration of a finite grammar).

Server half.  An *app configuration* is (composition shape, proxy-header declarations).  Shapes: a single leaf, real
``chain_authenticate`` of 1..3 leaves, real ``require_all(proxy_proof_gate(allow|require), leaf | None)``,
``chain(require_all(gate, leaf), leaf)``, ``chain(bearer_authenticate_static, leaf)``,
``chain(mtls_authenticate_xfcc, leaf)``.  Declarations: leaf 0 declared via ``declare_proxy_headers`` or not x
``proxy_auth_headers`` given or not x ``proxy_proof_required`` on/off.  Leaves are *request driven* (header
``X-B<i>`` names the behaviour) so that one app produces every kind of failure: accept, AuthFailure x 6 reason
codes, bare ValueError (plain / empty text / markup text), ValueError with a duck-typed reason attribute (valid
AuthReason / bogus string), PermissionError (bare / duck-typed reason), ProofError, AuthUnavailableError.  For every
app every behaviour tuple x Accept header (x proof header / Authorization / XFCC where the shape reads one) is
sent through the real WSGI app; the Accept-less variant is also issued by the REAL client (``http_connect``).

Reference (written from docs/unauthorized-spec.md and the property text, not from the repo's helpers):
  * leaf classification: declared reason if the exception carries one from the closed set; otherwise
    ``unauthorized`` (a bare PermissionError may be ``insufficient_scope`` or ``unauthorized`` — spec leaves it open);
  * chain (OR): first success wins; a ValueError-class rejection tries the next; PermissionError-class and
    outages propagate; all rejected -> ``missing_credential`` iff EVERY alternative reported it, else the first
    code that is not ``missing_credential`` (a duck-typed ValueError may be recorded as its declared code or as
    ``unauthorized``: both accepted);
  * require_all (AND): gate first; require-mode failure -> ``proxy_required`` without consulting the inner;
  * outage reached -> 503, never 401;   * accepted -> the call succeeds (positive control).
  * every 401: ``VGI-Auth-Reason`` in the closed set and allowed by the reference; ``Cache-Control`` contains
    ``no-store``; when Accept lacks ``text/html``: ``application/json`` body, ``error == "unauthorized"``, ``reason``
    equal to the header, ``detail`` a string; (an HTML request may get HTML or the JSON envelope);
  * proxy note: ``VGI-Auth-Proxy-Required: true`` + non-empty ``proxy_hint`` iff the configuration depends on
    proxy-injected headers (declared leaf / mTLS / require-mode gate / proxy_auth_headers / proxy_proof_required —
    an allow-mode gate does NOT count); absent (never "false", no ``proxy_hint`` key) otherwise; and the
    (header, hint) pair is identical over ALL 401s of the app.
History half.  A 401 is a function of the request alone: on {single, chain2, require_all(allow, leaf)} x {undeclared,
declared} apps every sequence of length 2 (thorough: <=3) over {8 failure kinds sharing ONE detail text} x {JSON, HTML} is
played on one app instance, plus a sequence that overflows the serializer's bounded body cache; every response must be
equal — in status, VGI-Auth-Reason, proxy-note header, no-store, content type, envelope reason and proxy_hint — to the
answer of a fresh app to the same request (page markup and detail wording are not judged).
Client half.  ``_parse_unauthorized`` and the real client fed by a stub transport answering 401 with each body of a
corpus (valid envelopes, unknown/ill-typed reasons, non-object JSON, HTML, binary, empty, 1 MB, NaN, UTF-16,
nesting depth 10..100000 closed and unclosed): must yield ``AuthenticationError`` whose ``reason`` is in the closed
set (and equals the envelope's reason when that is a valid code), never another exception.
"""

from __future__ import annotations

import itertools
import json
from typing import Any, Protocol

from vf.core.runner import Ctx, HarnessError

PROPERTY = "C21"
LEVEL = "exploration"
ENGINE = "E1-SEQ"
SHARDS = {"quick": 8, "thorough": 16}
RULE = (
    "apps = shape{single, chain1..3, require_all(allow|require, leaf|none), chain(require_all,leaf), chain(bearer,leaf), "
    "chain(mtls,leaf)} x declarations{leaf0 declared?, proxy_auth_headers?, proxy_proof_required?} (quick: 4 of the 8 "
    "declaration combos, chain3 over 8 behaviours; thorough: all 8, chain3 over all 16); per app every behaviour tuple "
    "(16 leaf behaviours) x Accept{absent,*/*,application/json,xhtml-without-text/html,text/html,browser list} x credential-header variants, "
    "plus the same call through the real client; history pass: 6 apps x all sequences of length 2 (thorough <=3) over 8 "
    "same-detail failure kinds x {json,html} + one 300-request cache-overflow sequence, each response compared with a fresh app's; client corpus of 401 bodies x {_parse_unauthorized, real client over a "
    "stub transport}; one evaluation = one HTTP exchange or one parse; non-trivial = a 401/503 was produced (class = shape, "
    "reason, accept class, note?) or a corpus body was parsed"
)
TECHNIQUE = "exhaustive enumeration of authenticator compositions x failure kinds x Accept against the real WSGI app and real client, judged by a reference model transcribed from docs/unauthorized-spec.md"
LEVEL_TEXT = (
    "All compositions up to the stated size, all failure kinds and all Accept classes are executed against the real "
    "middleware, error serializer, chain/require_all combinators and client parser; the per-app uniformity of the "
    "proxy note is checked over every 401 the app produced."
)
LEVEL_NOTE = "Chains longer than 3 and nested chains deeper than 2 are outside the bound; HTML page content is not judged (presentation)."
ASSUMPTIONS = [
    "requests go through falcon.testing (no socket)",
    "the proof gate's clock is injected and constant",
    "a bare PermissionError may map to insufficient_scope or unauthorized (spec leaves it open)",
]

CLOSED = ("missing_credential", "invalid_credential", "expired_credential", "insufficient_scope", "proxy_required", "unauthorized")
MISSING = "missing_credential"
UNAUTH = "unauthorized"

# behaviour -> (class, standalone codes, codes a chain may record)
BEH: dict[str, tuple[str, frozenset[str], frozenset[str]]] = {"ok": ("ok", frozenset(), frozenset()), "down": ("down", frozenset(), frozenset())}
for _r in CLOSED:
    BEH["af_" + _r] = ("V", frozenset([_r]), frozenset([_r]))
BEH.update({
    "ve": ("V", frozenset([UNAUTH]), frozenset([UNAUTH])),
    "ve_empty": ("V", frozenset([UNAUTH]), frozenset([UNAUTH])),
    "ve_html": ("V", frozenset([UNAUTH]), frozenset([UNAUTH])),
    "ve_duck": ("V", frozenset(["expired_credential"]), frozenset(["expired_credential", UNAUTH])),
    "ve_bogus": ("V", frozenset([UNAUTH]), frozenset([UNAUTH])),
    "pe": ("P", frozenset(["insufficient_scope", UNAUTH]), frozenset()),
    "pe_duck": ("P", frozenset(["invalid_credential"]), frozenset()),
    "proof": ("P", frozenset(["proxy_required"]), frozenset()),
})
ALL_B = list(BEH)
# history pass only: every failure kind with ONE shared detail text (a validator that keeps its detail uniform)
U_B = ["u_" + r for r in CLOSED] + ["u_ve", "u_pe"]
for _r in CLOSED:
    BEH["u_" + _r] = ("V", frozenset([_r]), frozenset([_r]))
BEH["u_ve"] = BEH["ve"]
BEH["u_pe"] = BEH["pe"]
SMALL_B = ["ok", "down", "af_missing_credential", "af_expired_credential", "ve", "ve_duck", "pe", "proof"]
ACCEPTS = [None, "*/*", "application/json", "application/xhtml+xml,text/plain;q=0.5", "text/html", "text/html,application/xhtml+xml,application/xml;q=0.9,*/*;q=0.8"]

T0 = 1_700_000_000
SEC = bytes(range(32))


def make_leaf(i: int) -> Any:
    from vgi_rpc.http._proof import ProofError
    from vgi_rpc.http._unauthorized import AuthFailure, AuthReason, AuthUnavailableError
    from vgi_rpc.rpc import AuthContext

    class Duck(ValueError):
        pass

    class DuckP(PermissionError):
        pass

    def leaf(req: Any) -> Any:
        b = req.get_header(f"X-B{i}") or "af_missing_credential"
        if b == "ok":
            return AuthContext(domain="leaf", authenticated=True, principal=f"p{i}")
        if b == "down":
            raise AuthUnavailableError("idp down", retry_after=7)
        if b.startswith("af_"):
            raise AuthFailure(AuthReason(b[3:]), f"detail {b}")
        if b.startswith("u_"):
            detail = req.get_header(f"X-D{i}") or "token not accepted"
            if b == "u_ve":
                raise ValueError(detail)
            if b == "u_pe":
                raise PermissionError(detail)
            raise AuthFailure(AuthReason(b[2:]), detail)
        if b == "ve":
            raise ValueError("bad credential")
        if b == "ve_empty":
            raise ValueError("")
        if b == "ve_html":
            raise ValueError('<b>"x" & y</b> é')
        if b == "ve_duck":
            e = Duck("duck typed")
            e.vgi_auth_reason = AuthReason.EXPIRED_CREDENTIAL  # type: ignore[attr-defined]
            raise e
        if b == "ve_bogus":
            e2 = Duck("bogus reason attr")
            e2.vgi_auth_reason = "totally_new_code"  # type: ignore[attr-defined]
            raise e2
        if b == "pe":
            raise PermissionError("forbidden")
        if b == "pe_duck":
            e3 = DuckP("duck perm")
            e3.vgi_auth_reason = AuthReason.INVALID_CREDENTIAL  # type: ignore[attr-defined]
            raise e3
        if b == "proof":
            raise ProofError("bad_mac", "signature mismatch")
        raise AssertionError(b)

    return leaf


# ------------------------------------------------------------------ reference algebra
# outcome: ("ok",) | ("down",) | ("rej", cls, standalone_codes, chain_codes)
def leaf_out(b: str) -> tuple[Any, ...]:
    cls, own, ch = BEH[b]
    if cls in ("ok", "down"):
        return (cls,)
    return ("rej", cls, own, ch if cls == "V" else frozenset())


def chain_out(members: list[tuple[Any, ...]]) -> tuple[Any, ...]:
    recorded: list[frozenset[str]] = []
    for m in members:
        if m[0] in ("ok", "down"):
            return m
        if m[1] == "P":
            return m
        recorded.append(m[3])
    finals = set()
    for combo in itertools.product(*recorded):
        if all(c == MISSING for c in combo):
            finals.add(MISSING)
        else:
            finals.add(next(c for c in combo if c != MISSING))
    f = frozenset(finals)
    return ("rej", "V", f, f)  # the chain itself raises an AuthFailure carrying that code


def gate_out(mode: str, proof_ok: bool, inner: tuple[Any, ...] | None) -> tuple[Any, ...]:
    if mode == "require" and not proof_ok:
        return ("rej", "P", frozenset(["proxy_required"]), frozenset())
    return inner if inner is not None else ("ok",)


# ------------------------------------------------------------------ shapes
def shapes(ctx: Ctx) -> list[dict[str, Any]]:
    out: list[dict[str, Any]] = [{"shape": "single"}, {"shape": "chain", "n": 1}, {"shape": "chain", "n": 2}, {"shape": "chain", "n": 3}]
    for mode in ("allow", "require"):
        out.append({"shape": "req_all", "mode": mode, "inner": True})
        out.append({"shape": "req_all", "mode": mode, "inner": False})
        out.append({"shape": "chain_req_all", "mode": mode})
    out.append({"shape": "chain_bearer"})
    out.append({"shape": "chain_mtls"})
    return out


def decls(ctx: Ctx) -> list[dict[str, bool]]:
    allc = [{"leaf": a, "param": b, "flag": c} for a, b, c in itertools.product((False, True), repeat=3)]
    if ctx.quick:
        return [d for d in allc if (d["leaf"], d["param"], d["flag"]) in ((False, False, False), (True, False, False), (False, True, False), (False, False, True))]
    return allc


def mint(nonce_i: int) -> str:
    import base64
    import hashlib
    import hmac

    def b64(raw: bytes) -> str:
        return base64.urlsafe_b64encode(raw).decode().rstrip("=")

    nonce = b64(hashlib.sha256(b"n%d" % nonce_i).digest()[:16])
    msg = b"\x00".join([b"vgi.proxy.proof.v1", b"k1", str(T0).encode(), nonce.encode(), b"w1"])
    return f"v1.k1.{T0}.{nonce}.{b64(hmac.new(SEC, msg, hashlib.sha256).digest())}"


def build_auth(sh: dict[str, Any], d: dict[str, bool]) -> tuple[Any, int, bool]:
    """-> (authenticate, number of driven leaves, shape-intrinsic proxy dependency)."""
    from vgi_rpc.http import bearer_authenticate_static, chain_authenticate, mtls_authenticate_xfcc, require_all
    from vgi_rpc.http._proof import ProxyProofConfig, proxy_proof_gate
    from vgi_rpc.http._unauthorized import declare_proxy_headers
    from vgi_rpc.rpc import AuthContext

    leaves = [make_leaf(i) for i in range(3)]
    if d["leaf"]:
        declare_proxy_headers(leaves[0], "X-SSL-Client-Cert")
    s = sh["shape"]

    def gate(mode: str) -> Any:
        return proxy_proof_gate(ProxyProofConfig(mode=mode, origin_id="w1", secrets={"k1": (SEC, "proxyA")}, enable_replay_cache=False), now=lambda: T0)

    if s == "single":
        return leaves[0], 1, False
    if s == "chain":
        return chain_authenticate(*leaves[: sh["n"]]), sh["n"], False
    if s == "req_all":
        return require_all(gate(sh["mode"]), leaves[0] if sh["inner"] else None), (1 if sh["inner"] else 0), sh["mode"] == "require"
    if s == "chain_req_all":
        return chain_authenticate(require_all(gate(sh["mode"]), leaves[0]), leaves[1]), 2, sh["mode"] == "require"
    if s == "chain_bearer":
        b = bearer_authenticate_static(tokens={"good": AuthContext(domain="bearer", authenticated=True, principal="alice")})
        return chain_authenticate(b, leaves[0]), 1, False
    if s == "chain_mtls":
        return chain_authenticate(mtls_authenticate_xfcc(), leaves[0]), 1, True
    raise AssertionError(s)


def variants(sh: dict[str, Any]) -> list[tuple[str, dict[str, str], Any]]:
    """Credential-header variants of a shape: (name, headers, fact used by the reference)."""
    s = sh["shape"]
    if s in ("req_all", "chain_req_all"):
        return [("noproof", {}, False), ("proof", {"VGI-Proxy-Proof": mint(1)}, True), ("badproof", {"VGI-Proxy-Proof": mint(1)[:-1] + ("A" if mint(1)[-1] != "A" else "B")}, False)]
    if s == "chain_bearer":
        return [
            ("none", {}, ("rej", "V", frozenset([MISSING]), frozenset([MISSING]))),
            ("basic", {"Authorization": "Basic eDp5"}, ("rej", "V", frozenset(["invalid_credential"]), frozenset(["invalid_credential"]))),
            ("bad", {"Authorization": "Bearer nope"}, ("rej", "V", frozenset(["invalid_credential"]), frozenset(["invalid_credential"]))),
            ("good", {"Authorization": "Bearer good"}, ("ok",)),
        ]
    if s == "chain_mtls":
        return [
            ("none", {}, ("rej", "V", frozenset(["proxy_required"]), frozenset(["proxy_required"]))),
            ("cert", {"x-forwarded-client-cert": 'Hash=abc;Subject="CN=client1"'}, ("ok",)),
        ]
    return [("-", {}, None)]


def reference(sh: dict[str, Any], behs: tuple[str, ...], fact: Any) -> tuple[Any, ...]:
    s = sh["shape"]
    lo = [leaf_out(b) for b in behs]
    if s == "single":
        return lo[0]
    if s == "chain":
        return chain_out(lo)
    if s == "req_all":
        return gate_out(sh["mode"], fact, lo[0] if sh["inner"] else None)
    if s == "chain_req_all":
        return chain_out([gate_out(sh["mode"], fact, lo[0]), lo[1]])
    if s in ("chain_bearer", "chain_mtls"):
        return chain_out([fact, lo[0]])
    raise AssertionError(s)


# ------------------------------------------------------------------ service + request body
class PingSvc(Protocol):
    """One unary method."""

    def ping(self) -> int:
        """Return 1."""
        ...


class PingImpl:
    def ping(self) -> int:
        return 1


_S: dict[str, Any] = {}


def base() -> dict[str, Any]:
    if _S:
        return _S
    from vgi_rpc.http import http_connect
    from vgi_rpc.http._testing import make_sync_client
    from vgi_rpc.rpc import RpcServer

    _S["server"] = RpcServer(PingSvc, PingImpl())
    rec: list[Any] = []
    c = make_sync_client(_S["server"], token_key=b"k" * 32, enable_landing_page=False, enable_describe_page=False)
    orig = c.post

    class R:
        prefix = ""

        def post(self, url: str, **kw: Any) -> Any:
            rec.append((url, kw["content"], dict(kw["headers"])))
            return orig(url, **kw)

        def __getattr__(self, n: str) -> Any:
            return getattr(c, n)

    with http_connect(PingSvc, client=R()) as px:
        if px.ping() != 1:
            raise HarnessError("ping failed on the open app")
    _S["req"] = rec[-1]
    return _S


def make_app(auth: Any, d: dict[str, bool]) -> Any:
    from vgi_rpc.http.server import make_wsgi_app

    return make_wsgi_app(
        base()["server"], token_key=b"k" * 32, authenticate=auth, enable_landing_page=False, enable_describe_page=False,
        proxy_auth_headers=["X-Custom-Proxy"] if d["param"] else None, proxy_proof_required=d["flag"],
    )


# ------------------------------------------------------------------ judging one response
def judge(ctx: Ctx, rep: dict[str, Any], exp: tuple[Any, ...], depends: bool, status: int, headers: dict[str, str], body: bytes, accept: str | None, notes: set[Any]) -> str:
    where = f"shape={rep['sh']} decl={rep['d']} behaviours={rep['behs']} variant={rep['var']} accept={accept!r}"
    sh = rep["sh"]["shape"]
    hl = {k.lower(): v for k, v in headers.items()}
    if exp[0] == "ok":
        if status != 200:
            ctx.fail(f"accepting-composition-refused:{sh}", f"{where}: an alternative accepted the request but the response is {status}", rep)
        return "ok"
    if exp[0] == "down":
        if status != 503:
            ctx.fail(f"outage-not-503:{sh}:{status}", f"{where}: an authenticator outage must yield 503, got {status} (reason header {hl.get('vgi-auth-reason')!r})", rep)
        return "503"
    allowed = exp[2]
    if status != 401:
        ctx.fail(f"rejection-not-401:{sh}:{status}", f"{where}: authentication rejection answered with {status}, expected 401", rep)
        return str(status)
    reason = hl.get("vgi-auth-reason")
    if reason not in CLOSED:
        ctx.fail(f"reason-header-not-in-closed-set:{sh}", f"{where}: VGI-Auth-Reason={reason!r}", rep)
    elif reason not in allowed:
        k = "chain-missing-credential-misreported" if MISSING in (reason, *allowed) and sh.startswith("chain") else "wrong-reason"
        ctx.fail(f"{k}:{sh}", f"{where}: VGI-Auth-Reason={reason!r}, the specification gives {sorted(allowed)}", rep)
    if "no-store" not in (hl.get("cache-control") or "").lower():
        ctx.fail("cache-control-missing-no-store", f"{where}: Cache-Control={hl.get('cache-control')!r}", rep)
    pr = hl.get("vgi-auth-proxy-required")
    hint: Any = None
    ctype = (hl.get("content-type") or "").lower()
    wants_html = "text/html" in (accept or "")
    is_json = ctype.startswith("application/json")
    if not wants_html and not is_json:
        ctx.fail("non-html-request-not-json", f"{where}: Content-Type={ctype!r} for a request that did not ask for text/html", rep)
    if is_json:
        try:
            env = json.loads(body)
        except ValueError:
            env = None
        if not isinstance(env, dict):
            ctx.fail("json-envelope-unparseable", f"{where}: body {body[:120]!r}", rep)
        else:
            if env.get("reason") != reason:
                ctx.fail("envelope-reason-differs-from-header", f"{where}: header {reason!r} body {env.get('reason')!r}", rep)
            if env.get("error") != "unauthorized" or not isinstance(env.get("detail"), str):
                ctx.fail("envelope-shape", f"{where}: envelope {str(env)[:200]}", rep)
            hint = env.get("proxy_hint", None)
            if depends and not (isinstance(hint, str) and hint):
                ctx.fail(f"proxy-note-missing-in-body:{sh}", f"{where}: configuration depends on proxy headers but proxy_hint={hint!r}", rep)
            if not depends and "proxy_hint" in env:
                ctx.fail(f"proxy-note-unexpected-in-body:{sh}", f"{where}: no proxy dependency configured but proxy_hint={hint!r}", rep)
    elif not ctype.startswith("text/html"):
        ctx.fail("html-request-bad-content-type", f"{where}: Content-Type={ctype!r}", rep)
    if depends and pr != "true":
        ctx.fail(f"proxy-note-header-missing:{sh}", f"{where}: VGI-Auth-Proxy-Required={pr!r} though the configuration depends on proxy-injected headers", rep)
    if not depends and pr is not None:
        ctx.fail(f"proxy-note-header-unexpected:{sh}", f"{where}: VGI-Auth-Proxy-Required={pr!r} though nothing depends on a proxy", rep)
    notes.add(("header", pr))
    if is_json:
        notes.add(("hint", hint))
    return "401:" + str(reason)


class Hdr:
    """Sync client wrapper adding fixed headers and remembering the last response."""

    def __init__(self, app: Any, headers: dict[str, str]) -> None:
        from vgi_rpc.http._testing import _SyncTestClient

        self._c = _SyncTestClient(app, default_headers=headers)
        self.prefix = ""
        self.last: Any = None

    def post(self, url: str, **kw: Any) -> Any:
        self.last = self._c.post(url, **kw)
        return self.last

    def __getattr__(self, n: str) -> Any:
        return getattr(self._c, n)


def via_client(ctx: Ctx, rep: dict[str, Any], app: Any, headers: dict[str, str], exp: tuple[Any, ...]) -> str:
    from vgi_rpc.http import http_connect
    from vgi_rpc.http._unauthorized import AuthenticationError
    from vgi_rpc.rpc import RpcError

    where = f"[real client] shape={rep['sh']} decl={rep['d']} behaviours={rep['behs']} variant={rep['var']}"
    hc = Hdr(app, headers)
    try:
        with http_connect(PingSvc, client=hc) as px:
            px.ping()
        got: Any = ("ok",)
    except AuthenticationError as e:
        got = ("auth", getattr(e.reason, "value", e.reason))
    except RpcError as e:
        got = ("rpc", e.error_type)
    except Exception as e:  # the client must not blow up differently
        got = ("exc", type(e).__name__)
    if exp[0] == "rej":
        if got[0] != "auth":
            ctx.fail(f"client-401-not-authentication-error:{got[0]}", f"{where}: client outcome {got}", rep)
        elif got[1] not in CLOSED or got[1] not in exp[2]:
            ctx.fail("client-reason-wrong", f"{where}: AuthenticationError.reason={got[1]!r}, expected one of {sorted(exp[2])}", rep)
    elif exp[0] == "ok" and got != ("ok",):
        ctx.fail("client-accepted-call-failed", f"{where}: {got}", rep)
    elif exp[0] == "down" and got[0] in ("auth", "ok"):
        ctx.fail("client-outage-seen-as:" + got[0], f"{where}: {got}", rep)
    return str(got)


# ------------------------------------------------------------------ per app
def behaviour_tuples(ctx: Ctx, sh: dict[str, Any], n: int) -> Any:
    if n == 0:
        return [()]
    pool = ALL_B
    if sh["shape"] == "chain" and n == 3 and ctx.quick:
        pool = SMALL_B
    if sh["shape"] == "chain_req_all" and ctx.quick:
        pool = SMALL_B
    return itertools.product(pool, repeat=n)


def run_app(ctx: Ctx, sh: dict[str, Any], d: dict[str, bool], only: dict[str, Any] | None = None) -> None:
    import falcon.testing

    auth, n, intrinsic = build_auth(sh, d)
    depends = bool(intrinsic or d["leaf"] or d["param"] or d["flag"])
    app = make_app(auth, d)
    url, body, bh = base()["req"]
    notes: set[Any] = set()
    for behs in behaviour_tuples(ctx, sh, n):
        for vname, vh, fact in variants(sh):
            exp = reference(sh, behs, fact)
            rep = {"sh": sh, "d": d, "behs": list(behs), "var": vname}
            if only is not None and (list(behs) != only["behs"] or vname != only["var"]):
                continue
            hdrs = {**bh, **vh, **{f"X-B{i}": b for i, b in enumerate(behs)}}
            for accept in ACCEPTS:
                h = dict(hdrs)
                if accept is not None:
                    h["Accept"] = accept
                res = falcon.testing.simulate_request(app, method="POST", path=url, body=body, headers=h)
                out = judge(ctx, rep, exp, depends, res.status_code, dict(res.headers), res.content, accept, notes)
                if only is None:
                    nt = (sh["shape"], out, "html" if "text/html" in (accept or "") else "json", depends) if res.status_code in (401, 503) else None
                    ctx.case(
                        sample={"app": rep, "accept": accept, "status": res.status_code, "reason": res.headers.get("vgi-auth-reason"), "body": res.content[:160].decode("utf-8", "replace")} if res.status_code == 401 and ctx.evaluations % 1499 < 6 else None,
                        nontrivial=nt, outcome=(out, (res.headers.get("content-type") or "")[:16], depends),
                    )
            cout = via_client(ctx, rep, app, {**vh, **{f"X-B{i}": b for i, b in enumerate(behs)}}, exp)
            if only is None:
                ctx.case(nontrivial=("client", sh["shape"], cout) if exp[0] != "ok" else None, outcome=("client", cout))
    if len([1 for k, _ in notes if k == "header"]) > 1 or len([1 for k, _ in notes if k == "hint"]) > 1:
        ctx.fail(f"proxy-note-varies:{sh['shape']}", f"shape={sh} decl={d}: the proxy note is not identical on every 401 of the app: {sorted(map(str, notes))[:4]}", {"sh": sh, "d": d, "behs": None, "var": None})
    ctx.extra["apps"] += 1
    ctx.extra["distinct_401_notes_max"] = max(ctx.extra.get("distinct_401_notes_max", 0), len(notes))


# ------------------------------------------------------------------ history independence
H_ACCEPTS = [None, "text/html"]
H_SHAPES = [{"shape": "single"}, {"shape": "chain", "n": 2}, {"shape": "req_all", "mode": "allow", "inner": True}]
H_DECLS = [{"leaf": False, "param": False, "flag": False}, {"leaf": True, "param": False, "flag": False}]


def _snap(res: Any) -> tuple[Any, ...]:
    """Projection of a response onto what the property states (page markup and detail wording are not judged)."""
    hl = {k.lower(): v for k, v in dict(res.headers).items()}
    ctype = (hl.get("content-type") or "").lower().split(";")[0].strip()
    env_reason: Any = None
    env_hint: Any = None
    if ctype == "application/json":
        try:
            env = json.loads(res.content)
        except ValueError:
            env = None
        if isinstance(env, dict):
            env_reason, env_hint = env.get("reason"), env.get("proxy_hint")
        else:
            env_reason = "<unparseable>"
    fields = (
        ("status", res.status_code), ("VGI-Auth-Reason", hl.get("vgi-auth-reason")), ("VGI-Auth-Proxy-Required", hl.get("vgi-auth-proxy-required")),
        ("no-store", "no-store" in (hl.get("cache-control") or "").lower()), ("content-type", ctype), ("envelope.reason", env_reason), ("envelope.proxy_hint", env_hint),
    )
    return (res.status_code, fields, bytes(res.content)[:120])


def history_sequences(ctx: Ctx) -> Any:
    syms = [(b, a) for b in U_B for a in H_ACCEPTS]
    depth = 2 if ctx.quick else 3
    for n in range(2, depth + 1):
        yield from itertools.product(syms, repeat=n)


def run_history(ctx: Ctx, sh: dict[str, Any], d: dict[str, bool], only: list[Any] | None = None) -> None:
    """A 401 is a function of the request alone: after ANY history on one app it equals the fresh app's answer."""
    import falcon.testing

    url, body, bh = base()["req"]
    n_leaves = build_auth(sh, d)[1]

    def send(app: Any, sym: tuple[Any, ...]) -> Any:
        b, accept = sym[0], sym[1]
        h = {**bh, "X-B0": b}
        for i in range(1, n_leaves):
            h[f"X-B{i}"] = "af_missing_credential"
        if len(sym) > 2:
            h["X-D0"] = sym[2]
        if accept is not None:
            h["Accept"] = accept
        return falcon.testing.simulate_request(app, method="POST", path=url, body=body, headers=h)

    def fresh() -> Any:
        return make_app(build_auth(sh, d)[0], d)

    ref: dict[tuple[Any, ...], tuple[Any, ...]] = {}

    def want(sym: tuple[Any, ...]) -> tuple[Any, ...]:
        if sym not in ref:
            ref[sym] = _snap(send(fresh(), sym))
        return ref[sym]

    def play(seq: list[tuple[Any, ...]], label: str) -> None:
        app = fresh()
        for k, sym in enumerate(seq):
            got = _snap(send(app, sym))
            exp = want(sym)
            if only is None:
                ctx.case(
                    sample={"history": [list(x) for x in seq[: k + 1]], "status": got[0], "reason": dict(got[1]).get("VGI-Auth-Reason")} if ctx.evaluations % 1999 == 7 else None,
                    nontrivial=("history", sh["shape"], sym[0], "html" if sym[1] else "json", min(k, 3), label) if got[0] == 401 else None,
                    outcome=("history", got[0], dict(got[1]).get("VGI-Auth-Reason"), sym[1] is not None),
                )
            if got[1] != exp[1]:
                prev = seq[k - 1][0] if k else "-"
                what = next(name for (name, a), (_n, b) in zip(got[1], exp[1], strict=True) if a != b)
                ctx.fail(
                    f"401-depends-on-history:{what}:{'html' if sym[1] else 'json'}:{label}",
                    f"shape={sh} decl={d}: after {[x[0] for x in seq[:k]]} the request {sym[0]} (Accept={sym[1]!r}) is answered differently from a fresh app: "
                    f"{what} differs (previous={prev}); got reason header {dict(got[1]).get('VGI-Auth-Reason')!r}, body {got[2][:100]!r}; fresh app body {exp[2][:100]!r}",
                    {"history": {"sh": sh, "d": d, "seq": [list(x) for x in seq[: k + 1]]}},
                )
                return

    if only is not None:
        play([tuple(x) for x in only], "replay")
        return
    for seq in history_sequences(ctx):
        play(list(seq), "short")
    # cache overflow: 70 distinct detail texts (the serializer's body cache is bounded), then every symbol again twice
    fill = [("u_ve", a, f"detail #{j}") for j in range(70) for a in H_ACCEPTS]
    tail = [(b, a) for b in U_B for a in H_ACCEPTS]
    play(fill + tail + list(reversed(tail)) + fill[:6], "overflow")
    ctx.extra["history_apps"] = ctx.extra.get("history_apps", 0) + 1


# ------------------------------------------------------------------ client corpus
def corpus() -> list[tuple[str, bytes, str | None]]:
    """(name, body, reason the envelope validly states or None)."""
    c: list[tuple[str, bytes, str | None]] = []
    for r in CLOSED:
        c.append((f"env_{r}", json.dumps({"error": "unauthorized", "reason": r, "detail": "d"}).encode(), r))
        c.append((f"env_hint_{r}", json.dumps({"error": "unauthorized", "reason": r, "detail": "", "proxy_hint": "check the proxy", "future_field": [1, {"a": None}]}).encode(), r))
    extra: list[tuple[str, Any]] = [
        ("unknown_reason", {"error": "unauthorized", "reason": "quota_exceeded", "detail": "x"}), ("upper_reason", {"reason": "EXPIRED_CREDENTIAL"}),
        ("padded_reason", {"reason": " expired_credential"}), ("reason_int", {"reason": 7}), ("reason_null", {"reason": None}), ("reason_list", {"reason": ["missing_credential"]}),
        ("reason_dict", {"reason": {"missing_credential": 1}}), ("reason_bool", {"reason": True}), ("no_reason", {"error": "unauthorized", "detail": "x"}), ("empty_obj", {}),
        ("detail_int", {"reason": "invalid_credential", "detail": 5}), ("detail_obj", {"reason": "invalid_credential", "detail": {"a": 1}, "proxy_hint": ["x"]}),
        ("falcon_default", {"title": "401 Unauthorized", "description": "nope"}), ("array", [1, 2]), ("array_of_env", [{"reason": "expired_credential"}]), ("string", "unauthorized"),
        ("number", 401), ("null", None), ("true", True),
    ]
    for name, obj in extra:
        valid = obj.get("reason") if isinstance(obj, dict) and isinstance(obj.get("reason"), str) and obj.get("reason") in CLOSED else None
        c.append((name, json.dumps(obj).encode(), valid))
    raw: list[tuple[str, bytes, str | None]] = [
        ("empty", b"", None), ("spaces", b"  \r\n\t ", None), ("html_doctype", b"<!DOCTYPE html><html><body>401</body></html>", None), ("html_upper", b"  <HTML><BODY>no</BODY></HTML>", None),
        ("html_in_json_ct", b"<html>" + b"x" * 5000, None), ("text", b"Unauthorized", None), ("binary", bytes(range(256)) * 4, None), ("arrow_magic", b"\xff\xff\xff\xff\x10\x00\x00\x00" + b"\x00" * 64, None),
        ("bad_utf8", b"\xff\xfe\xfd{", None), ("bom_json", b"\xef\xbb\xbf" + b'{"reason":"expired_credential"}', None), ("utf16_json", '{"reason":"expired_credential"}'.encode("utf-16"), None),
        ("nan", b'{"reason": NaN, "detail": Infinity}', None), ("dup_keys", b'{"reason":"bogus","reason":"expired_credential"}', "expired_credential"), ("trailing", b'{"reason":"expired_credential"} trailing', None),
        ("big_text_1mb", b"a" * (1 << 20), None), ("big_json_1mb", b'{"reason":"insufficient_scope","detail":"' + b"d" * (1 << 20) + b'"}', "insufficient_scope"), ("huge_int", b"9" * 10000, None),
        ("nul", b"\x00" * 100, None), ("single_brace", b"{", None),
    ]
    c.extend(raw)
    for depth in (10, 100, 1000, 10_000, 100_000):
        c.append((f"nest_list_closed_{depth}", b"[" * depth + b"]" * depth, None))
        c.append((f"nest_list_open_{depth}", b"[" * depth, None))
        c.append((f"nest_obj_closed_{depth}", b'{"a":' * depth + b"1" + b"}" * depth, None))
        c.append((f"nest_obj_open_{depth}", b'{"reason":' * depth, None))
        # a parser that gives up on pathological nesting may degrade to "unauthorized": only the closed set is required
        c.append((f"nest_in_env_{depth}", b'{"reason":"expired_credential","detail":' + b"[" * depth + b"]" * depth + b"}", "expired_credential" if depth <= 100 else None))
    return c


def corpus_class(name: str) -> str:
    if name.startswith("nest_"):
        return "deep-json"
    return name


def run_corpus_item(ctx: Ctx, name: str, body: bytes, valid: str | None, count: bool = True) -> None:
    from vgi_rpc.http import http_connect
    from vgi_rpc.http._client import _parse_unauthorized
    from vgi_rpc.http._testing import _SyncTestResponse
    from vgi_rpc.http._unauthorized import AuthenticationError

    rep = {"corpus": name}

    def check(via: str, fn: Any) -> str:
        try:
            e = fn()
        except AuthenticationError as ex:  # raised by the client path
            e = ex
        except BaseException as ex:  # noqa: BLE001 - RecursionError, MemoryError ... all count
            ctx.fail(f"client-parse-raises:{type(ex).__name__}:{corpus_class(name)}", f"[{via}] 401 body {name!r} ({len(body)} bytes) made the client raise {type(ex).__name__}: {str(ex)[:120]} instead of an AuthenticationError", rep)
            return "raised:" + type(ex).__name__
        if not isinstance(e, AuthenticationError):
            ctx.fail(f"client-parse-not-authentication-error:{corpus_class(name)}", f"[{via}] body {name!r}: got {type(e).__name__}", rep)
            return "other"
        r = getattr(e.reason, "value", e.reason)
        if r not in CLOSED:
            ctx.fail(f"client-reason-outside-closed-set:{corpus_class(name)}", f"[{via}] body {name!r}: reason {r!r}", rep)
        elif valid is not None and r != valid:
            ctx.fail(f"client-ignores-envelope-reason:{corpus_class(name)}", f"[{via}] body {name!r}: envelope states {valid!r}, client reports {r!r}", rep)
        return "auth:" + str(r)

    o1 = check("parse", lambda: _parse_unauthorized(body))

    class Stub:
        prefix = ""

        def post(self, url: str, **kw: Any) -> Any:
            return _SyncTestResponse(401, body, headers={"content-type": "application/json"})

        def options(self, url: str, **kw: Any) -> Any:
            return _SyncTestResponse(401, body, headers={"content-type": "application/json"})

        get = options

        def close(self) -> None:
            pass

    def through_client() -> Any:
        with http_connect(PingSvc, client=Stub()) as px:
            px.ping()
        raise HarnessError("stub 401 produced a successful call")

    o2 = check("client", through_client)
    if count:
        ctx.case(sample={"corpus": name, "len": len(body), "parse": o1} if name in ("env_hint_proxy_required", "html_doctype", "nest_list_open_100000") else None, nontrivial=("corpus", corpus_class(name), o1), outcome=("corpus", o1))
        ctx.case(nontrivial=("corpus-client", corpus_class(name), o2), outcome=("corpus-client", o2))


# ------------------------------------------------------------------ entry points
def _init(ctx: Ctx) -> None:
    import logging
    import warnings

    logging.getLogger("vgi_rpc").setLevel(logging.CRITICAL)
    logging.getLogger("vgi_rpc.http").setLevel(logging.CRITICAL)
    warnings.simplefilter("ignore")
    ctx.extra.update({"apps": 0, "corpus_bodies": 0})


def run(ctx: Ctx) -> None:
    _init(ctx)
    # biggest apps first so that shards balance
    items = [(sh, d) for sh in shapes(ctx) for d in decls(ctx)]
    items.sort(key=lambda it: -(len(ALL_B) ** max(1, {"chain": it[0].get("n", 1), "chain_req_all": 2}.get(it[0]["shape"], 1))))
    for sh, d in items:
        if not ctx.mine():
            continue
        run_app(ctx, sh, d)
    for sh in H_SHAPES:
        for d in H_DECLS:
            if not ctx.mine():
                continue
            run_history(ctx, sh, d)
    for name, body, valid in corpus():
        if not ctx.mine():
            continue
        run_corpus_item(ctx, name, body, valid)
        ctx.extra["corpus_bodies"] += 1


def replay(ctx: Ctx, case: dict[str, Any]) -> None:
    _init(ctx)
    if "corpus" in case:
        for name, body, valid in corpus():
            if name == case["corpus"]:
                run_corpus_item(ctx, name, body, valid, count=False)
        return
    if "history" in case:
        h = case["history"]
        run_history(ctx, h["sh"], h["d"], only=h["seq"])
        return
    run_app(ctx, case["sh"], case["d"], only=case if case.get("behs") is not None else None)

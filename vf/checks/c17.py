"""C17 — Request size caps and content decoding are enforced (E1: exhaustive request enumeration).

Seam: the real WSGI app from ``make_wsgi_app`` (real ``_MaxRequestBytesMiddleware`` + ``_CompressionMiddleware`` wired
by the real factory, real resources), driven through a hand-built PEP-3333 environ so that the *gateway behaviour* is
part of the enumerated space: CONTENT_LENGTH honest / absent (de-chunked request, ``wsgi.input_terminated``) /
smaller / larger than the body.  "Bytes handed to the RPC layer" are observed at ``_get_request_stream`` (the single
function every resource calls to obtain the request body); allocation is observed with ``tracemalloc`` around the
request.

Reference model (``model()``; written from the statement and docs/WIRE_PROTOCOL.md "Content-encoding negotiation",
using only zstandard/zlib as decoders):
    wire length > cap or decoded length > cap                       -> 413
    coding token not one of zstd/gzip (or zstd disabled)            -> 415      (``identity``: 415 *or* pass-through)
    body is not a well-formed stream of the named coding            -> 400
    otherwise the RPC layer gets exactly the uncompressed request (and a valid request is answered 200 with its result)
When several refusals apply (e.g. over the wire cap *and* unknown coding) any of them is accepted.

Weakest-reading decisions (accepted, not reported):
  * an undecodable body must end in status 400; whether the 400 is produced by the decoder or by the RPC layer
    choking on a partial decode is not distinguished.  What is reported is an undecodable body that is *answered 2xx*;
  * a lying zstd frame (declared size != actual) is "undecodable": 400, or 413 when declared/actual exceed the cap;
  * complete frame(s) followed by bytes that are not a frame ("trailing garbage"): 400 or pass-through of the frames;
  * a well-formed multi-frame zstd / multi-member gzip body (legal per RFC 8878 / RFC 1952) may be declined with
    400/415, but if it is accepted the RPC layer must get the concatenation, not the first frame only;
  * CONTENT_LENGTH larger than the bytes available: the available bytes are the request; a 413 on the declared length
    is fine;
  * no 5xx is ever acceptable, and every request must be answered: the decoder functions run under a deterministic
    step budget (400k source lines of ``_codec`` decoder code per request, ~100x the largest legitimate case) so a
    decoder loop that never terminates is reported (``<codec>:decode-never-terminates``) instead of hanging the check.
Allocation bound for refused-by-decoded-size cases: peak traced allocation during the request
<= 3*len(wire body) + 3*cap + 384 KiB (cap + one 64 KiB chunk, generously doubled for copies/joins).
"""

from __future__ import annotations

import contextvars
import json
import tracemalloc
import zlib
from typing import Any

from vf.core.runner import Ctx
from vf.kit import c17_wsgi as K

PROPERTY = "C17"
LEVEL = "exploration"
ENGINE = "E1-SEQ"
SHARDS = {"quick": 8, "thorough": 16}
RULE = (
    "payloads {valid unary request with compressible pad, valid unary request with noisy pad, 2 KiB raw noise, 4 MiB zero bomb; "
    "thorough: + valid 200 KiB request, valid stream-init request, 16 MiB bomb} x frames {plain; zstd one-shot (levels 1/19), "
    "size-less, multi-block, checksummed, lying-small/lying-large/honest rewritten content size, truncated by 1/2/3/4/8/half, "
    "header only, garbage, empty, two frames, frame+garbage; gzip levels 0/1/6/9, FEXTRA-padded, FNAME, sync/full flush, "
    "truncated by 1/4/8/half, bad CRC, bad ISIZE, garbage, empty, two members, member+garbage, member+zeros; cross-labelled} "
    "x caps {None, 2^31, E-1, E, E+1, D-1, D, D+1 (+4 KiB, 64 KiB, 1 MiB for bombs)} where E/D are the encoded/decoded "
    "sizes x gateway {CONTENT_LENGTH honest, absent, E-1, E//2, E+1, E+100} x server config {default, zstd disabled, "
    "response compression off}; plus every coding token of the token alphabet x {plain, zstd, gzip} body x caps. "
    "One evaluation = one request judged against the model; non-trivial class = (coding, expected outcome, gateway)"
)
TECHNIQUE = "exhaustive enumeration of (payload, frame shape, cap relation, gateway behaviour, token, config) against a reference model with independent decoders; tracemalloc peak bound"
LEVEL_TEXT = (
    "Every combination of the stated finite grammar is sent through the real WSGI app and compared with the model "
    "(status, bytes handed to the RPC layer, peak allocation). Exploration level: stateless request->response function."
)
LEVEL_NOTE = (
    "Allocation is what tracemalloc sees (Python-level buffers incl. decoder output), not RSS. De-chunking is the WSGI "
    "gateway's job, so chunked requests are represented by the gateway behaviours listed in RULE. Payload sizes are "
    "bounded (<= 16 MiB decoded)."
)
ASSUMPTIONS = [
    "zstandard/zlib reference decoders are correct",
    "the RPC layer obtains the request body only through vgi_rpc.http.server._resources._get_request_stream",
    "tracemalloc accounts the decoder output buffers (PyBytes allocations)",
]

BIG = 2**31
HDR = {"Content-Type": K.ARROW_CT, "X-Request-ID": "c17"}
TOKENS_BAD = ["br", "deflate", "x-gzip", "compress", "zstd, gzip", "gzip, zstd", "zstd;q=1", "*", "none", "gzip2", "zst"]
TOKENS_IDENTITY = ["identity", "IDENTITY", " identity "]


# ------------------------------------------------------------------------------------------------
# payloads


def noise(n: int, seed: int = 0x2545F491) -> bytes:
    out = bytearray(n)
    x = seed
    for i in range(n):
        x = (x * 1103515245 + 12345) & 0x7FFFFFFF
        out[i] = (x >> 16) & 0xFF
    return bytes(out)


_APPS: dict[Any, Any] = {}
_PAYLOADS: dict[str, dict[str, Any]] = {}


def build_app(cap: int | None, cfg: str) -> Any:
    key = (cap, cfg)
    app = _APPS.get(key)
    if app is None:
        from vgi_rpc.http import make_wsgi_app
        from vgi_rpc.rpc import RpcServer

        from vf.kit import prog

        if len(_APPS) > 64:
            _APPS.clear()
        with K.environ(VGI_HTTP_DISABLE_ZSTD="1" if cfg == "nozstd" else None):
            app = make_wsgi_app(
                RpcServer(prog.ScriptSvc, prog.ScriptImpl()),
                token_key=K.TOKEN_KEY,
                max_request_bytes=cap,
                compression_level=None if cfg == "noresp" else 1,
                enable_landing_page=False,
                enable_describe_page=False,
                enable_not_found_page=False,
            )
        _APPS[key] = app
    return app


def capture_request(kind: str, pad: str) -> tuple[str, bytes]:
    """The exact bytes the real client sends (uncompressed) for a call whose script carries *pad*."""
    from vgi_rpc.http import http_connect

    from vf.kit import prog

    rc = K.RecordingClient(build_app(None, "default"))
    with http_connect(prog.ScriptSvc, client=rc, compression_level=None) as proxy:
        if kind == "unary":
            assert proxy.unary(script=json.dumps({"acts": [], "pad": pad}), x=7) == 7
        else:
            s = proxy.produce(script=json.dumps({"steps": [[["emit", 2, None]], [["finish"]]], "pad": pad}))
            assert [b.batch.num_rows for b in s] == [2]
    path, content, headers, _ = rc.posts[0]
    assert "Content-Encoding" not in headers
    return path, content


def payload(name: str) -> dict[str, Any]:
    p = _PAYLOADS.get(name)
    if p is not None:
        return p
    if name == "req-x":
        path, u = capture_request("unary", "x" * 300)
        p = {"path": path, "u": u, "valid": "unary"}
    elif name == "req-noise":
        path, u = capture_request("unary", noise(3000).hex()[:3000])
        p = {"path": path, "u": u, "valid": "unary"}
    elif name == "req-big":
        path, u = capture_request("unary", ("abcdefgh" * 64 + noise(256).hex()) * 200)
        p = {"path": path, "u": u, "valid": "unary"}
    elif name == "req-init":
        path, u = capture_request("init", "y" * 500)
        p = {"path": path, "u": u, "valid": "init"}
    elif name == "noise-2k":
        p = {"path": "/unary", "u": noise(2048), "valid": None}
    elif name.startswith("zeros-"):
        p = {"path": "/unary", "u": bytes(int(name[6:]) << 20), "valid": None}
    else:
        raise ValueError(name)
    _PAYLOADS[name] = p
    return p


def payload_names(ctx: Ctx) -> list[str]:
    if ctx.quick:
        return ["req-x", "req-noise", "noise-2k", "zeros-4"]
    return ["req-x", "req-noise", "noise-2k", "zeros-4", "req-big", "req-init", "zeros-16"]


# ------------------------------------------------------------------------------------------------
# frames: name -> (token, wire bytes)


def frame_names(pname: str, quick: bool) -> list[str]:
    bomb = pname.startswith("zeros-")
    names = ["plain", "plain-emptyhdr"]
    z = ["zstd-l1", "zstd-l19", "zstd-sizeless", "zstd-blocks", "zstd-checksum", "zstd-honest-rewrite",
         "zstd-lie-minus1", "zstd-lie-half", "zstd-lie-zero", "zstd-lie-plus1", "zstd-lie-double", "zstd-lie-2^40"]
    g = ["gzip-l0", "gzip-l1", "gzip-l6", "gzip-l9", "gzip-extra", "gzip-fname", "gzip-sync", "gzip-full"]
    bad = ["zstd-cut1", "zstd-cut2", "zstd-cut3", "zstd-cut4", "zstd-cut8", "zstd-half", "zstd-hdronly",
           "zstd-sizeless-cut1", "zstd-sizeless-cut2", "zstd-sizeless-cut3", "zstd-sizeless-cut4", "zstd-sizeless-cut8", "zstd-sizeless-half",
           "zstd-garbage", "zstd-empty", "zstd-2frames", "zstd-2sizeless", "zstd-mixed2", "zstd-frame+garbage",
           "gzip-cut1", "gzip-cut4", "gzip-cut8", "gzip-cut9", "gzip-half", "gzip-badcrc", "gzip-badisize", "gzip-garbage", "gzip-empty",
           "gzip-2members", "gzip-member+garbage", "gzip-member+zeros", "gzip-as-zstd", "zstd-as-gzip", "plain-as-zstd", "plain-as-gzip"]
    if bomb:
        # bombs: the shapes that decide the decoded cap / allocation bound
        bad = ["zstd-cut1", "zstd-sizeless-cut1", "zstd-2frames", "zstd-2sizeless", "gzip-cut8", "gzip-2members"]
        g = ["gzip-l1", "gzip-l9", "gzip-extra", "gzip-sync"]
        names = []
    return names + z + g + bad


_FRAMES: dict[tuple[str, str], tuple[str | None, bytes]] = {}
_REFS: dict[Any, Any] = {}


def make_frame(pname: str, fname: str) -> tuple[str | None, bytes]:
    key = (pname, fname)
    if key not in _FRAMES:
        if len(_FRAMES) >= 4:
            _FRAMES.clear()
            _REFS.clear()
        _FRAMES[key] = _make_frame(pname, fname)
    return _FRAMES[key]


def _make_frame(pname: str, fname: str) -> tuple[str | None, bytes]:
    u = payload(pname)["u"]
    n = len(u)
    h1, h2 = u[: n // 2], u[n // 2 :]
    if fname == "plain":
        return None, u
    if fname == "plain-emptyhdr":
        return "", u
    if fname == "plain-as-zstd":
        return "zstd", u
    if fname == "plain-as-gzip":
        return "gzip", u
    if fname == "gzip-as-zstd":
        return "zstd", K.gzip_member(u)
    if fname == "zstd-as-gzip":
        return "gzip", K.zstd_oneshot(u)
    if fname.startswith("zstd-"):
        k = fname[5:]
        sl = K.zstd_sizeless(u)
        one = K.zstd_oneshot(u)
        table = {
            "l1": lambda: K.zstd_oneshot(u, 1),
            "l19": lambda: K.zstd_oneshot(u, 19),
            "sizeless": lambda: sl,
            "blocks": lambda: K.zstd_sizeless(u, 3, blocks=3),
            "checksum": lambda: K.zstd_oneshot(u, 3, write_checksum=True),
            "honest-rewrite": lambda: K.zstd_with_declared(sl, n),
            "lie-minus1": lambda: K.zstd_with_declared(sl, max(n - 1, 0)),
            "lie-half": lambda: K.zstd_with_declared(sl, n // 2),
            "lie-zero": lambda: K.zstd_with_declared(sl, 0),
            "lie-plus1": lambda: K.zstd_with_declared(sl, n + 1),
            "lie-double": lambda: K.zstd_with_declared(sl, 2 * n),
            "lie-2^40": lambda: K.zstd_with_declared(sl, 2**40),
            "half": lambda: one[: len(one) // 2],
            "hdronly": lambda: one[:5],
            "sizeless-half": lambda: sl[: len(sl) // 2],
            "garbage": lambda: b"this is not a zstd frame at all.",
            "empty": lambda: b"",
            "2frames": lambda: K.zstd_oneshot(h1) + K.zstd_oneshot(h2),
            "2sizeless": lambda: K.zstd_sizeless(h1) + K.zstd_sizeless(h2),
            "mixed2": lambda: K.zstd_oneshot(h1) + K.zstd_sizeless(h2),
            "frame+garbage": lambda: one + b"garbage!",
        }
        if k.startswith("cut"):
            return "zstd", one[: -int(k[3:])]
        if k.startswith("sizeless-cut"):
            return "zstd", sl[: -int(k[12:])]
        return "zstd", table[k]()
    if fname.startswith("gzip-"):
        k = fname[5:]
        m = K.gzip_member(u)
        table = {
            "l0": lambda: K.gzip_member(u, 0),
            "l1": lambda: K.gzip_member(u, 1),
            "l6": lambda: m,
            "l9": lambda: K.gzip_member(u, 9),
            "extra": lambda: K.gzip_member(u, 6, extra=777),
            "fname": lambda: K.gzip_member(u, 6, name=True),
            "sync": lambda: K.gzip_member(u, 6, flush=zlib.Z_SYNC_FLUSH),
            "full": lambda: K.gzip_member(u, 6, flush=zlib.Z_FULL_FLUSH),
            "half": lambda: m[: len(m) // 2],
            "badcrc": lambda: m[:-8] + bytes([m[-8] ^ 1]) + m[-7:],
            "badisize": lambda: m[:-4] + bytes([m[-4] ^ 1]) + m[-3:],
            "garbage": lambda: b"this is not a gzip member at all",
            "empty": lambda: b"",
            "2members": lambda: K.gzip_member(h1) + K.gzip_member(h2),
            "member+garbage": lambda: m + b"garbage!",
            "member+zeros": lambda: m + bytes(16),
        }
        if k.startswith("cut"):
            return "gzip", m[: -int(k[3:])]
        return "gzip", table[k]()
    raise ValueError(fname)


# ------------------------------------------------------------------------------------------------
# reference model


def model(w: bytes, cl: Any, token: str | None, cap: int | None, zstd_on: bool, memo: Any = None) -> dict[str, Any]:
    """What a conforming server may do with this request.

    ``refuse``: acceptable refusal statuses; ``pass``: bytes the RPC layer must get if the request is not refused
    (None = must be refused); ``decline``: extra statuses acceptable *instead of* passing (legal-but-unusual bodies).
    """
    if cl in ("honest", "absent"):
        seen, wire = w, len(w)
    else:
        seen, wire = w[: int(cl)], int(cl)
    refuse: set[int] = set()
    decline: set[int] = set()
    over_wire = cap is not None and (wire > cap or len(seen) > cap)
    if over_wire:
        refuse.add(413)
    tok = (token or "").strip().lower()
    passthru: bytes | None = None
    info: dict[str, Any] = {"codec": (tok or "none") if tok in ("", "zstd", "gzip", "identity") else "other", "shape": "plain",
                            "decoded": None, "declared": None, "full": None}

    def over(n: int | None) -> bool:
        return cap is not None and n is not None and n > cap

    if tok == "":
        passthru = seen
    elif tok == "identity":
        refuse.add(415)
        passthru = seen
        info["shape"] = "identity"
    elif tok not in ("zstd", "gzip") or (tok == "zstd" and not zstd_on):
        refuse.add(415)
        info["shape"] = "unsupported"
    else:
        mk = (memo, tok, len(seen))
        ref = _REFS.get(mk) if memo is not None else None
        if ref is None:
            ref = K.ref_decode(tok, seen)
            if memo is not None:
                _REFS[mk] = ref
        declared = K.zstd_declared_size(seen) if tok == "zstd" else None
        info["declared"] = declared
        info["decoded"] = len(ref.data)
        lying = ref.ok and ref.frames == 1 and declared is not None and declared != len(ref.data)
        if ref.ok and not lying:
            if ref.frames == 1:
                info["shape"] = "ok"
                if over(len(ref.data)):
                    refuse.add(413)
                else:
                    passthru = ref.data
            else:
                # legal multi-frame / multi-member body: pass the concatenation, or decline it
                info["shape"] = "multi-frame"
                info["full"] = ref.data
                decline |= {400, 415}
                if over(len(ref.data)):
                    refuse.add(413)
                else:
                    passthru = ref.data
        elif lying:
            # declared content size disagrees with the content: corrupt -> 400; 413 if either size is over the cap;
            # a lenient decoder that yields the real content is tolerated when that content fits the cap
            info["shape"] = "undecodable:size-mismatch"
            refuse.add(400)
            if over(declared) or over(len(ref.data)):
                refuse.add(413)
            if ref.ok and not over(len(ref.data)):
                passthru = ref.data
        else:
            refuse.add(400)
            info["shape"] = "undecodable:" + ref.why.split(":")[0]
            if over(len(ref.data)) or over(declared):
                refuse.add(413)
            if tok == "zstd" and cap is not None and _zstd_declared_sum(seen) > cap:
                # two faults at once: a later frame is cut short AND the frames' declared sizes together exceed
                # the decoded cap; a decoder that refuses on the frame headers answers 413 before it can notice
                # the truncation.  The statement fixes no precedence, so both statuses are admissible.
                refuse.add(413)
            if ref.frames >= 1 and ref.why.startswith("error"):
                # complete frame(s) then non-frame bytes: lenient pass-through of the frames is tolerated
                info["shape"] = "trailing-garbage"
                if not over(len(ref.data)):
                    passthru = ref.data
    if over_wire:
        passthru = None
        decline = set()
    return {"refuse": refuse, "pass": passthru, "decline": decline, "info": info, "seen": seen, "over_wire": over_wire}


def _zstd_declared_sum(body: bytes) -> int:
    """Sum of the declared content sizes of the zstd frame headers that can be walked in *body*."""
    import zstandard

    total = 0
    rest = body
    for _ in range(16):
        if not rest:
            break
        try:
            size = zstandard.get_frame_parameters(rest).content_size
        except Exception:
            break
        if size not in (-1, 2**64 - 1):
            total += int(size)
        try:
            d = zstandard.ZstdDecompressor().decompressobj()
            d.decompress(rest)
            if not d.eof:
                break
            rest = d.unused_data
        except Exception:
            break
    return total


def result_ok(valid: str, body: bytes) -> bool:
    """The plain (no Accept-Encoding sent) response of a valid request carries the expected result."""
    import pyarrow as pa
    from pyarrow import ipc

    try:
        batches = list(ipc.open_stream(pa.BufferReader(body)))
    except Exception:  # noqa: BLE001
        return False
    if valid == "unary":
        return any(b.num_rows == 1 and b.num_columns == 1 and b.column(0).to_pylist() == [7] for b in batches)
    return any(b.num_rows == 2 for b in batches)


def judge(ctx: Ctx, case: dict[str, Any], sample: bool = False) -> None:
    pname, fname, cap, cfg, cl = case["payload"], case["frame"], case["cap"], case["cfg"], case["cl"]
    p = payload(pname)
    if "token" in case and fname in ("plain", "zstd-l1", "gzip-l6"):
        _, w = make_frame(pname, fname)
        token = case["token"]
    else:
        token, w = make_frame(pname, fname)
    clv: Any = cl
    if isinstance(cl, str) and cl not in ("honest", "absent"):
        clv = {"E-1": len(w) - 1, "E//2": len(w) // 2, "E+1": len(w) + 1, "E+100": len(w) + 100}[cl]
        if clv < 0:
            return
    m = model(w, clv, token, cap, zstd_on=(cfg != "nozstd"), memo=(pname, fname))
    info = m["info"]
    app = build_app(cap, cfg)
    headers = dict(HDR)
    if token is not None:
        headers["Content-Encoding"] = token
    measure = cap is not None and info["codec"] in ("zstd", "gzip") and (
        (info["decoded"] or 0) > cap or (info["declared"] or 0) > cap
    )
    del K.SEEN[:]
    peak = 0
    if measure:
        tracemalloc.start(1)
        base = tracemalloc.get_traced_memory()[0]
        tracemalloc.reset_peak()
    hang: str | None = None
    r = K.Resp(0, [], b"")
    try:
        with K.step_budget(5000 + 32 * (((info["decoded"] or 0) + len(w)) // 65536)):
            # a fresh context per request: a request aborted by the watchdog must not leak contextvars into the next
            r = contextvars.copy_context().run(K.wsgi_call, app, "POST", p["path"], headers, w, clv)
    except K.NeverTerminates as exc:
        hang = str(exc)
        _APPS.pop((cap, cfg), None)
    finally:
        if measure:
            peak = tracemalloc.get_traced_memory()[1] - base
            tracemalloc.stop()
    if hang is not None:
        info_h = m["info"]
        ctx.fail(f"{info_h['codec']}:decode-never-terminates",
                 f"the request was never answered: {hang}; payload={pname}({len(p['u'])}B) frame={fname}({len(w)}B) "
                 f"token={token!r} cap={cap} cfg={cfg} content_length={cl} (model: {info_h['shape']})", case)
        ctx.extra["hangs"] += 1
        ctx.case(nontrivial=f"{info_h['codec'][:2]}hang", outcome=f"{info_h['codec'][:2]}hang")
        return
    seam = list(K.SEEN)
    st = r.status
    desc = (f"payload={pname}({len(p['u'])}B) frame={fname}({len(w)}B) token={token!r} cap={cap} cfg={cfg} "
            f"content_length={cl} -> status {st}{' +X-VGI-RPC-Error' if r.get('x-vgi-rpc-error') else ''}, rpc-layer got "
            f"{[len(s) for s in seam]} bytes, read {r.nread} from wsgi.input (model: {info['shape']}, decoded {info['decoded']}, declared {info['declared']})")
    codec = info["codec"]
    shape0 = info["shape"].split(":")[0]
    reason = info["shape"].split(":")[-1]
    refuse, passthru, decline = m["refuse"], m["pass"], m["decline"]
    outcome = f"{st}/{'-' if not seam else ('=' if passthru is not None and seam == [passthru] else '!')}"

    def fail(kind: str, why: str) -> None:
        if cl == "absent" and len(w) > 0 and r.nread == 0:
            # one root cause for every shape: the body of a request without CONTENT_LENGTH is never read
            ctx.fail("no-content-length:body-never-read", f"{why}; {desc}", case)
        else:
            ctx.fail(kind, f"{why}; {desc}", case)

    full = info["full"]
    passed_exact = passthru is not None and seam == [passthru] and st not in (413, 415)
    refused_ok = st in refuse and (not seam or st == 400)
    declined_ok = st in decline and not seam
    if st >= 500:
        fail(f"{codec}:{shape0}:5xx", "server error")
    elif full is not None and seam and seam[0] != full and full.startswith(seam[0]):
        fail(f"{codec}:multi-frame:first-frame-only",
             f"a well-formed multi-frame {codec} body ({len(full)} decoded bytes) was accepted but the RPC layer got only a prefix of the concatenation")
    elif passed_exact:
        if not refuse and p["valid"] and passthru == p["u"] and not (st == 200 and r.get("x-vgi-rpc-error") is None and result_ok(p["valid"], r.body)):
            fail(f"{codec}:{shape0}:valid-request-not-answered", "the RPC layer got the exact request but the call was not answered 200 with its result")
    elif refused_ok or declined_ok:
        pass
    elif passthru is not None and not refuse:
        if not seam:
            fail(f"{codec}:{shape0}:refused-{st}", f"a body that must be passed through ({len(passthru)} bytes) was refused with {st}")
        else:
            fail(f"{codec}:{shape0}:wrong-bytes", f"the RPC layer did not get the client's uncompressed request ({len(passthru)} bytes)")
    elif 400 in refuse and 200 <= st < 300:
        fail(f"{codec}:undecodable-accepted:{reason}", f"an undecodable {codec} body ({reason}) was answered {st} instead of 400")
    elif 413 in refuse and st != 413:
        fail(f"{codec}:{'wire' if m['over_wire'] else 'decoded'}-cap-not-enforced:{shape0}", f"expected {sorted(refuse)}")
    elif seam and st in (413, 415):
        fail(f"{codec}:{shape0}:refused-but-dispatched", f"status {st} but the RPC layer was handed a body")
    else:
        fail(f"{codec}:{shape0}:status-{st}", f"expected {sorted(refuse | decline)}" + (f" or exact pass-through of {len(passthru)} bytes" if passthru is not None else ""))
    if measure:
        bound = 3 * len(w) + 3 * cap + 384 * 1024
        ctx.extra["alloc_measured"] += 1
        ctx.extra["max_peak_over_cap_kib"] = max(ctx.extra["max_peak_over_cap_kib"], max(0, peak - cap) // 1024)
        if peak > bound:
            fail(f"{codec}:allocation:{shape0}", f"peak traced allocation {peak} bytes > bound {bound} (cap {cap}, wire {len(w)}, decoded {info['decoded']}, declared {info['declared']})")
    want = "pass" if passthru is not None and not refuse else ("either" if passthru is not None else "/".join(str(s) for s in sorted(refuse)))
    gw = "" if cl == "honest" else f":cl-{cl}"
    ctx.case(
        sample=dict(case, status=st, expected=want, rpc_bytes=[len(s) for s in seam]) if sample else None,
        nontrivial=f"{codec[:2]}{want[:7]}{gw[:6]}",
        outcome=f"{codec[:2]}{outcome}{gw[:6]}"[:16],
    )


# ------------------------------------------------------------------------------------------------
# enumeration


def caps_for(pname: str, e: int, d: int) -> list[int | None]:
    caps: list[int | None] = [None, BIG, e - 1, e, e + 1, d - 1, d, d + 1]
    if pname.startswith("zeros-"):
        caps += [4096, 65536, 1 << 20]
    out: list[int | None] = []
    for c in caps:
        if c is not None and c < 0:
            continue
        if c not in out:
            out.append(c)
    return out


def items(ctx: Ctx) -> list[dict[str, Any]]:
    """Top-level enumeration items (one per (payload, frame) or (token, body))."""
    out: list[dict[str, Any]] = []
    for pname in payload_names(ctx):
        for fname in frame_names(pname, ctx.quick):
            out.append({"part": "frames", "payload": pname, "frame": fname})
    toks = TOKENS_BAD + TOKENS_IDENTITY + ["ZSTD", " zstd ", "Zstd", "GZIP", "gzip ", "\tgzip"]
    for tok in toks:
        for body in ("plain", "zstd-l1", "gzip-l6"):
            out.append({"part": "tokens", "payload": "req-x", "frame": body, "token": tok})
    return out


def run_item(ctx: Ctx, it: dict[str, Any]) -> None:
    pname, fname = it["payload"], it["frame"]
    _, w = make_frame(pname, fname)
    e, d = len(w), len(payload(pname)["u"])
    bomb = pname.startswith("zeros-")
    if it["part"] == "tokens":
        for cap in [None, BIG, e - 1, e, d - 1, d]:
            for cfg in ("default", "nozstd", "noresp"):
                for cl in ("honest",) if ctx.quick else ("honest", "absent", "E-1"):
                    judge(ctx, {"payload": pname, "frame": fname, "token": it["token"], "cap": cap, "cfg": cfg, "cl": cl},
                          sample=(cap == BIG and cfg == "default" and it["token"] in ("br", "identity") and fname == "plain"))
        return
    for cap in caps_for(pname, e, d):
        if ctx.quick:
            cfgs = ("default", "nozstd") if not bomb else ("default",)
        elif pname == "zeros-16":
            cfgs = ("default",)
        else:
            cfgs = ("default", "nozstd", "noresp")
        for cfg in cfgs:
            if ctx.quick and (bomb or cfg != "default"):
                cls: tuple[str, ...] = ("honest",)
            elif ctx.quick:
                cls = ("honest", "absent", "E-1", "E+1") if cap in (None, BIG, e - 1, e, d) else ("honest",)
            else:
                cls = ("honest", "absent", "E-1", "E//2", "E+1", "E+100") if not bomb else (("honest", "absent", "E+1") if pname == "zeros-4" else ("honest", "E+1"))
            for cl in cls:
                judge(ctx, {"payload": pname, "frame": fname, "cap": cap, "cfg": cfg, "cl": cl},
                      sample=(cfg == "default" and cl == "honest" and cap in (d, d - 1) and fname in ("zstd-sizeless", "gzip-l6") and pname == "req-x"))


def run(ctx: Ctx) -> None:
    K.install_seam()
    ctx.extra.update({"alloc_measured": 0, "max_peak_over_cap_kib": 0, "items": 0, "hangs": 0})
    its = items(ctx)
    # bombs first: they are the expensive items, spread them over the shards
    its.sort(key=lambda it: (0 if it["payload"].startswith("zeros-") else 1))
    for it in its:
        if not ctx.mine():
            continue
        ctx.extra["items"] += 1
        run_item(ctx, it)


def replay(ctx: Ctx, case: dict[str, Any]) -> None:
    K.install_seam()
    ctx.extra.update({"alloc_measured": 0, "max_peak_over_cap_kib": 0, "items": 0, "hangs": 0})
    judge(ctx, case)

"""C24 — Precondition gates compose with AND semantics (E1: exhaustive enumeration of a finite input grammar).

Every case builds a REAL ``proxy_proof_gate`` (injected clock, replay cache on or off), composes it with the REAL
``require_all`` and an inner authenticator of a stated kind, and sends a 1- or 2-request sequence carrying
proof headers that are minted by this file's own HMAC code (so "the proof is valid" is known *by
construction*, not by asking ``verify_proof``).  Each sequence is executed at two seams:

  direct : ``require_all(gate, inner)(falcon_request)``                      -> AuthContext / exception
  http   : ``make_wsgi_app(authenticate=require_all(...))`` + the real client -> the AuthContext the method
           body observes through ``ctx.auth`` (returned by the method), or the 401/503 the client sees

Reference (from the property statement and docs/proxy-proof-spec.md §7-§9), judged on the LAST request of the
sequence, with V = "the last proof is valid by construction and its nonce was not already accepted":

  R1 require mode, not V       -> refused with an auth rejection; the inner authenticator was NOT invoked
  R2 no inner                  -> ``authenticated`` is true only if V (and, positive control, true when V);
                                  in allow mode without V the request is anonymous: authenticated False and no
                                  principal (the ``domain`` string is not judged — weakest reading)
  R3 inner present, gate passed (V) or allow mode
                               -> the inner authenticator was invoked exactly once and the outcome — accepted
                                  identity (domain, authenticated, principal, claims minus the gate's key) or the
                                  rejection (exception type / HTTP status + reason code) — is identical to what the
                                  SAME request gets from an app whose ``authenticate`` is the inner alone
  R4 the gate's claim says verified == "true" only if V
  R5 ``chain_authenticate`` raises at construction for every chain of length 1..3 with a gate at any
     position (real proof gates of both modes, a hand-built PreconditionGate, a subclass instance); chains of
     ``require_all`` results construct fine (negative control)

A valid proof whose nonce was burnt by an earlier *failed* verification may be accepted or refused (that is
C22/C23 territory); only the "only if" direction is judged there.
"""

from __future__ import annotations

import base64
import hashlib
import hmac
import itertools
import json
from typing import Any, Protocol

from vf.core.runner import Ctx

PROPERTY = "C24"
LEVEL = "exploration"
ENGINE = "E1-SEQ"
SHARDS = {"quick": 4, "thorough": 8}
RULE = (
    "mode{allow,require} x replay-cache{on,off(T)} x inner{none, accepts user, accepts anonymous, accepts with "
    "forged gate claim, ValueError, AuthFailure(missing), PermissionError, AuthUnavailable, static bearer with "
    "good/bad/absent Authorization} x proof sequences (quick: every single proof class + replay/fresh pairs; "
    "thorough: every ordered pair of proof classes x {same,fresh} nonce) x seam{direct call, full HTTP stack}; "
    "plus every chain_authenticate construction of length 1..3 with a gate at any position; non-trivial = the "
    "composed authenticator was actually invoked for the judged request; class = (mode, inner, V, outcome)"
)
TECHNIQUE = "exhaustive enumeration of mode x inner x proof-sequence grammar against the real require_all/proxy_proof_gate, differential against the inner-alone app"
LEVEL_TEXT = (
    "Every combination in the stated finite grammar is executed against the real composition code both directly "
    "and through the real WSGI app + client, and the AuthContext seen by the method body is compared with a "
    "reference derived from the statement and with the gate-less baseline; exploration (not state-graph model "
    "checking) because the only state is the nonce cache, covered by the 2-request sequences."
)
LEVEL_NOTE = (
    "Proof validity is known by construction from an independent HMAC minting routine written from "
    "docs/proxy-proof-spec.md §3-§5; the injected clock is constant; sequences are at most 2 requests."
)
ASSUMPTIONS = [
    "the gate's clock is read only through the injected now= callable",
    "HTTP seam uses falcon.testing.TestClient via make_sync_client (no socket)",
    "sequences longer than 2 requests add no behaviour (the only state is the nonce cache)",
]

T0 = 1_700_000_000
SKEW = 30
ORIGIN = "worker-1"
SEC1 = bytes(range(32))
SEC2 = bytes(range(32, 64))
SECRETS = {"k1": (SEC1, "proxyA"), "k1-v2": (SEC2, "proxyB")}
GATE_KEY = "vgi_proxy_proof"
HDR = "VGI-Proxy-Proof"


# ------------------------------------------------------------------ independent minting (spec §3-§4)
def _b64(raw: bytes) -> str:
    return base64.urlsafe_b64encode(raw).decode("ascii").rstrip("=")


def nonce_of(n: int) -> str:
    return _b64(hashlib.sha256(b"nonce%d" % n).digest()[:16])


def mint(secret: bytes, kid: str, ts: int, nonce: str, origin: str = ORIGIN) -> str:
    msg = b"\x00".join([b"vgi.proxy.proof.v1", kid.encode(), str(ts).encode(), nonce.encode(), origin.encode()])
    return f"v1.{kid}.{ts}.{nonce}.{_b64(hmac.new(secret, msg, hashlib.sha256).digest())}"


def _flip(tok: str) -> str:
    c = tok[-1]
    return tok[:-1] + ("A" if c != "A" else "B")


# name -> (valid_by_construction, builder(nonce) -> header value or None)
PROOFS: dict[str, tuple[bool, Any]] = {
    "valid": (True, lambda n: mint(SEC1, "k1", T0, n)),
    "valid_oldest": (True, lambda n: mint(SEC1, "k1", T0 - SKEW, n)),
    "valid_newest": (True, lambda n: mint(SEC1, "k1", T0 + SKEW, n)),
    "valid_rotated": (True, lambda n: mint(SEC2, "k1-v2", T0, n)),
    "absent": (False, lambda n: None),
    "empty": (False, lambda n: ""),
    "expired": (False, lambda n: mint(SEC1, "k1", T0 - SKEW - 1, n)),
    "future": (False, lambda n: mint(SEC1, "k1", T0 + SKEW + 1, n)),
    "bad_mac": (False, lambda n: _flip(mint(SEC1, "k1", T0, n))),
    "wrong_origin": (False, lambda n: mint(SEC1, "k1", T0, n, origin="worker-2")),
    "unknown_kid": (False, lambda n: mint(SEC1, "k9", T0, n)),
    "kid_secret_mismatch": (False, lambda n: mint(SEC2, "k1", T0, n)),
    "four_fields": (False, lambda n: mint(SEC1, "k1", T0, n).rsplit(".", 1)[0]),
    "version_v2": (False, lambda n: "v2" + mint(SEC1, "k1", T0, n)[2:]),
    "short_nonce": (False, lambda n: mint(SEC1, "k1", T0, n[:-1])),
    "padded_mac": (False, lambda n: mint(SEC1, "k1", T0, n)[:-1] + "="),
    "two_headers": (False, lambda n: mint(SEC1, "k1", T0, n) + ", " + mint(SEC1, "k1", T0, nonce_of(999))),
    "too_long": (False, lambda n: mint(SEC1, "k" * 64, T0, n) + "A" * 400),
    "garbage": (False, lambda n: "not a proof"),
}
PROOF_NAMES = list(PROOFS)

INNERS = [
    "none", "user", "anon", "forged_claim", "value_error", "missing", "permission", "unavailable",
    "bearer_good", "bearer_bad", "bearer_absent",
]


def sequences(ctx: Ctx) -> list[list[list[Any]]]:
    """Each sequence is a list of [proof_name, nonce_index]."""
    seqs: list[list[list[Any]]] = [[[p, 0]] for p in PROOF_NAMES]
    if ctx.quick:
        for p in ("valid", "valid_rotated", "valid_oldest"):
            seqs.append([[p, 0], [p, 0]])  # replay
            seqs.append([[p, 0], [p, 1]])  # fresh nonce after a valid one
        seqs.append([["valid", 0], ["valid_rotated", 0]])  # same nonce, other key
        seqs.append([["bad_mac", 0], ["valid", 0]])  # nonce seen only in a failed attempt
        seqs.append([["absent", 0], ["valid", 0]])
        seqs.append([["valid", 0], ["absent", 0]])
        return seqs
    for a, b in itertools.product(PROOF_NAMES, PROOF_NAMES):
        seqs.append([[a, 0], [b, 0]])
        seqs.append([[a, 0], [b, 1]])
    return seqs


# ------------------------------------------------------------------ the service
class WhoSvc(Protocol):
    """One unary method reporting the AuthContext it was handed."""

    def whoami(self) -> str:
        """Return the auth context as JSON."""
        ...


class WhoImpl:
    def whoami(self, ctx: Any) -> str:
        a = ctx.auth
        return json.dumps(ident_of(a))


def _plain(v: Any) -> Any:
    if hasattr(v, "items"):
        return {str(k): _plain(x) for k, x in v.items()}
    if isinstance(v, (list, tuple)):
        return [_plain(x) for x in v]
    return v


def ident_of(a: Any) -> list[Any]:
    return [a.domain, bool(a.authenticated), a.principal, _plain(a.claims)]


_SERVER: Any = None


def server() -> Any:
    global _SERVER
    if _SERVER is None:
        from vgi_rpc.rpc import RpcServer

        _SERVER = RpcServer(WhoSvc, WhoImpl())
    return _SERVER


# ------------------------------------------------------------------ inner authenticators
def make_inner(kind: str, log: list[str]) -> Any:
    from vgi_rpc.http import bearer_authenticate_static
    from vgi_rpc.http._unauthorized import AuthFailure, AuthReason, AuthUnavailableError
    from vgi_rpc.rpc import AuthContext

    if kind == "none":
        return None
    if kind.startswith("bearer"):
        real = bearer_authenticate_static(tokens={"tok-alice": AuthContext(domain="bearer", authenticated=True, principal="alice", claims={"role": "r"})})

        def bearer(req: Any) -> Any:
            log.append("inner")
            return real(req)

        return bearer

    def inner(req: Any) -> Any:
        log.append("inner")
        if kind == "user":
            return AuthContext(domain="custom", authenticated=True, principal="bob", claims={"role": "w"})
        if kind == "anon":
            return AuthContext.anonymous()
        if kind == "forged_claim":
            return AuthContext(domain="custom", authenticated=True, principal="eve", claims={GATE_KEY: {"verified": "true", "proxy": "evil"}, "x": 1})
        if kind == "value_error":
            raise ValueError("bad credential")
        if kind == "missing":
            raise AuthFailure(AuthReason.MISSING_CREDENTIAL, "nothing presented")
        if kind == "permission":
            raise PermissionError("forbidden")
        if kind == "unavailable":
            raise AuthUnavailableError("idp down", retry_after=7)
        raise AssertionError(kind)

    return inner


def extra_headers(kind: str) -> dict[str, str]:
    if kind == "bearer_good":
        return {"Authorization": "Bearer tok-alice"}
    if kind == "bearer_bad":
        return {"Authorization": "Bearer nope"}
    return {}


def make_gate(mode: str, cache: bool) -> Any:
    from vgi_rpc.http._proof import ProxyProofConfig, proxy_proof_gate

    cfg = ProxyProofConfig(mode=mode, origin_id=ORIGIN, secrets=dict(SECRETS), skew_seconds=SKEW, enable_replay_cache=cache)
    return proxy_proof_gate(cfg, now=lambda: T0)


# ------------------------------------------------------------------ the two seams
class RecClient:
    """Delegating client that remembers the last response."""

    def __init__(self, inner: Any) -> None:
        self._c = inner
        self.last: Any = None
        self.prefix = getattr(inner, "prefix", "")

    def post(self, url: str, **kw: Any) -> Any:
        self.last = self._c.post(url, **kw)
        return self.last

    def get(self, url: str, **kw: Any) -> Any:
        return self._c.get(url, **kw)

    def options(self, url: str, **kw: Any) -> Any:
        return self._c.options(url, **kw)

    def delete(self, url: str, **kw: Any) -> Any:
        return self._c.delete(url, **kw)

    def put(self, url: str, **kw: Any) -> Any:
        return self._c.put(url, **kw)

    def close(self) -> None:
        pass


def counted(fn: Any, log: list[str]) -> Any:
    """Wrap the composed authenticator to count invocations, keeping its declared attributes."""
    import functools

    @functools.wraps(fn)
    def auth(req: Any) -> Any:
        log.append("auth")
        return fn(req)

    return auth


def run_direct(auth: Any, headers: dict[str, str]) -> list[Any]:
    import falcon.testing

    from vgi_rpc.http._unauthorized import AuthUnavailableError, classify_auth_failure

    req = falcon.testing.create_req(method="POST", path="/whoami", headers=headers)
    try:
        a = auth(req)
    except AuthUnavailableError:
        return ["unavailable"]
    except (ValueError, PermissionError) as e:
        return ["rejected", "PermissionError" if isinstance(e, PermissionError) else "ValueError", classify_auth_failure(e).value]
    return ["ok", ident_of(a)]


class HttpSeam:
    """One real WSGI app (authenticate=auth) + the real client; ``call(headers)`` performs one whoami RPC."""

    def __init__(self, auth: Any) -> None:
        from vgi_rpc.http._testing import make_sync_client

        self.headers: dict[str, str] = {}
        # pages are switched off only because rendering them costs 9 ms per app (importlib.metadata lookup)
        inner = make_sync_client(
            server(), authenticate=auth, token_key=b"k" * 32, enable_health_endpoint=False,
            enable_landing_page=False, enable_describe_page=False, enable_not_found_page=False,
        )
        inner._default_headers = self.headers
        self.rc = RecClient(inner)

    def __call__(self, headers: dict[str, str]) -> list[Any]:
        from vgi_rpc.http import http_connect
        from vgi_rpc.http._unauthorized import AuthenticationError
        from vgi_rpc.rpc import RpcError

        self.headers.clear()
        self.headers.update(headers)
        rc = self.rc
        rc.last = None
        try:
            with http_connect(WhoSvc, client=rc) as px:
                got = json.loads(px.whoami())
            return ["ok", got]
        except AuthenticationError as e:
            st = rc.last.status_code if rc.last is not None else None
            return ["rejected", st, e.reason.value]
        except RpcError:
            st = rc.last.status_code if rc.last is not None else None
            return ["unavailable"] if st == 503 else ["http", st]


class DirectSeam:
    def __init__(self, auth: Any) -> None:
        self.auth = auth

    def __call__(self, headers: dict[str, str]) -> list[Any]:
        return run_direct(self.auth, headers)


_BASE: dict[tuple[str, str], Any] = {}


def baseline(seam: str, ik: str) -> Any:
    """Outcome of the judged request on an app whose authenticate is the inner alone (depends only on the inner kind)."""
    k = (seam, ik)
    if k not in _BASE:
        inner = make_inner(ik, [])
        _BASE[k] = (DirectSeam if seam == "direct" else HttpSeam)(inner)(extra_headers(ik))
    return _BASE[k]


def hdrs_for(proof: str, nonce_idx: int, inner_kind: str) -> dict[str, str]:
    h = dict(extra_headers(inner_kind))
    val = PROOFS[proof][1](nonce_of(nonce_idx))
    if val is not None:
        h[HDR] = val
    return h


def classify_v(seq: list[list[Any]], cache: bool) -> tuple[bool, bool]:
    """(V, ambiguous): V = last proof valid by construction and not a replay of an accepted nonce."""
    last_p, last_n = seq[-1]
    valid = PROOFS[last_p][0]
    if not valid:
        return False, False
    if len(seq) == 2 and cache and seq[0][1] == last_n:
        first_valid = PROOFS[seq[0][0]][0]
        if first_valid:
            return False, False  # replay of an accepted nonce
        # same nonce presented in a FAILED attempt: must not burn it per the spec, but not our property
        if seq[0][0] in ("absent", "empty", "garbage"):
            return True, False  # no nonce was presented at all
        return True, True
    return True, False


# ------------------------------------------------------------------ one case
def eval_case(ctx: Ctx, case: dict[str, Any], count: bool = True) -> None:
    from vgi_rpc.http import require_all

    mode, cache, ik, seq = case["mode"], case["cache"], case["inner"], case["seq"]
    V, ambiguous = classify_v(seq, cache)
    results: dict[str, Any] = {}
    for seam in ("direct", "http"):
        ilog: list[str] = []
        alog: list[str] = []
        gate = make_gate(mode, cache)
        inner = make_inner(ik, ilog)
        auth = counted(require_all(gate, inner), alog)
        runner = (DirectSeam if seam == "direct" else HttpSeam)(auth)
        out = None
        for i, (p, n) in enumerate(seq):
            if i == len(seq) - 1:
                del ilog[:], alog[:]
            out = runner(hdrs_for(p, n, ik))
        # baseline: same final request, no gate installed (no inner: judged against the statement, R2)
        base = baseline(seam, ik) if inner is not None else None
        results[seam] = (out, base, len(ilog), len(alog))
        judge(ctx, case, seam, V, ambiguous, out, base, len(ilog))
    if count:
        d_out, _, d_inner, d_auth = results["direct"]
        h_out, _, _, h_auth = results["http"]
        nt = (mode, ik, V, d_out[0], h_out[0]) if (d_auth >= 1 and h_auth >= 1) else None
        sample = None
        if ctx.evaluations % 97 == 0:
            sample = {"case": case, "V": V, "direct": d_out, "http": h_out}
        ctx.case(sample=sample, nontrivial=nt, outcome=(d_out, h_out[0]))
        ctx.extra["requests"] += 2 * len(seq)
        if V:
            ctx.extra["cases_valid_proof"] += 1
        if ambiguous:
            ctx.extra["cases_burnt_nonce_not_judged_positive"] += 1


def judge(ctx: Ctx, case: dict[str, Any], seam: str, V: bool, ambiguous: bool, out: Any, base: Any, inner_calls: int) -> None:
    mode, ik = case["mode"], case["inner"]
    rep = case
    where = f"[{seam}] mode={mode} inner={ik} seq={case['seq']} cache={case['cache']}"
    kind = out[0]
    # R4 (both modes): attribution claim only when V
    if kind == "ok":
        gclaim = out[1][3].get(GATE_KEY)
        if isinstance(gclaim, dict) and gclaim.get("verified") == "true" and not V:
            ctx.fail(f"gate-claim-verified-without-proof:{mode}", f"{where}: claims[{GATE_KEY}].verified == 'true' without a valid proof: {out}", rep)
    if mode == "require" and not V:
        # R1
        if kind != "rejected":
            ctx.fail(f"require-mode-not-refused:{'no-inner' if ik == 'none' else 'inner'}", f"{where}: request without a valid proof was not refused: {out}", rep)
        elif out[2] != "proxy_required" and seam == "direct":
            ctx.fail("require-mode-wrong-reason", f"{where}: gate failure reported {out[2]!r}, expected the gate's code proxy_required", rep)
        if inner_calls:
            ctx.fail("require-mode-inner-consulted-after-gate-failure", f"{where}: inner authenticator invoked {inner_calls}x after the gate failed", rep)
        return
    if mode == "require" and V and ambiguous and kind == "rejected" and inner_calls == 0:
        return  # nonce burnt by an earlier failed attempt: refusal tolerated (not this property)
    if ik == "none":
        # R2
        if kind != "ok":
            ctx.fail(f"no-inner-unexpected-refusal:{mode}", f"{where}: expected the request to proceed, got {out}", rep)
            return
        _dom, authd, principal, _claims = out[1]
        if authd and not V:
            ctx.fail("allow-mode-no-inner:authenticated-without-proof", f"{where}: AuthContext.authenticated is True although the gate did not verify a proof: {out[1]}", rep)
        if not V and principal:
            ctx.fail("allow-mode-no-inner:principal-without-proof", f"{where}: principal {principal!r} without a verified proof", rep)
        if V and not authd and not ambiguous:
            ctx.fail(f"no-inner-valid-proof-not-authenticated:{mode}", f"{where}: a verified proof did not authenticate (gate alone authenticates when inner is None): {out[1]}", rep)
        return
    # R3
    if inner_calls != 1:
        ctx.fail(f"inner-call-count:{mode}", f"{where}: inner authenticator invoked {inner_calls}x, expected exactly once", rep)
    if kind != base[0]:
        ctx.fail(f"differs-from-gateless-baseline:{mode}:{'proof' if V else 'noproof'}", f"{where}: got {out}, the same request with no gate installed gets {base}", rep)
        return
    if kind == "ok":
        got, exp = list(out[1]), list(base[1])
        gc = dict(got[3])
        gc.pop(GATE_KEY, None)
        ec = dict(exp[3])
        ec.pop(GATE_KEY, None)
        if got[:3] != exp[:3] or gc != ec:
            ctx.fail(f"identity-differs-from-gateless-baseline:{mode}:{'proof' if V else 'noproof'}", f"{where}: identity {got} differs from the gate-less {exp}", rep)
    elif out != base:
        ctx.fail(f"rejection-differs-from-gateless-baseline:{mode}", f"{where}: got {out}, gate-less app gives {base}", rep)


# ------------------------------------------------------------------ chain construction (R5)
def chain_cases() -> list[dict[str, Any]]:
    out = []
    for gk in ("proof_allow", "proof_require", "handmade", "subclass"):
        for length in (1, 2, 3):
            for pos in range(length):
                out.append({"chain": True, "gate": gk, "length": length, "pos": pos})
    for length in (1, 2, 3):
        out.append({"chain": True, "gate": "wrapped_require_all", "length": length, "pos": 0})
    return out


def eval_chain(ctx: Ctx, case: dict[str, Any], count: bool = True) -> None:
    from vgi_rpc.http import PreconditionGate, chain_authenticate, require_all
    from vgi_rpc.rpc import AuthContext

    log: list[str] = []
    gk = case["gate"]

    def dummy(req: Any) -> Any:
        log.append("dummy")
        return AuthContext(domain="d", authenticated=True, principal="p")

    if gk == "proof_allow":
        g: Any = make_gate("allow", True)
    elif gk == "proof_require":
        g = make_gate("require", True)
    elif gk == "handmade":
        g = PreconditionGate(lambda req: {"ok": "1"}, name="hand", claims_key="hand")
    elif gk == "subclass":
        class SubGate(PreconditionGate):
            __slots__ = ()

        g = SubGate(lambda req: {"ok": "1"}, name="sub", claims_key="sub")
    else:
        g = require_all(make_gate("require", True), dummy)
    members = [dummy] * case["length"]
    members[case["pos"]] = g
    raised = None
    built = None
    try:
        built = chain_authenticate(*members)
    except Exception as e:  # any construction-time refusal satisfies the statement
        raised = type(e).__name__
    if gk == "wrapped_require_all":
        if raised is not None:
            ctx.fail("chain-rejects-require_all-result", f"chain_authenticate refused a require_all(...) result ({raised}); spec says chain the results", case)
        else:
            out = run_direct(built, {})
            # the wrapped gate is require-mode and there is no proof: member 0 refuses with PermissionError, which
            # the chain must propagate (not swallow and fall through to the dummy)
            if case["length"] > 1 and out[0] == "ok":
                ctx.fail("chain-swallowed-gate-failure", f"a require_all member's gate failure was swallowed by the chain: {out}", case)
    elif raised is None:
        ctx.fail(f"gate-accepted-in-chain:{gk}", f"chain_authenticate accepted a {gk} gate at position {case['pos']} of {case['length']}", case)
    if count:
        ctx.case(
            sample=case if case["pos"] == 0 and case["length"] == 2 and gk == "proof_allow" else None,
            nontrivial=("chain", gk, raised is not None),
            outcome=("chain", raised),
        )


# ------------------------------------------------------------------ entry points
def space(ctx: Ctx) -> Any:
    caches = [True] if ctx.quick else [True, False]
    for mode in ("allow", "require"):
        for cache in caches:
            for ik in INNERS:
                for seq in sequences(ctx):
                    yield {"mode": mode, "cache": cache, "inner": ik, "seq": seq}
    yield from chain_cases()


def run(ctx: Ctx) -> None:
    import logging

    logging.getLogger("vgi_rpc").setLevel(logging.CRITICAL)
    ctx.extra.update({"requests": 0, "cases_valid_proof": 0, "cases_burnt_nonce_not_judged_positive": 0})
    for case in space(ctx):
        if not ctx.mine():
            continue
        if case.get("chain"):
            eval_chain(ctx, case)
        else:
            eval_case(ctx, case)


def replay(ctx: Ctx, case: dict[str, Any]) -> None:
    import logging

    logging.getLogger("vgi_rpc").setLevel(logging.CRITICAL)
    ctx.extra.update({"requests": 0, "cases_valid_proof": 0, "cases_burnt_nonce_not_judged_positive": 0})
    if case.get("chain"):
        eval_chain(ctx, case, count=False)
    else:
        eval_case(ctx, case, count=False)

"""C35 — Sensitive claim values never reach access logs (E1: exhaustive enumeration of claim trees).

Every enumerated claims object is attached to a real authenticated HTTP call (``authenticate`` callback returning
an ``AuthContext`` with those claims) against the real WSGI app; the record is captured from the ``vgi_rpc.access``
logger through the real ``VgiAccessLogFormatter`` and judged on its *serialised text*.

Space (see ``shapes``): the claims object is a JSON object; a value is a leaf, an object or a list.  Containers have
one entry, or two entries of which one is a leaf (sibling), so branching is 2 with the full recursion on one arm.
Object keys are drawn from the abstract classes S (sensitive), S' (a second sensitive word) and N/N' (neutral).
The concrete key for S ranges over every word of the property statement's list x spelling variants
{lower, UPPER, Title, aLtErNaTiNg, embedded as substring ``x_<w>_y``}.  Every leaf carries a unique marker
(string ``MK<i>Q`` or negative 13-digit integer, per the leaf-kind dimension) that cannot occur elsewhere in a
record.  Depth = number of nested containers including the claims object itself: <=3 quick, <=4 thorough; on top of that all
LINEAR chains (one entry per container) of depth 4-5 (quick) / 5-6 (thorough), i.e. every object/list alternation such as
list-in-list-in-object, with three word x spelling representatives.

Oracle (weakest reading of the statement; reference list written from the statement / access-log-spec §4.5, not
from the repo's regex):
  (i)   a leaf with ANY ancestor key that designates a sensitive claim must not occur in the serialised record;
  (ii)  following the path to every sensitive key, the first sensitive key on that path is still present in the
        logged ``claims`` (keys stay visible) and its logged value contains none of the markers;
        neutral leaves are NOT required to survive (a stricter redactor is allowed);
  (iii) with a custom redactor that raises, the record has no ``claims`` (absent or empty) and no marker at all,
        and the call itself still succeeds.
``name`` is only asserted as an exact (case-insensitive) key — "name fields" such as ``given_name`` are listed
separately; ``hostname``-like substrings are not asserted either way.
"""

from __future__ import annotations

import json
import logging
from typing import Any, Iterator

from vf.core.runner import Ctx

PROPERTY = "C35"
LEVEL = "exploration"
ENGINE = "E1-SEQ"
SHARDS = {"quick": 8, "thorough": 16}
RULE = (
    "all claim trees (object/list containers, 1 entry or 2 entries with one leaf sibling, key classes S/S'/N/N') of "
    "container depth <=3 (quick) / <=4 (thorough) x every sensitive word of the statement's list x spelling variant "
    "{lower,UPPER,Title,alternating,substring} x leaf kind {str,int} (quick: int leaves only with the lower spelling); plus all "
    "linear chains of depth 4-5 (quick) / 5-6 (thorough) x 3 word/spelling representatives; plus every tree x {raising redactors}; each one "
    "real authenticated HTTP call; non-trivial = record carried a claims object (or redactor was invoked), classed by "
    "depth of the deepest sensitive key and the container kinds above it"
)
TECHNIQUE = "exhaustive enumeration of a finite claim-tree grammar through the real HTTP dispatch + access-log formatter, marker-taint oracle"
LEVEL_TEXT = (
    "Every claims object of the stated grammar up to the stated depth is logged by the real server and the serialised "
    "record is searched for tainted markers; exhaustive within the bound, which is the right level because the "
    "property quantifies over nesting shapes and key spellings that fixed tests only cover flat."
)
LEVEL_NOTE = (
    "Bounded by container depth (3/4), branching 2 (one recursive arm + one leaf sibling), the 19 words x 5 spellings, "
    "two leaf kinds. Records are observed at the logging.Handler boundary (formatter output), not after a log shipper."
)
ASSUMPTIONS = [
    "claims reach the access log only through AuthContext.claims on the HTTP transport (pipe transports are anonymous)",
    "the reference sensitive-word list is the one in the property statement / access-log-spec section 4.5",
    "'name' designates a sensitive claim only as the whole key (case-insensitive)",
]

# Reference list, from the property statement.
WORDS = [
    "token", "secret", "key", "password", "authorization", "email", "phone", "address", "birthdate", "gender",
    "name", "given_name", "family_name", "middle_name", "nickname", "preferred_username", "picture", "profile",
    "website",
]
VARIANTS = ["lower", "upper", "title", "alt", "sub"]
NEUTRAL = ["sub", "ctx", "roles", "org"]


def spell(word: str, variant: str) -> str | None:
    if variant == "lower":
        return word
    if variant == "upper":
        return word.upper()
    if variant == "title":
        return word.title()
    if variant == "alt":
        return "".join(c.upper() if i % 2 else c for i, c in enumerate(word))
    if variant == "sub":
        return None if word == "name" else f"x_{word}_y"
    raise ValueError(variant)


def ref_sensitive(key: str) -> bool:
    """Reference classifier written from the statement: key designates a credential / personal-data claim."""
    k = key.lower()
    if k == "name":
        return True
    return any(w in k for w in WORDS if w != "name")


# ------------------------------------------------------------------------------ abstract shapes
# value := "L" | ["O", [(kc, value), ...]] | ["A", [value, ...]]   with kc in {"S","T","N","M"}  (T = S', M = N')


def values(d: int) -> Iterator[Any]:
    yield "L"
    if d == 0:
        return
    for sub in values(d - 1):
        for kc in ("S", "N"):
            yield ["O", [(kc, sub)]]
        for k1, k2 in (("S", "N"), ("N", "S"), ("N", "M"), ("S", "T")):
            yield ["O", [(k1, sub), (k2, "L")]]
        yield ["A", [sub]]
        yield ["A", [sub, "L"]]
        yield ["A", ["L", sub]]


def shapes(depth: int) -> Iterator[Any]:
    """Claims objects (top-level object, non-empty) with container depth <= *depth*."""
    for v in values(depth):
        if v != "L" and v[0] == "O":
            yield v


def chains(depth: int) -> Iterator[Any]:
    """Linear claim trees (every container has ONE entry, or a list with one leaf sibling) of exactly *depth* containers:
    all 3^(depth-1) container-kind/key-class sequences below the claims object, so that deep list-in-list / object-in-list
    alternations are covered beyond the full grammar's depth bound."""

    def below(d: int) -> Iterator[Any]:
        if d == 0:
            yield "L"
            return
        for sub in below(d - 1):
            yield ["O", [("S", sub)]]
            yield ["O", [("N", sub)]]
            yield ["A", [sub]]
            if d <= 2:
                yield ["A", ["L", sub]]

    for sub in below(depth - 1):
        for kc in ("S", "N"):
            yield ["O", [(kc, sub)]]


def has_s(shape: Any) -> bool:
    if shape == "L":
        return False
    if shape[0] == "O":
        return any(kc in ("S", "T") or has_s(v) for kc, v in shape[1])
    return any(has_s(v) for v in shape[1])


class Built:
    def __init__(self) -> None:
        self.n = 0
        self.tainted: list[Any] = []  # markers under a sensitive key
        self.clean: list[Any] = []
        self.spaths: list[list[Any]] = []  # path (keys / indexes) to every FIRST sensitive key
        self.classes: set[str] = set()  # nontrivial classes: depth + container trail of each sensitive key


def build(shape: Any, skey: str, tkey: str, leaf: str, b: Built, path: list[Any], trail: str, taint: bool) -> Any:
    if shape == "L":
        b.n += 1
        m: Any = f"MK{b.n}Q" if leaf == "str" or (leaf == "mixed" and b.n % 2) else -(9990000000000 + b.n)
        (b.tainted if taint else b.clean).append(m)
        return m
    if shape[0] == "A":
        return [build(v, skey, tkey, leaf, b, path + [i], trail + "A", taint) for i, v in enumerate(shape[1])]
    out: dict[str, Any] = {}
    for kc, v in shape[1]:
        key = {"S": skey, "T": tkey, "N": NEUTRAL[len(path) % 2], "M": NEUTRAL[2 + len(path) % 2]}[kc]
        sens = kc in ("S", "T")
        if sens:
            b.classes.add(f"{len(trail) + 1}:{trail}")
            if not taint:
                b.spaths.append(path + [key])
        out[key] = build(v, skey, tkey, leaf, b, path + [key], trail + "O", taint or sens)
    return out


def marker_in(text: str, m: Any) -> bool:
    return (m if isinstance(m, str) else str(m)) in text


# ------------------------------------------------------------------------------ harness


class Capture(logging.Handler):
    def __init__(self) -> None:
        super().__init__()
        self.lines: list[str] = []

    def emit(self, record: logging.LogRecord) -> None:
        self.lines.append(self.format(record))


class Rig:
    """One HTTP app + client for the whole shard; claims are swapped per case."""

    def __init__(self) -> None:
        from vgi_rpc.logging_utils import VgiAccessLogFormatter
        from vgi_rpc.rpc import AuthContext

        from vf.kit.transports import Conn

        self.cap = Capture()
        self.cap.setFormatter(VgiAccessLogFormatter())
        self.lg = logging.getLogger("vgi_rpc.access")
        self._old = (self.lg.level, self.lg.propagate)
        self.lg.addHandler(self.cap)
        self.lg.setLevel(logging.INFO)
        self.lg.propagate = False
        logging.getLogger("vgi_rpc").addHandler(logging.NullHandler())
        logging.getLogger("vgi_rpc").propagate = False
        self.claims: Any = {}

        def auth(req: Any) -> Any:
            return AuthContext(domain="jwt", authenticated=True, principal="alice", claims=self.claims)

        self.conn = Conn("http", http={"authenticate": auth})
        self.conn.__enter__()

    def call(self, claims: Any) -> tuple[list[str], Any]:
        self.claims = claims
        del self.cap.lines[:]
        try:
            r = self.conn.proxy.echo(n=5)
        except Exception as e:  # noqa: BLE001 - judged by the oracle
            r = e
        return list(self.cap.lines), r

    def close(self) -> None:
        self.conn.__exit__(None, None, None)
        self.lg.removeHandler(self.cap)
        self.lg.setLevel(self._old[0])
        self.lg.propagate = self._old[1]


def raising_redactors() -> dict[str, Any]:
    def r_immediate(claims: Any) -> Any:
        raise RuntimeError("redactor exploded")

    def r_partial(claims: Any) -> Any:
        out = {}
        for k, v in claims.items():
            out[k] = v
        raise KeyError("late failure after copying " + json.dumps(out, default=str))

    return {"immediate": r_immediate, "partial": r_partial}


def lookup(obj: Any, path: list[Any]) -> tuple[bool, Any]:
    cur = obj
    for p in path:
        if isinstance(p, int):
            if not isinstance(cur, list) or p >= len(cur):
                return False, None
            cur = cur[p]
        else:
            if not isinstance(cur, dict) or p not in cur:
                return False, None
            cur = cur[p]
    return True, cur


def leak_key(path: list[Any]) -> str:
    """Finding key of a sensitive key found at *path*: top level vs nested, and through which container kind."""
    if len(path) == 1:
        return "leak:top-level"
    return "leak:nested:" + ("through-list" if any(isinstance(p, int) for p in path) else "object-only")


def judge(ctx: Ctx, rig: Rig, case: dict[str, Any]) -> None:
    from vgi_rpc import logging_utils as LU

    shape, word, variant, leaf, red = case["shape"], case["word"], case["variant"], case["leaf"], case["redactor"]
    rep = dict(case, shape=json.dumps(shape))  # a string: the runner's JSON conversion is depth-limited
    skey = spell(word, variant)
    assert skey is not None
    tword = WORDS[(WORDS.index(word) + 7) % len(WORDS)]
    tkey = spell(tword, "lower" if variant == "sub" else variant) or tword
    if tkey.lower() == skey.lower():
        tkey = "x_" + tkey
    b = Built()
    claims = build(shape, skey, tkey, leaf, b, [], "", False)
    for k in (skey, tkey):
        if not ref_sensitive(k):
            raise AssertionError(f"generator bug: {k} not sensitive by the reference")
    old = LU._claim_redactor
    if red != "default":
        LU.set_claim_redactor(raising_redactors()[red])
    try:
        lines, res = rig.call(claims)
    finally:
        LU.set_claim_redactor(old)
    desc = {"word": word, "variant": variant, "leaf": leaf, "redactor": red}
    if res != 5:
        ctx.fail(f"call-failed:{red}", f"authenticated call failed with {res!r} for claims {claims!r}", rep)
    if len(lines) != 1:
        ctx.fail("record-count", f"{len(lines)} access records for one call (claims {claims!r})", rep)
        ctx.case(outcome=("nrec", len(lines)))
        return
    text = lines[0]
    rec = json.loads(text)
    logged = rec.get("claims")
    if red != "default":
        leaked = [m for m in b.tainted + b.clean if marker_in(text, m)]
        if logged or leaked:
            ctx.fail(
                f"failing-redactor-not-closed:{red}",
                f"redactor raised but the record carries claims={logged!r} (markers {leaked!r}); input {claims!r}",
                rep,
            )
        ctx.case(nontrivial=f"raise:{red}:{'S' if b.tainted else 'n'}", outcome=("raise", logged is None, bool(leaked)))
        return
    bad = False
    leaked = [m for m in b.tainted if marker_in(text, m)]
    if leaked:
        bad = True
        for sp in b.spaths:
            ok, val = lookup(logged, sp)
            if ok and any(marker_in(json.dumps(val, default=str), m) for m in leaked):
                ctx.fail(
                    leak_key(sp),
                    f"value under sensitive claim key {sp[-1]!r} at path {sp!r} reached the access log: logged claims "
                    f"{logged!r} (input {claims!r})",
                    rep,
                )
                break
        else:
            ctx.fail("leak:elsewhere", f"tainted markers {leaked!r} in record {text[:600]}", rep)
    for sp in b.spaths:
        ok, val = lookup(logged, sp)
        if not ok:
            bad = True
            ctx.fail(
                "key-not-visible:" + ("top-level" if len(sp) == 1 else "nested"),
                f"sensitive key at {sp!r} is not visible in the logged claims {logged!r} (input {claims!r})",
                rep,
            )
    nt = None
    if logged is not None and b.classes:
        nt = sorted(b.classes)[-1] + ":" + variant
    ctx.case(
        sample=({**desc, "claims": claims, "logged": logged} if ctx.evaluations % 2003 == 0 else None),
        nontrivial=nt,
        outcome=("ok" if not bad else "bad", len(b.tainted), len(b.clean), sum(marker_in(text, m) for m in b.clean)),
    )


def shape_cases(shape: Any, quick: bool = False) -> Iterator[dict[str, Any]]:
    if has_s(shape):
        for word in WORDS:
            for variant in VARIANTS:
                if spell(word, variant) is None:
                    continue
                for leaf in ("str", "int"):
                    if quick and leaf == "int" and variant != "lower":
                        continue  # quick tier: integer leaves only with the plain spelling
                    yield {"shape": shape, "word": word, "variant": variant, "leaf": leaf, "redactor": "default"}
    else:
        yield {"shape": shape, "word": "email", "variant": "lower", "leaf": "mixed", "redactor": "default"}
    for red in ("immediate", "partial"):
        yield {"shape": shape, "word": "email", "variant": "lower", "leaf": "mixed", "redactor": red}


def run(ctx: Ctx) -> None:
    depth = 3 if ctx.quick else 4
    ctx.extra.update({"shapes": 0, "max_depth": depth})
    rig = Rig()
    try:
        for shape in shapes(depth):
            if not ctx.mine():
                continue
            ctx.extra["shapes"] += 1
            for case in shape_cases(shape, ctx.quick):
                judge(ctx, rig, case)
        # linear chains beyond the full grammar's depth: one spelling per sensitive word class is enough here (the
        # spelling dimension is crossed with every shape of the full grammar above)
        for d in ((4, 5) if ctx.quick else (5, 6)):
            for shape in chains(d):
                if not ctx.mine():
                    continue
                ctx.extra["chain_shapes"] = ctx.extra.get("chain_shapes", 0) + 1
                if has_s(shape):
                    for word, variant in (("email", "lower"), ("password", "upper"), ("key", "sub")):
                        if spell(word, variant) is None:
                            continue
                        judge(ctx, rig, {"shape": shape, "word": word, "variant": variant, "leaf": "str", "redactor": "default"})
                else:
                    judge(ctx, rig, {"shape": shape, "word": "email", "variant": "lower", "leaf": "mixed", "redactor": "default"})
    finally:
        rig.close()


def replay(ctx: Ctx, case: dict[str, Any]) -> None:
    case = dict(case, shape=json.loads(case["shape"]))
    rig = Rig()
    try:
        judge(ctx, rig, case)
    finally:
        rig.close()

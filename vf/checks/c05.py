"""C05 — Malformed requests never silently kill or hang a connection (E1: exhaustive request grammar).

Raw bytes are written to a real ``RpcServer.serve`` loop over the in-memory transport.

Part A (well-framed): every request of the grammar
    method-value x request_version-value x (no extra key | one extra metadata key=value [thorough: pairs]) x
    column-shape x row-count
is sent as a syntactically valid Arrow IPC stream.  Oracle: the server answers with exactly one readable
response (a result or a typed error stream; for a dispatched stream method: the stream runs to EOS once the
client closes its input), the serve loop is still running, and a following probe ``echo(n)`` returns ``n``.
Requests are chained on one connection (a new one is opened only after a failure), so every request is also
judged as the *successor* of the previous one.

Part S (well-framed, hostile segment): a zero-row shm POINTER request with the declared schema, naming a real
client-owned segment, for a plain and an enum-typed (dictionary-encoded, i.e. schema-less in the segment) method x what
the region holds {valid (control: dispatches), zeros, 0xFF, text, nothing, truncated, payloads of five other schemas,
valid with a damaged tail, offset / length past the end}, followed on the same connection by a probe request.  Each
case runs in a forked child, so that a native abort of the server is reported as a violation of this property instead
of taking the check down.  Oracle: the request gets a response or a typed error stream, the probe is answered, serve()
does not raise, the process lives.  The same harness sends an INLINE, correctly typed request to a method with a
dataclass parameter (a binary column holding an embedded IPC stream) x 14 contents of that column {valid, a stream
without a batch, empty, garbage, truncated, two batches, zero / two rows, other schema, missing / extra field, null,
trailing bytes, bare EOS}.

Part B (not IPC): every proper prefix of a valid request and every single-byte substitution (3 values) at each
of the first 256 offsets.  Oracle: the peer is never left waiting: after the client has sent the bytes (and,
if the server is still waiting for more, half-closed its write side) it observes a response stream or EOF; if
the server answered and kept the connection, the probe must work.
"""

from __future__ import annotations

import dataclasses
import enum
import io
import itertools
import uuid
from multiprocessing import shared_memory
from typing import Any, Protocol

import pyarrow as pa

from vgi_rpc.utils import ArrowSerializableDataclass

from vf.core.runner import Ctx, HarnessError
from vf.kit import mem, prog, raw
from vf.kit.transports import Conn, MemStorage

PROPERTY = "C05"
LEVEL = "exploration"
ENGINE = "E1-SEQ"
SHARDS = {"quick": 8, "thorough": 16}
RULE = (
    "Part A: product grammar of well-framed requests (method x request_version x extra metadata key/value x column shape "
    "x rows), chained on live connections with a probe after each; Part S: 2 methods x 23 region contents / pointer-key shapes behind a "
    "well-framed shm pointer request + probe, each in a forked child; Part B: all prefixes and single-byte substitutions of a "
    "valid request. non-trivial = request that differs from the valid one and was answered/ended by the real serve loop; "
    "distinct = grammar tuple"
)
TECHNIQUE = "bounded-exhaustive enumeration of a request grammar against the real serve loop with deterministic hang detection"
LEVEL_TEXT = (
    "Every element of a finite request grammar (tens of thousands of well-framed requests, all prefixes and byte "
    "substitutions of a valid one) is executed against the real server; the property quantifies over request inputs."
)
LEVEL_NOTE = "Values per metadata key are representatives (valid, empty, non-UTF-8, non-numeric, huge, missing segment, foreign segment); in-memory transport stands for pipe/socket."
ASSUMPTIONS = ["the in-memory transport behaves like a pipe (unbounded buffer, EOF on close)"]

SCRIPT = '{"steps": [[["emit", 1, null]]]}'


def methods() -> list[tuple[str, Any]]:
    return [
        ("echo", b"echo"),
        ("produce", b"produce"),
        ("produce_h", b"produce_h"),
        ("unknown", b"nope"),
        ("empty", b""),
        ("nonutf8", b"\xff\xfe"),
        ("describe", b"__describe__"),
        ("topts", b"__transport_options__"),
        ("absent", None),
    ]


VERSIONS = [("v1", b"1"), ("absent", None), ("empty", b""), ("v2", b"2"), ("nonutf8", b"\xff")]


def extras(foreign: str) -> list[tuple[str, bytes, bytes]]:
    e: list[tuple[str, bytes, bytes]] = []
    for v in (b"", b"vf_no_such_segment", b"\xff\xff", foreign.encode(), b"/", b"a" * 300):
        e.append(("shm_name", b"vgi_rpc.shm_segment_name", v))
    for v in (b"0", b"abc", b"99999999999999999999", b"-1", b"4096", b"\xff"):
        e.append(("shm_size", b"vgi_rpc.shm_segment_size", v))
    for v in (b"0", b"abc", b"-5", b"999999999999", b""):
        e.append(("shm_offset", b"vgi_rpc.shm_offset", v))
    for v in (b"0", b"abc", b"-5", b"999999999999"):
        e.append(("shm_length", b"vgi_rpc.shm_length", v))
    for v in (b"", b"https://mem.invalid/none", b"\xff", b"not a url", b"file:///etc/passwd"):
        e.append(("location", b"vgi_rpc.location", v))
    e.append(("location_sha", b"vgi_rpc.location.sha256", b"00"))
    e.append(("cancel", b"vgi_rpc.cancel", b"1"))
    for v in (b"INFO", b"EXCEPTION", b"bogus", b"\xff"):
        e.append(("log_level", b"vgi_rpc.log_level", v))
    e.append(("log_message", b"vgi_rpc.log_message", b"m"))
    e.append(("log_extra", b"vgi_rpc.log_extra", b"{not json"))
    for v in (b"\xff\xfe", b"00-abc", b"00-0af7651916cd43dd8448eb211c80319c-b7ad6b7169203331-01", b""):
        e.append(("traceparent", b"traceparent", v))
    e.append(("tracestate", b"tracestate", b"\xff"))
    for v in (b"1.0.0", b"\xff", b"x"):
        e.append(("protocol_version", b"vgi_rpc.protocol_version", v))
    e.append(("state", b"vgi_rpc.stream_state#b64", b"AAAA"))
    e.append(("call_state", b"vgi_rpc.call_state#b64", b"\xff"))
    e.append(("server_id", b"vgi_rpc.server_id", b"\xff"))
    e.append(("request_id", b"vgi_rpc.request_id", b"\xff" * 40))
    e.append(("shm_source", b"vgi_rpc.shm_source", b"x"))
    e.append(("transport_shm", b"vgi_rpc.transport.shm", b"1"))
    e.append(("arbitrary", b"x.arbitrary", b"v"))
    return e


def column_shapes(method: str) -> list[tuple[str, Any]]:
    """(name, fn(rows) -> RecordBatch) for the parameter columns of *method* (declared + perturbed).

    The *declared* shape is built from the schema the framework itself derives for the method (field nullability
    included), so a well-formed request really is dispatched."""
    from vgi_rpc.rpc import rpc_methods

    target = "echo" if method == "echo" else "produce"
    sch = rpc_methods(prog.ScriptSvc)[target].params_schema
    col = sch.names[0]
    ftype = sch.field(0).type
    if target == "echo":
        decl = lambda n: pa.RecordBatch.from_pydict({"n": list(range(n))}, schema=sch)  # noqa: E731
    else:
        decl = lambda n: pa.RecordBatch.from_pydict({"script": [SCRIPT] * n}, schema=sch)  # noqa: E731

    def one(arr_fn: Any, nullable: bool = False) -> Any:
        t = arr_fn(1).type

        def mk(n: int) -> pa.RecordBatch:
            arr = arr_fn(n) if n else arr_fn(1).slice(0, 0)
            return pa.RecordBatch.from_arrays([arr], schema=pa.schema([pa.field(col, t, nullable=nullable)]))

        return mk

    def bad_utf8(n: int) -> pa.Array:
        # a utf8 column whose bytes are not UTF-8 (well-framed Arrow, invalid under full validation)
        offs = pa.py_buffer(b"".join(int(2 * i).to_bytes(4, "little") for i in range(n + 1)))
        return pa.Array.from_buffers(pa.utf8(), n, [None, offs, pa.py_buffer(b"\xff\xfe" * n)])

    return [
        ("declared", decl),
        ("nullable", lambda n: decl(n).cast(pa.schema([pa.field(col, ftype, nullable=True)]))),
        ("renamed", lambda n: decl(n).rename_columns(["zz"])),
        ("extra", lambda n: decl(n).append_column("extra", pa.array([1] * n, pa.int32()))),
        ("none", lambda n: pa.RecordBatch.from_struct_array(pa.array([{}] * n, pa.struct([])))),
        ("binary", one(lambda n: pa.array([b"\xff\x00"] * n, pa.binary()))),
        ("dict", one(lambda n: pa.array(["a"] * n).dictionary_encode())),
        ("nested", one(lambda n: pa.array([[1, 2]] * n, pa.list_(pa.int64())))),
        ("null", lambda n: pa.RecordBatch.from_arrays([pa.array([None] * n, ftype)], names=[col])),
        ("utf8-invalid", one(bad_utf8)),
        ("large-string", one(lambda n: pa.array(["x"] * n, pa.large_utf8()))),
        ("ts-huge", one(lambda n: pa.array([2**62] * n, pa.timestamp("s")))),
        ("date-huge", one(lambda n: pa.array([2**31 - 1] * n, pa.date32()))),
        ("duration-huge", one(lambda n: pa.array([2**62] * n, pa.duration("s")))),
        ("decimal", one(lambda n: pa.array([1] * n, pa.int64()).cast(pa.decimal128(25, 2)))),
        ("int32", one(lambda n: pa.array([1] * n, pa.int32()))),
    ]


class Link:
    """A live connection that is replaced after a failure."""

    def __init__(self, external: bool) -> None:
        self.external = external
        self.conn: Conn | None = None
        self.n = 0

    def get(self) -> Conn:
        if self.conn is None:
            kw: dict[str, Any] = {}
            if self.external:
                import os
                import sys

                import vgi_rpc.external as ext
                from vgi_rpc.external import ExternalLocationConfig

                # tenacity (imported lazily by resolve_external_location) is not installable here: use the
                # stub, and answer fetches from the in-memory store (unknown object -> RuntimeError)
                stubs = os.path.join(os.path.dirname(os.path.dirname(os.path.abspath(__file__))), "kit", "stubs")
                if stubs not in sys.path:
                    sys.path.append(stubs)
                st = MemStorage()
                ext.fetch_url = st.fetch  # type: ignore[assignment]
                kw["server_kwargs"] = {
                    "external_location": ExternalLocationConfig(storage=st, url_validator=None, retry_delay_seconds=0.0)
                }
            self.conn = Conn("mem", **kw).__enter__()
        return self.conn

    def drop(self) -> None:
        if self.conn is not None:
            try:
                self.conn.__exit__(None, None, None)
            except Exception:
                pass
            self.conn = None

    def probe(self) -> str | None:
        c = self.get()
        self.n += 1
        n = 5000 + self.n
        try:
            got = c.proxy.echo(n=n)
            return None if got == n else f"probe echo({n}) returned {got!r}"
        except mem.Deadlock as e:
            return f"HANG: probe blocked forever ({e})"
        except Exception as e:  # noqa: BLE001
            return f"probe failed: {type(e).__name__}: {str(e)[:200]}"


def exchange_raw(c: Conn, data: bytes, headerless_stream: bool = False) -> dict[str, Any]:
    """Send one request; collect what the server does. Returns {'kind': reply|stream|closed|hang, ...}.

    *headerless_stream*: the client is calling a stream method without a header.  Such a client reads nothing
    before it has written its input stream (WIRE_PROTOCOL section 9), so -- whatever the server makes of the
    request -- the input stream follows the request (here: the empty stream a client that closes without
    ticking writes), and exactly one response stream is read: the output stream or the refusal."""
    w, r = c.ct.writer, c.ct.reader
    w.write(data)
    if headerless_stream:
        with pa.ipc.new_stream(w, pa.schema([])):
            pass
    try:
        st = mem.wait_reply_or_idle(c.ct)
    except TimeoutError:
        return {"kind": "hang", "detail": "no reply and server not idle"}
    if st == "closed":
        return {"kind": "closed"}
    if st == "idle":
        if headerless_stream:
            return {"kind": "hang", "detail": "server idle without answering a stream call whose input was sent"}
        # the server dispatched a headerless stream and waits for input: close the input stream
        with pa.ipc.new_stream(w, pa.schema([])):
            pass
        out = raw.classify(raw.read_stream(r))
        return {"kind": "stream", "resp": out}
    first = raw.classify(raw.read_stream(r))
    if headerless_stream:
        return {"kind": "stream" if first["error"] is None else "reply", "resp": first}
    if first["error"] is None and first["data"] and "tag" in first["data"][0]:
        # a stream header: the stream is open, finish it
        with pa.ipc.new_stream(w, pa.schema([])):
            pass
        out = raw.classify(raw.read_stream(r))
        return {"kind": "stream", "resp": out, "header": first}
    return {"kind": "reply", "resp": first}


def part_a(ctx: Ctx, foreign: str) -> None:
    ex = extras(foreign)
    none_extra: list[tuple[tuple[str, bytes, bytes], ...]] = [()]
    singles = [(e,) for e in ex]
    pairs: list[tuple[tuple[str, bytes, bytes], ...]] = []
    if ctx.thorough:
        firsts = {}
        for e in ex:
            firsts.setdefault(e[0], e)
        keyreps = list(firsts.values())
        pairs = [p for p in itertools.combinations(keyreps, 2)]
    # dynamic shared-memory attach needs name AND size: every name x a few sizes, alone and with a pointer
    shm_combos: list[tuple[tuple[str, bytes, bytes], ...]] = []
    for name_e in [e for e in ex if e[0] == "shm_name"]:
        for size_v in (b"4096", b"0", b"-1", b"99999999999999999999"):
            size_e = ("shm_size", b"vgi_rpc.shm_segment_size", size_v)
            shm_combos.append((name_e, size_e))
            if size_v == b"4096":
                shm_combos.append((name_e, size_e, ("shm_offset", b"vgi_rpc.shm_offset", b"0"), ("shm_length", b"vgi_rpc.shm_length", b"64")))
                shm_combos.append((name_e, size_e, ("shm_offset", b"vgi_rpc.shm_offset", b"0")))
    link = {False: Link(False), True: Link(True)}
    ctx.extra.setdefault("partA_requests", 0)
    ctx.extra.setdefault("partA_dispatched", 0)
    for external in (False, True):
        for (mname, mval), (vname, vval) in itertools.product(methods(), VERSIONS):
            if not ctx.mine():
                continue
            shapes = column_shapes("echo" if mname == "echo" else "produce")
            extra_sets = none_extra + singles + pairs + shm_combos
            if external and ctx.quick:
                # quick tier: with an external-location config only the pointer keys matter
                extra_sets = [es for es in singles if es[0][0].startswith("location")]
            for extra_set in extra_sets:
                for sname, sfn in shapes:
                    rows_list = (0, 1, 2, 3) if (sname == "declared" or ctx.thorough) else (1,)
                    if extra_set and sname not in ("declared", "none", "nullable") and ctx.quick:
                        continue
                    for rows in rows_list:
                        batch = sfn(rows)
                        md = {k: v for _, k, v in extra_set}
                        data = raw.frame_request(mval, batch, metadata=md, request_version=vval)
                        case = {
                            "part": "A", "method": mname, "version": vname, "extras": [[e[0], "FOREIGN" if e[2] == foreign.encode() else e[2].hex()] for e in extra_set],
                            "columns": sname, "rows": rows, "external": external,
                        }
                        one_a(ctx, link[external], data, case)
    for lk in link.values():
        lk.drop()


def one_a(ctx: Ctx, lk: Link, data: bytes, case: dict[str, Any]) -> None:
    c = lk.get()
    tag = f"{case['method']}/{case['version']}/{','.join(e[0] for e in case['extras']) or '-'}/{case['columns']}/r{case['rows']}"
    if case["extras"]:
        # an extra metadata key is present: the class is the key(s) and value(s), whatever the method/columns
        cls = "extra:" + ",".join(sorted(f"{e[0]}={e[1]}" for e in case["extras"]))
    elif case["columns"] not in ("declared", "nullable", "none"):
        # an unusual column shape: the class is the shape, whatever the method / version
        cls = f"columns:{case['columns']}"
    else:
        cls = f"{case['method']}:{case['version']}:{case['columns']}"
    try:
        res = exchange_raw(c, data, headerless_stream=case["method"] == "produce")
    except mem.Deadlock as e:
        res = {"kind": "hang", "detail": str(e)}
    except Exception as e:  # noqa: BLE001 - EOF / invalid stream from a dead server
        res = {"kind": "closed", "detail": f"{type(e).__name__}: {str(e)[:120]}"}
    ctx.extra["partA_requests"] += 1
    bad = None
    if res["kind"] == "hang":
        bad = ("hang", f"well-framed request {tag}: client left waiting ({res.get('detail')})")
    elif res["kind"] == "closed":
        bad = ("conn-killed", f"well-framed request {tag}: connection ended without a response ({res.get('detail', 'EOF')})")
    elif not c.server_alive():
        bad = ("serve-loop-ended", f"well-framed request {tag}: answered but the serve loop ended")
    if bad is None:
        p = lk.probe()
        if p is not None:
            bad = ("hang-after" if p.startswith("HANG") else "probe-after", f"after well-framed request {tag}: {p}")
    dispatched = res["kind"] == "stream" or (res["kind"] == "reply" and res["resp"]["error"] is None)
    if dispatched:
        ctx.extra["partA_dispatched"] += 1
    outcome = (res["kind"], (res.get("resp") or {}).get("error", {}) and res["resp"]["error"].get("type"), bad and bad[0])
    ctx.case(
        sample=case if ctx.extra["partA_requests"] % 1500 == 1 else None,
        nontrivial=(case["method"], case["version"], tuple(e[0] + e[1] for e in case["extras"]), case["columns"], case["rows"]),
        outcome=outcome,
    )
    if bad is not None:
        ctx.fail(f"{bad[0]}:{cls}", bad[1], case)
        lk.drop()


def valid_request() -> bytes:
    return raw.frame_request(b"echo", pa.RecordBatch.from_pydict({"n": [7]}, schema=pa.schema([pa.field("n", pa.int64())])))


def part_b_cases(ctx: Ctx) -> list[dict[str, Any]]:
    v = valid_request()
    cases: list[dict[str, Any]] = [{"part": "B", "kind": "prefix", "n": k} for k in range(0, len(v))]
    for off in range(min(256, len(v))):
        for val in (0x00, 0xFF, v[off] ^ 0x01):
            if val != v[off]:
                cases.append({"part": "B", "kind": "subst", "off": off, "val": val})
    if ctx.thorough:
        for off in range(256, len(v)):
            cases.append({"part": "B", "kind": "subst", "off": off, "val": v[off] ^ 0x80})
    return cases


def one_b(ctx: Ctx, case: dict[str, Any]) -> None:
    v = valid_request()
    if case["kind"] == "prefix":
        data = v[: case["n"]]
    else:
        b = bytearray(v)
        b[case["off"]] = case["val"]
        data = bytes(b)
    bad = None
    outcome: Any = None
    with Conn("mem") as c:
        try:
            if data:
                c.ct.writer.write(data)
            st = mem.wait_reply_or_idle(c.ct)
            if st == "idle":
                c.ct.writer.close()  # nothing more will come from this client
                st = mem.wait_reply_or_idle(c.ct)
                if st == "idle":
                    bad = ("hang", "server still waiting after the client half-closed")
            if bad is None and st == "reply":
                try:
                    resp = raw.classify(raw.read_stream(c.ct.reader))
                    outcome = ("reply", resp["error"] and resp["error"]["type"])
                except mem.Deadlock as e:
                    bad = ("hang", f"reply never completed: {e}")
                except Exception as e:  # noqa: BLE001
                    outcome = ("garbled-reply", type(e).__name__)
                if bad is None and c.server_alive() and not c.ct.hub.wclosed["client"]:
                    n = 9000
                    try:
                        got = c.proxy.echo(n=n)
                        if got != n:
                            bad = ("probe-after", f"probe returned {got!r}")
                    except mem.Deadlock as e:
                        bad = ("hang-after", f"probe blocked forever: {e}")
                    except Exception:
                        pass  # the connection ended: allowed for non-IPC bytes
            elif bad is None:
                outcome = ("closed",)
        except TimeoutError:
            bad = ("hang", "neither reply nor idle nor closed")
    desc = f"prefix of {case['n']} bytes" if case["kind"] == "prefix" else f"byte {case['off']} := {case['val']:#04x}"
    ctx.extra["partB_inputs"] = ctx.extra.get("partB_inputs", 0) + 1
    ctx.case(
        sample=case if ctx.extra["partB_inputs"] % 300 == 1 else None,
        nontrivial=("B", case["kind"], case.get("n", case.get("off")), case.get("val")),
        outcome=("B", outcome, bad and bad[0]),
    )
    if bad is not None:
        region = (case.get("n", case.get("off")) or 0) // 64
        ctx.fail(f"notipc-{bad[0]}:{case['kind']}:region{region}", f"non-IPC input ({desc}): {bad[1]}", case)


def make_foreign() -> shared_memory.SharedMemory:
    seg = shared_memory.SharedMemory(create=True, size=4096, name=f"vf_foreign_{uuid.uuid4().hex[:8]}")
    seg.buf[:16] = b"NOTAVGISEGMENT!!"
    return seg


# ------------------------------------------------------------------------------ part S: contents behind a shm pointer
class _Tint(enum.Enum):
    RED = "r"
    GREEN = "g"


@dataclasses.dataclass(frozen=True)
class _Pt(ArrowSerializableDataclass):
    x: int
    y: float


class ShmSvc(Protocol):
    """Unary methods: plain, with an enum (= dictionary-encoded) parameter, with a dataclass (= embedded IPC stream) one."""

    def shape(self, p: _Pt, k: int) -> float:
        """Use a dataclass parameter."""
        ...

    def plain(self, n: int) -> int:
        """Echo."""
        ...

    def tagged(self, a: int, e: _Tint) -> str:
        """Describe."""
        ...


class ShmImpl:
    def shape(self, p: _Pt, k: int) -> float:
        return p.x * p.y + k

    def plain(self, n: int) -> int:
        return n

    def tagged(self, a: int, e: _Tint) -> str:
        return f"{a}:{e.name}"


def part_s_cases() -> list[dict[str, Any]]:
    """A well-framed zero-row pointer request (declared schema, real client-owned segment) x what the region holds."""
    contents = [
        "valid", "zeros64", "ones64", "text64", "empty", "truncated-half", "truncated-8", "other:int32", "other:string", "other:large-string+dict",
        "other:dict-only", "other:two-int64", "other:declared-of-the-other-method", "valid-then-garbage", "offset-past-end", "length-past-end",
        "no-length-key", "no-offset-key", "offset-not-a-number", "length-negative", "tiny-segment-8", "tiny-segment-24", "segment-size-lie",
    ]
    cases = [{"part": "S", "method": m, "content": c} for m in ("plain", "tagged") for c in contents]
    # part D: an INLINE, well-framed, correctly typed request whose dataclass column (binary = an embedded IPC stream)
    # holds each of these byte strings
    cases += [{"part": "S", "method": "shape", "content": c} for c in D_CONTENTS]
    return cases


D_CONTENTS = [
    "d:valid", "d:no-batch", "d:empty-bytes", "d:garbage", "d:schema-only-truncated", "d:two-batches", "d:zero-rows", "d:two-rows", "d:other-schema",
    "d:missing-field", "d:extra-field", "d:null-in-field", "d:valid-plus-trailing-bytes", "d:eos-only",
]


def _d_value(content: str) -> bytes:
    """Bytes for the dataclass column of ``shape``."""
    sch = pa.schema([pa.field("x", pa.int64(), nullable=False), pa.field("y", pa.float64(), nullable=False)])

    def stream(schema: pa.Schema, batches: list[pa.RecordBatch]) -> bytes:
        b = io.BytesIO()
        with pa.ipc.new_stream(b, schema) as w:
            for x in batches:
                w.write_batch(x)
        return b.getvalue()

    one = pa.RecordBatch.from_pydict({"x": [3], "y": [1.5]}, schema=sch)
    if content == "d:valid":
        return stream(sch, [one])
    if content == "d:no-batch":
        return stream(sch, [])
    if content == "d:empty-bytes":
        return b""
    if content == "d:garbage":
        return b"\x13\x37" * 40
    if content == "d:schema-only-truncated":
        return stream(sch, [])[:-8]
    if content == "d:two-batches":
        return stream(sch, [one, one])
    if content == "d:zero-rows":
        return stream(sch, [one.slice(0, 0)])
    if content == "d:two-rows":
        return stream(sch, [pa.RecordBatch.from_pydict({"x": [3, 4], "y": [1.5, 2.5]}, schema=sch)])
    if content == "d:other-schema":
        return stream(pa.schema([pa.field("x", pa.utf8()), pa.field("y", pa.utf8())]), [pa.RecordBatch.from_pydict({"x": ["a"], "y": ["b"]})])
    if content == "d:missing-field":
        return stream(pa.schema([pa.field("x", pa.int64())]), [pa.RecordBatch.from_pydict({"x": [3]})])
    if content == "d:extra-field":
        s3 = pa.schema([*sch, pa.field("z", pa.int64())])
        return stream(s3, [pa.RecordBatch.from_pydict({"x": [3], "y": [1.5], "z": [9]}, schema=s3)])
    if content == "d:null-in-field":
        s2 = pa.schema([pa.field("x", pa.int64()), pa.field("y", pa.float64())])
        return stream(s2, [pa.RecordBatch.from_pydict({"x": [None], "y": [1.5]}, schema=s2)])
    if content == "d:valid-plus-trailing-bytes":
        return stream(sch, [one]) + b"trailing"
    if content == "d:eos-only":
        return b"\xff\xff\xff\xff\x00\x00\x00\x00"
    raise AssertionError(content)


def _s_payload(method: str, content: str) -> tuple[Any, bytes | None]:
    """-> (batch to place through allocate_and_write | None, raw bytes to place | None)."""
    d = pa.dictionary(pa.int16(), pa.utf8())
    decl = {
        "plain": lambda: pa.RecordBatch.from_arrays([pa.array([7], pa.int64())], schema=pa.schema([pa.field("n", pa.int64(), nullable=False)])),
        "tagged": lambda: pa.RecordBatch.from_arrays(
            [pa.array([7], pa.int64()), pa.array(["GREEN"]).dictionary_encode().cast(d)],
            schema=pa.schema([pa.field("a", pa.int64(), nullable=False), pa.field("e", d, nullable=False)]),
        ),
    }
    if content in (
        "valid", "truncated-half", "truncated-8", "valid-then-garbage", "offset-past-end", "length-past-end", "no-length-key", "no-offset-key",
        "offset-not-a-number", "length-negative", "tiny-segment-8", "tiny-segment-24", "segment-size-lie",
    ):
        return decl[method](), None
    if content == "zeros64":
        return None, b"\x00" * 64
    if content == "ones64":
        return None, b"\xff" * 64
    if content == "text64":
        return None, (b"not an arrow stream " * 4)[:64]
    if content == "empty":
        return None, b""
    if content == "other:int32":
        return pa.RecordBatch.from_pydict({"n": pa.array([7], pa.int32())}), None
    if content == "other:string":
        return pa.RecordBatch.from_pydict({"n": pa.array(["seven"])}), None
    if content == "other:large-string+dict":
        return pa.RecordBatch.from_arrays([pa.array(["GREEN"], pa.large_utf8()), pa.array(["GREEN"]).dictionary_encode().cast(d)], names=["a", "e"]), None
    if content == "other:dict-only":
        return pa.RecordBatch.from_arrays([pa.array(["GREEN"]).dictionary_encode().cast(d)], names=["e"]), None
    if content == "other:two-int64":
        return pa.RecordBatch.from_pydict({"a": pa.array([1], pa.int64()), "e": pa.array([2], pa.int64())}), None
    if content == "other:declared-of-the-other-method":
        return decl["tagged" if method == "plain" else "plain"](), None
    raise AssertionError(content)


def _s_child(case: dict[str, Any]) -> dict[str, Any]:
    """Runs in a forked child: build segment + request + probe, serve to EOF, report what came back."""
    import logging

    from vgi_rpc.rpc import RpcServer, rpc_methods
    from vgi_rpc.shm import ShmSegment, make_shm_pointer_batch

    logging.getLogger("vgi_rpc").setLevel(logging.CRITICAL)
    seg = ShmSegment.create(1 << 18)
    try:
        method, content = case["method"], case["content"]
        if method == "shape":
            psch = rpc_methods(ShmSvc)["shape"].params_schema
            inline = pa.RecordBatch.from_arrays([pa.array([_d_value(content)], psch.field("p").type), pa.array([2], pa.int64())], schema=psch)
            return _s_serve(raw.frame_request("shape", inline), rpc_methods)
        batch, rawbytes = _s_payload(method, content)
        if batch is not None:
            off, ln = seg.allocate_and_write(batch)
        else:
            assert rawbytes is not None
            # place raw bytes: reserve a region with a dummy batch, then overwrite its start
            dummy = pa.RecordBatch.from_pydict({"pad": pa.array([b"\x00" * 256], pa.binary())})
            off, _ln = seg.allocate_and_write(dummy)
            seg.buf[off : off + len(rawbytes)] = rawbytes
            ln = len(rawbytes)
        if content == "truncated-half":
            ln = ln // 2
        elif content == "truncated-8":
            ln = 8
        elif content == "valid-then-garbage":
            seg.buf[off + ln - 8 : off + ln] = b"\xde\xad\xbe\xef" * 2
        elif content == "offset-past-end":
            off = seg.size + 4096
        elif content == "length-past-end":
            ln = seg.size * 2
        psch = rpc_methods(ShmSvc)[method].params_schema
        pb, pcm = make_shm_pointer_batch(psch, off, ln)
        md = {b"vgi_rpc.shm_segment_name": seg.name.encode(), b"vgi_rpc.shm_segment_size": str(seg.size).encode()}
        md.update(dict(pcm.items()))
        tiny = None
        if content == "no-length-key":
            del md[b"vgi_rpc.shm_length"]
        elif content == "no-offset-key":
            del md[b"vgi_rpc.shm_offset"]
        elif content == "offset-not-a-number":
            md[b"vgi_rpc.shm_offset"] = b"12x"
        elif content == "length-negative":
            md[b"vgi_rpc.shm_length"] = b"-64"
        elif content == "segment-size-lie":
            md[b"vgi_rpc.shm_segment_size"] = str(seg.size * 4).encode()
        elif content.startswith("tiny-segment-"):
            # a real, client-owned POSIX segment that is too small to hold the allocator header
            tiny = shared_memory.SharedMemory(create=True, size=int(content.rsplit("-", 1)[1]))
            md[b"vgi_rpc.shm_segment_name"] = tiny.name.encode()
            md[b"vgi_rpc.shm_segment_size"] = str(tiny.size).encode()
        req = raw.frame_request(method, pb, metadata=md)
        out = _s_serve(req, rpc_methods)
        if tiny is not None:
            tiny.close()
            tiny.unlink()
        return out
    finally:
        for fn in (seg.unlink, seg.close):
            try:
                fn()
            except Exception:  # noqa: BLE001
                pass


def _s_serve(req: bytes, rpc_methods: Any) -> dict[str, Any]:
    """Write request + probe up-front, run the real serve loop to EOF, parse what came back."""
    from vgi_rpc.rpc import RpcServer

    probe = raw.frame_request("plain", pa.RecordBatch.from_arrays([pa.array([4242], pa.int64())], schema=rpc_methods(ShmSvc)["plain"].params_schema))
    ct, st = mem.make_mem_pair()
    ct.writer.write(req + probe)
    ct.writer.close()
    exc = None
    try:
        RpcServer(ShmSvc, ShmImpl(), server_id="s").serve(st)
    except BaseException as e:  # noqa: BLE001
        exc = f"{type(e).__name__}: {str(e)[:160]}"
    st.close()
    data = ct.reader.read()
    ct.close()
    out: dict[str, Any] = {"serve_exc": exc, "answers": []}
    buf = io.BytesIO(data)
    while buf.tell() < len(data) and len(out["answers"]) < 3:
        try:
            c = raw.classify(raw.read_stream(buf))
            out["answers"].append({"error": None if c["error"] is None else c["error"].get("type"), "data": [list(d.values()) for d in c["data"]][:2]})
        except Exception as e:  # noqa: BLE001
            out["answers"].append({"undecodable": f"{type(e).__name__}: {str(e)[:100]}"})
            break
    return out


def one_s(ctx: Ctx, case: dict[str, Any]) -> None:
    """Fork, run the case in the child (a native abort there must not take the check down), judge in the parent."""
    import json as _json
    import os
    import signal

    rfd, wfd = os.pipe()
    pid = os.fork()
    if pid == 0:
        code = 0
        try:
            os.close(rfd)
            signal.alarm(60)
            res = _s_child(case)
            os.write(wfd, _json.dumps(res, default=str).encode())
        except BaseException as e:  # noqa: BLE001
            try:
                os.write(wfd, _json.dumps({"child_exc": f"{type(e).__name__}: {str(e)[:200]}"}).encode())
            except Exception:  # noqa: BLE001
                pass
            code = 3
        finally:
            os._exit(code)
    os.close(wfd)
    chunks = []
    while True:
        b = os.read(rfd, 65536)
        if not b:
            break
        chunks.append(b)
    os.close(rfd)
    _pid, status = os.waitpid(pid, 0)
    tag = f"{case['method']}:{case['content']}"
    ctx.extra["partS_requests"] = ctx.extra.get("partS_requests", 0) + 1
    if os.WIFSIGNALED(status):
        sig = os.WTERMSIG(status)
        ctx.case(nontrivial=("S", tag, "signal"), outcome=("S", "signal", sig))
        ctx.fail(
            f"process-died:shm-content:{case['content']}", f"a well-framed pointer request ({tag}) killed the SERVER PROCESS with signal {sig} "
            f"({'abort' if sig == 6 else 'timeout' if sig == 14 else 'signal'}) instead of being answered", case,
        )
        return
    try:
        res = _json.loads(b"".join(chunks) or b"{}")
    except ValueError:
        res = {}
    if "child_exc" in res or not res:
        raise HarnessError(f"part S child failed for {tag}: {res.get('child_exc')}")
    ans = res["answers"]
    first = ans[0] if ans else None
    probe_ok = len(ans) >= 2 and ans[1].get("error") is None and ans[1].get("data") == [[[4242]]]
    kind = "none" if first is None else ("undecodable" if "undecodable" in first else ("error:" + str(first["error"]) if first["error"] else "ok"))
    if kind == "ok":
        ctx.extra["partS_dispatched"] = ctx.extra.get("partS_dispatched", 0) + 1
    ctx.case(
        sample={"case": case, "first": first, "probe_ok": probe_ok} if case["content"] in ("valid", "other:large-string+dict") else None,
        nontrivial=("S", tag, kind), outcome=("S", kind, probe_ok, res["serve_exc"] is not None),
    )
    if case["content"] in ("valid", "d:valid") and kind != "ok":
        ctx.fail(f"valid-shm-request-refused:{case['method']}", f"{tag}: a valid request routed through the segment was answered {first}", case)
    if first is None or "undecodable" in (first or {}):
        ctx.fail(f"no-answer:shm-content:{case['content']}", f"{tag}: no complete response or typed error stream for the request (got {first}); serve() raised {res['serve_exc']}", case)
    elif not probe_ok or res["serve_exc"] is not None:
        ctx.fail(
            f"conn-killed:shm-content:{case['content']}", f"{tag}: the request was answered ({kind}) but the connection did not keep serving: "
            f"serve() raised {res['serve_exc']}, probe answer {ans[1] if len(ans) > 1 else None}", case,
        )


def run(ctx: Ctx) -> None:
    # part S first: it forks, and must do so before part A starts server threads in this process
    for case in part_s_cases():
        if not ctx.mine():
            continue
        one_s(ctx, case)
    seg = make_foreign()
    try:
        part_a(ctx, seg.name)
        for case in part_b_cases(ctx):
            if not ctx.mine():
                continue
            one_b(ctx, case)
    finally:
        seg.close()
        seg.unlink()


def replay(ctx: Ctx, case: dict[str, Any]) -> None:
    ctx.extra.setdefault("partA_requests", 0)
    ctx.extra.setdefault("partA_dispatched", 0)
    if case["part"] == "B":
        one_b(ctx, case)
        return
    if case["part"] == "S":
        one_s(ctx, case)
        return
    seg = make_foreign()
    try:
        mval = dict(methods())[case["method"]]
        vval = dict(VERSIONS)[case["version"]]
        keys = {e[0]: e[1] for e in extras(seg.name)}
        keys.update({"shm_size": b"vgi_rpc.shm_segment_size", "shm_offset": b"vgi_rpc.shm_offset", "shm_length": b"vgi_rpc.shm_length"})
        md = {}
        for name, hexv in case["extras"]:
            md[keys[name]] = seg.name.encode() if hexv == "FOREIGN" else bytes.fromhex(hexv)
        shapes = dict(column_shapes(case["method"] if case["method"] == "echo" else "produce"))
        data = raw.frame_request(mval, shapes[case["columns"]](case["rows"]), metadata=md, request_version=vval)
        lk = Link(case["external"])
        one_a(ctx, lk, data, case)
        lk.drop()
    finally:
        seg.close()
        seg.unlink()

"""C09 — Protocol-version gate admits exactly matching major.minor (E1: exhaustive input grid).

Every request is *hand-framed* with pyarrow (schema + one batch carrying the custom metadata
``vgi_rpc.method`` / ``vgi_rpc.request_version`` / ``vgi_rpc.protocol_version``), because the client proxies
validate their own version and can never send a malformed one.  The same bytes are given to

  * the socket dispatch path: the real ``RpcServer.serve`` loop over a ``MemTransport`` (request bytes written
    up-front, client writer closed, the loop run to EOF in the calling thread — no free-running thread), and
  * the HTTP dispatch path: the real WSGI app through ``make_sync_client`` (``POST /{m}``, ``POST /{m}/init``).

Reference model (written from docs/WIRE_PROTOCOL.md "protocol_version" and the property statement, not from
the repo's regex): a character-level recogniser — UTF-8 decodable, exactly three '.'-separated components,
each one or more of the ASCII digits 0-9 with no leading zero unless the component is the single digit 0,
nothing before/after — plus "same major and same minor".  Direction rule: (major, minor) lexicographically
smaller is the side that must upgrade.

Oracle (weakest reading):
  * server declares no version  -> every value (absent, garbage, non-UTF-8) is dispatched;
  * ``__describe__``             -> always answered, never refused;
  * otherwise dispatched  <=>  model accepts; "dispatched" is read off the implementation's own call log;
  * a refusal carries error kind ``protocol_version_mismatch``, its message contains the server version and
    (when the client value is decodable text) the client value; for two canonical versions it contains the
    word "upgrade" and the first of the words client/server after "Direction:" is the side the rule names;
  * HTTP refusals are status 400; socket and HTTP refusals have identical error type / message / kind.
Nothing else (request ids, server ids, tracebacks) is compared.
"""

from __future__ import annotations

import io
import itertools
import json
from dataclasses import dataclass
from typing import Any, Protocol

import pyarrow as pa

from vgi_rpc.rpc import ProducerState, RpcServer, Stream

from vf.core.runner import Ctx
from vf.kit import mem

PROPERTY = "C09"
LEVEL = "exploration"
ENGINE = "E1-SEQ"
SHARDS = {"quick": 8, "thorough": 16}
RULE = (
    "server version in {none} U G^3 (G={0,1,10} quick, {0,1,2,10} thorough) x client metadata value in G^3 canonical "
    "versions U a malformed corpus of templates instantiated on the server's own version (so a lenient parser would "
    "match) U raw byte values x {unary, stream, __describe__} x {socket serve loop, HTTP}; one evaluation = one "
    "hand-framed request executed on one path; non-trivial class = (server has version, client class, method, path, verdict)"
)
TECHNIQUE = "exhaustive enumeration of the (server version, client metadata bytes, method kind, dispatch path) grid against a character-level semver recogniser"
LEVEL_TEXT = (
    "The gate is a total function of (server version, client bytes); every pair of the stated grid and corpus is "
    "executed through the real serve loop and the real WSGI app and compared with an independent recogniser, "
    "so agreement is established for the whole stated space rather than for representative pairs."
)
LEVEL_NOTE = (
    "Strings outside the corpus are not covered; the corpus is built from the server's own version by 60+ lexical "
    "perturbations (whitespace, sign, prefix, suffix, leading zero, component count, non-ASCII digits, byte garbage)."
)
ASSUMPTIONS = [
    "the implementation call log (a list appended to by the service methods) is the observation of 'dispatched'",
    "pyarrow's IPC writer is trusted to frame the request bytes",
    "HTTP is exercised through falcon's in-process TestClient (no real socket)",
]

ARROW_CT = "application/vnd.apache.arrow.stream"
LOG: list[Any] = []
OUT = pa.schema([pa.field("i", pa.int64())])


@dataclass
class GenState(ProducerState):
    """Producer that finishes at once."""

    n: int

    def produce(self, out: Any, ctx: Any) -> None:
        LOG.append(["produce", self.n])
        out.finish()


def make_server(ver: str | None) -> Any:
    class VSvc(Protocol):
        def ping(self, x: int) -> int: ...

        def gen(self, n: int) -> Stream[GenState]: ...

    if ver is not None:
        VSvc.protocol_version = ver  # type: ignore[attr-defined]

    class Impl:
        def ping(self, x: int) -> int:
            LOG.append(["ping", x])
            return x + 1

        def gen(self, n: int) -> Stream[GenState]:
            LOG.append(["gen", n])
            return Stream(output_schema=OUT, state=GenState(n=n))

    return RpcServer(VSvc, Impl(), enable_describe=True, server_id="srv")


# ------------------------------------------------------------------------------ reference model

ASCII_DIGITS = "0123456789"


def recognise(b: bytes | None) -> tuple[int, int, int] | None:
    """Character-level canonical MAJOR.MINOR.PATCH recogniser (None = not canonical)."""
    if b is None:
        return None
    try:
        s = b.decode("utf-8", "strict")
    except UnicodeDecodeError:
        return None
    parts = s.split(".")
    if len(parts) != 3:
        return None
    out = []
    for p in parts:
        if len(p) == 0:
            return None
        v = 0
        for ch in p:
            k = ASCII_DIGITS.find(ch)
            if k < 0:
                return None
            v = v * 10 + k
        if len(p) > 1 and p[0] == "0":
            return None
        out.append(v)
    return (out[0], out[1], out[2])


def model(server: tuple[int, int, int] | None, client: bytes | None, method: str) -> str:
    """'dispatch' | 'refuse'."""
    if server is None or method == "describe":
        return "dispatch"
    c = recognise(client)
    if c is not None and c[0] == server[0] and c[1] == server[1]:
        return "dispatch"
    return "refuse"


# ------------------------------------------------------------------------------ client value corpus

AI = "".join(chr(0x0660 + k) for k in range(10))  # Arabic-Indic digits
FW = "".join(chr(0xFF10 + k) for k in range(10))  # full-width digits


def _last_digit_swapped(n: int, table: str) -> str | None:
    s = str(n)
    if len(s) < 2:
        return None
    return s[:-1] + table[int(s[-1])]


def templates(M: int, m: int, p: int) -> list[tuple[str, bytes | None]]:
    v = f"{M}.{m}.{p}"
    t: list[tuple[str, bytes | None]] = [("absent", None)]

    def add(name: str, s: str | bytes | None) -> None:
        if s is None:
            return
        t.append((name, s if isinstance(s, bytes) else s.encode("utf-8")))

    add("empty", "")
    add("trailing-newline", v + "\n")
    add("trailing-crlf", v + "\r\n")
    add("trailing-2newline", v + "\n\n")
    add("leading-newline", "\n" + v)
    add("leading-space", " " + v)
    add("trailing-space", v + " ")
    add("trailing-tab", v + "\t")
    add("inner-space", f"{M}. {m}.{p}")
    add("trailing-nul", v + "\x00")
    add("trailing-nbsp", v + "\u00a0")
    add("trailing-linesep", v + "\u2028")
    add("trailing-nel", v + "\u0085")
    add("trailing-vt", v + "\x0b")
    add("trailing-ff", v + "\x0c")
    add("bom-prefix", "\ufeff" + v)
    add("prerelease", v + "-rc1")
    add("prerelease-num", v + "-0")
    add("build", v + "+build")
    add("build-num", v + "+1")
    add("pre-and-build", v + "-rc1+b")
    add("lead0-major", f"0{M}.{m}.{p}")
    add("lead0-minor", f"{M}.0{m}.{p}")
    add("lead0-patch", f"{M}.{m}.0{p}")
    add("lead00-major", f"00{M}.{m}.{p}")
    add("two-components", f"{M}.{m}")
    add("one-component", f"{M}")
    add("four-components", v + ".0")
    add("trailing-dot", v + ".")
    add("leading-dot", "." + v)
    add("double-dot", f"{M}..{m}.{p}")
    add("prefix-v", "v" + v)
    add("prefix-V", "V" + v)
    add("plus-major", "+" + v)
    add("minus-major", "-" + v)
    add("plus-minor", f"{M}.+{m}.{p}")
    add("minus-minor", f"{M}.-{m}.{p}")
    add("minus-patch", f"{M}.{m}.-{p}")
    add("commas", f"{M},{m},{p}")
    add("x-patch", f"{M}.{m}.x")
    add("star-patch", f"{M}.{m}.*")
    add("x-minor", f"{M}.x.{p}")
    add("letters", "a.b.c")
    add("suffix-letter", v + "a")
    add("exp-major", f"{M}e0.{m}.{p}")
    add("hex-major", f"0x{M}.{m}.{p}")
    add("underscore", f"{M}_0.{m}.{p}" if M else f"0_0.{m}.{p}")
    add("float-patch", f"{M}.{m}.{p}.0e0")
    add("quoted", f'"{v}"')
    add("all-arabic-indic", "".join(AI[int(c)] if c.isdigit() else c for c in v))
    add("all-fullwidth", "".join(FW[int(c)] if c.isdigit() else c for c in v))
    # mixed digits: an ASCII first digit followed by a non-ASCII digit denotes the same number to int()
    for nm, tbl in (("arabic-indic", AI), ("fullwidth", FW)):
        x = _last_digit_swapped(M, tbl)
        add(f"mixed-{nm}-major", None if x is None else f"{x}.{m}.{p}")
        x = _last_digit_swapped(m, tbl)
        add(f"mixed-{nm}-minor", None if x is None else f"{M}.{x}.{p}")
        x = _last_digit_swapped(p, tbl)
        add(f"mixed-{nm}-patch", None if x is None else f"{M}.{m}.{x}")
    add("fullwidth-dot", f"{M}\uff0e{m}\uff0e{p}")
    # byte values (not text)
    add("bytes-ff", b"\xff")
    add("bytes-nul", b"\x00")
    add("bytes-80", b"\x80")
    add("bytes-overlong", b"\xc0\xaf")
    add("bytes-surrogate", b"\xed\xa0\x80")
    add("bytes-suffix-ff", v.encode() + b"\xff")
    add("bytes-prefix-80", b"\x80" + v.encode())
    add("bytes-utf16le", v.encode("utf-16-le"))
    add("bytes-utf16-bom", v.encode("utf-16"))
    add("bytes-truncated-mb", v.encode() + b"\xe2\x82")
    return t


def grid(ctx: Ctx) -> list[int]:
    return [0, 1, 10] if ctx.quick else [0, 1, 2, 10]


# ------------------------------------------------------------------------------ framing / transport

EMPTY = pa.schema([])
PING = pa.schema([pa.field("x", pa.int64(), nullable=False)])
GEN = pa.schema([pa.field("n", pa.int64(), nullable=False)])
METHODS = {"unary": ("ping", PING, {"x": 41}), "stream": ("gen", GEN, {"n": 3}), "describe": ("__describe__", EMPTY, {})}


def frame(method: str, schema: pa.Schema, row: dict[str, Any], ver: bytes | None) -> bytes:
    buf = io.BytesIO()
    md = {b"vgi_rpc.method": method.encode(), b"vgi_rpc.request_version": b"1"}
    if ver is not None:
        md[b"vgi_rpc.protocol_version"] = ver
    arrays = [pa.array([row[f.name]], type=f.type) for f in schema]
    batch = pa.RecordBatch.from_arrays(arrays, schema=schema)
    with pa.ipc.new_stream(buf, schema) as w:
        w.write_batch(batch, custom_metadata=pa.KeyValueMetadata(md))
    return buf.getvalue()


def tick_stream() -> bytes:
    buf = io.BytesIO()
    with pa.ipc.new_stream(buf, EMPTY) as w:
        w.write_batch(pa.RecordBatch.from_arrays([], schema=EMPTY))
    return buf.getvalue()


TICK = tick_stream()


def first_stream(data: bytes) -> dict[str, Any]:
    """Decode the first IPC stream of *data*: rows of data batches and the error batch if any."""
    res: dict[str, Any] = {"ok": False, "rows": 0, "error": None, "values": []}
    try:
        r = pa.ipc.open_stream(io.BytesIO(data))
        while True:
            try:
                b, cm = r.read_next_batch_with_custom_metadata()
            except StopIteration:
                break
            lvl = cm.get(b"vgi_rpc.log_level") if cm is not None else None
            if lvl is not None:
                if lvl == b"EXCEPTION":
                    extra = {}
                    try:
                        extra = json.loads(cm.get(b"vgi_rpc.log_extra") or b"{}")
                    except Exception:
                        pass
                    kind = cm.get(b"vgi_rpc.error_kind")
                    res["error"] = {
                        "type": extra.get("exception_type"),
                        "message": (cm.get(b"vgi_rpc.log_message") or b"").decode("utf-8", "replace"),
                        "kind": None if kind is None else kind.decode("utf-8", "replace"),
                    }
                continue
            res["rows"] += b.num_rows
            if b.num_rows and b.num_columns:
                res["values"].append(b.column(0)[0].as_py())
        res["ok"] = True
    except Exception as e:  # noqa: BLE001
        res["decode_error"] = repr(e)[:200]
    return res


def run_socket(server: Any, req: bytes, is_stream: bool) -> dict[str, Any]:
    ct, st = mem.make_mem_pair()
    ct.writer.write(req + (TICK if is_stream else b""))
    ct.writer.close()
    exc = None
    try:
        server.serve(st)
    except BaseException as e:  # noqa: BLE001
        exc = e
    st.close()
    data = ct.reader.read()
    ct.close()
    out = first_stream(data)
    out["status"] = None
    if exc is not None:
        out["serve_exc"] = repr(exc)[:300]
    return out


def run_http(client: Any, mk: str, req: bytes) -> dict[str, Any]:
    name = METHODS[mk][0]
    path = f"/{name}/init" if mk == "stream" else f"/{name}"
    resp = client.post(path, content=req, headers={"Content-Type": ARROW_CT})
    out = first_stream(resp.content)
    out["status"] = resp.status_code
    return out


# ------------------------------------------------------------------------------ oracle


def observe(mk: str, log: list[Any], r: dict[str, Any]) -> str:
    """'dispatch' | 'refuse' | 'other:<why>' read from the implementation log and the response."""
    name, _, row = METHODS[mk]
    if mk == "describe":
        if r.get("ok") and r["error"] is None and r["rows"] > 0 and r["status"] in (None, 200):
            return "dispatch"
        return "refuse" if r["error"] is not None else "other:describe-unanswered"
    invoked = bool(log) and log[0] == [name, list(row.values())[0]]
    if invoked:
        if r["error"] is not None:
            return "other:invoked-but-error"
        if mk == "unary" and r["values"] != [42]:
            return "other:invoked-wrong-result"
        if r["status"] not in (None, 200):
            return f"other:invoked-status-{r['status']}"
        return "dispatch"
    if log:
        return "other:unexpected-log"
    if r["error"] is None:
        return "other:no-call-no-error"
    return "refuse"


def check_refusal(sv: str, sparts: tuple[int, int, int], client: bytes | None, r: dict[str, Any], http: bool) -> str | None:
    e = r["error"]
    if e["kind"] != "protocol_version_mismatch":
        return f"kind={e['kind']!r}"
    msg = e["message"]
    if sv not in msg:
        return "server-version-not-named"
    text = None
    if client is not None:
        try:
            text = client.decode("utf-8")
        except UnicodeDecodeError:
            text = None
    if text is not None and text not in msg:
        return "client-version-not-named"
    c = recognise(client)
    if c is not None:
        side = "client" if (c[0], c[1]) < (sparts[0], sparts[1]) else "server"
        tail = msg.split("Direction:", 1)[1] if "Direction:" in msg else msg.split(sv, 1)[-1]
        low = tail.lower()
        pc, ps = low.find("client"), low.find("server")
        first = None
        if pc >= 0 and (ps < 0 or pc < ps):
            first = "client"
        elif ps >= 0:
            first = "server"
        if "upgrade" not in low or first != side:
            return f"direction-not-{side}"
    if http and r["status"] != 400:
        return f"http-status-{r['status']}"
    return None


SITES = [("unary", "socket"), ("unary", "http"), ("stream", "socket"), ("stream", "http"), ("describe", "socket"), ("describe", "http")]


def supercase(ctx: Ctx, env: dict[str, Any], cls: str, client: bytes | None, sample: bool = False) -> None:
    """All 6 (method kind, path) observations for one (server version, client value)."""
    sv: str | None = env["ver"]
    sparts = env["parts"]
    rep = {"server": sv, "client_hex": None if client is None else client.hex(), "cls": cls}
    wrong: dict[str, list[str]] = {}
    results: dict[tuple[str, str], dict[str, Any]] = {}
    for mk, path in SITES:
        name, schema, row = METHODS[mk]
        req = frame(name, schema, row, client)
        del LOG[:]
        if path == "socket":
            r = run_socket(env["sock"], req, mk == "stream")
        else:
            r = run_http(env["http"], mk, req)
        log = list(LOG)
        want = model(sparts, client, mk)
        got = observe(mk, log, r)
        results[(mk, path)] = r
        site = f"{path}-{mk}"
        if got != want:
            what = {"dispatch": "accepted", "refuse": "refused"}.get(got, got)
            wrong.setdefault(what, []).append(site)
        elif got == "refuse":
            bad = check_refusal(sv or "", sparts, client, r, path == "http")
            if bad:
                wrong.setdefault("refusal-" + bad, []).append(site)
        if "serve_exc" in r:
            wrong.setdefault("serve-loop-raised", []).append(site)
        ctx.case(
            sample={"server": sv, "client": repr(client), "class": cls, "site": site, "model": want, "observed": got} if sample else None,
            nontrivial=(sv is not None, cls, mk, path, got),
            outcome=(got, None if r["error"] is None else r["error"]["kind"], r["status"]),
        )
    # socket and HTTP refuse identically
    for mk in ("unary", "stream"):
        a, b = results[(mk, "socket")], results[(mk, "http")]
        if a["error"] is not None and b["error"] is not None and a["error"] != b["error"]:
            if model(sparts, client, mk) == "refuse":
                wrong.setdefault("refusal-differs-between-paths", []).append(mk)
    fcls = "non-ascii-digit" if cls.startswith(("mixed-", "all-arabic", "all-fullwidth")) else cls
    for what, sites in wrong.items():
        gated = [s for s in sites if not s.endswith("describe")]
        where = "all" if len(gated) == 4 and len(sites) == 4 else "+".join(sorted(sites))
        ctx.fail(
            f"{what}:{fcls}:{where}",
            f"server protocol_version={sv!r}, client metadata value {client!r} ({cls}): {what} at {sorted(sites)}; "
            f"model says unary/stream => {model(sparts, client, 'unary')}, describe => dispatch",
            rep,
        )


def make_env(ver: str | None) -> dict[str, Any]:
    from vgi_rpc.http._testing import make_sync_client

    parts = None if ver is None else tuple(int(x) for x in ver.split("."))
    return {
        "ver": ver,
        "parts": parts,
        "sock": make_server(ver),
        "http": make_sync_client(make_server(ver), token_key=b"k" * 32),
    }


def client_values(ctx_quick: bool, parts: tuple[int, int, int] | None, g: list[int]) -> list[tuple[str, bytes | None]]:
    vals: list[tuple[str, bytes | None]] = []
    for c in itertools.product(g, g, g):
        if parts is None:
            cls = "canon"
        elif (c[0], c[1]) == (parts[0], parts[1]):
            cls = "canon-match"
        elif (c[0], c[1]) < (parts[0], parts[1]):
            cls = "canon-older"
        else:
            cls = "canon-newer"
        vals.append((cls, "%d.%d.%d" % c))  # type: ignore[arg-type]
    vals = [(cls, s.encode()) for cls, s in vals]  # type: ignore[union-attr]
    base = parts if parts is not None else (1, 10, 0)
    vals.extend(templates(*base))
    return vals


def quiet() -> None:
    """The serve loop logs a WARNING with a traceback at every EOF; keep the harness output small."""
    import logging

    logging.getLogger("vgi_rpc").setLevel(logging.CRITICAL)


def run(ctx: Ctx) -> None:
    quiet()
    g = grid(ctx)
    servers: list[str | None] = [None] + ["%d.%d.%d" % v for v in itertools.product(g, g, g)]
    ctx.extra.update({"servers": 0, "max_client_values": 0, "supercases": 0})
    nsample = 0
    for ver in servers:
        if not ctx.mine():
            continue
        env = make_env(ver)
        ctx.extra["servers"] += 1
        vals = client_values(ctx.quick, env["parts"], g)
        ctx.extra["max_client_values"] = max(ctx.extra["max_client_values"], len(vals))
        for i, (cls, client) in enumerate(vals):
            take = nsample < 3 and i in (1, len(vals) - 20)
            supercase(ctx, env, cls, client, sample=take)
            nsample += 1 if take else 0
            ctx.extra["supercases"] += 1


def replay(ctx: Ctx, case: dict[str, Any]) -> None:
    quiet()
    env = make_env(case["server"])
    client = None if case["client_hex"] is None else bytes.fromhex(case["client_hex"])
    supercase(ctx, env, case["cls"], client)

"""C37 — OAuth browser flow redirects only to safe origins (E1: exhaustive URL-grammar / cookie-mutation enumeration).

Seam: a real ``make_wsgi_app`` application with PKCE active (authenticate + OAuthResourceMetadata with client_id and
client_secret), driven by raw WSGI requests.  Only the two network seams are rebound: ``_create_oidc_discovery``
(returns fixed endpoints) and ``_exchange_code_for_token`` (records the call, returns fixed tokens); the module's
``time`` is a virtual clock.  Everything else (auth middleware, ``_OAuthPkceMiddleware.process_request`` /
``process_response``, cookie packing/unpacking, ``_OAuthCallbackResource``, logout) is the real code.

Parts (all exhaustive within the stated bounds):
  R  every string ``lead + t1..tk`` (k <= 4) of the return-to grammar is sent as ``_vgi_return_to`` through
     flow A (unauthenticated browser GET -> 302 to the authorization endpoint + session cookie -> callback with the
     matching state -> 302) and flow B (already authenticated: ``_vgi_auth`` cookie -> immediate 302); plus long
     loopback return-to URLs of 16 lengths (64 .. 4096, around 256 / 1024 / 2048) x 15 alignments whose userinfo repeats
     ``@evil.example:1``, so that a value validated whole and shortened anywhere afterwards resolves off-origin.
  P  every string ``lead + t1..tk`` (k <= 4) of the path grammar is used as the request path (PATH_INFO, i.e. after
     the server's percent-decoding) of flow A; the callback's same-origin redirect is judged.
  K  callback completion: for valid sessions every single-byte mutation (quick: xor 1; thorough: each of 8 bit
     flips) of the decoded cookie, every truncation, extensions, MAC swaps, a cookie sealed under another key,
     garbage values; cookie ages {0,1,599,600,601,86400,10**6,-1,-600}; state variants.
  L  logout redirect and the callback's non-redirect answers.

Oracle.  Every 3xx ``Location`` the application emits is resolved by an independent WHATWG URL reference
(``vf/kit/c37_whatwg.py``; backslash == slash for special schemes, tab/newline removed, userinfo up to the last
``@`` of the authority, IPv4/IPv6 host canonicalisation) against the URL of the request that produced it, and must
  * be the configured authorization endpoint (the first leg of flow A; the statement cannot mean to forbid it), or
  * resolve to the service's own origin with a path under the service prefix, or
  * resolve to an http(s) origin whose host is loopback (localhost, *.localhost, 127.0.0.0/8, [::1]; any port), or
  * resolve to exactly an allow-listed origin (scheme, host, effective port), or
  * be rejected by the URL parser (failure: a browser does not navigate, nothing is sent anywhere).
The strictest of these, "origin includes the port", is what *origin* means in the URL/HTML standards; a Location on an
allow-listed host with another port gets its own key so it can be triaged separately.  "Under the service prefix"
violations (same origin, but outside the prefix) are keyed separately from foreign-origin ones.
Callback: the token exchange happens / a token or auth cookie is issued ONLY IF the decoded cookie bytes are
unmodified, 0 <= age <= 600 s (age exactly 600 and negative ages may go either way) and the state is identical;
and a pristine fresh matching session DOES complete (so the check is not vacuous).
IDNA hosts are outside the reference's competence and are not in the alphabet (a Location it cannot classify is
reported as a cap, never silently passed).
"""

from __future__ import annotations

import base64
import itertools
import logging
import os
from typing import Any, Protocol
from urllib.parse import parse_qs, quote, urlsplit  # used on the harness's OWN well-formed URLs only (AS redirect)

from vf.core.runner import Ctx
from vf.kit import c37_whatwg as W
from vf.kit.c36_wsgi import Resp, call

PROPERTY = "C37"
LEVEL = "exploration"
ENGINE = "E1-SEQ"
SHARDS = {"quick": 16, "thorough": 16}
RULE = (
    "R: return-to strings lead+<=4 tokens (quick 6 leads x 12 tokens, prefix ''; thorough 16 leads x 17 tokens on "
    "prefix '' plus the quick grammar on prefix '/api'), each through flow A (3 requests) and flow B; plus 240 long "
    "return-to URLs (16 lengths 64..4096 x 15 alignments of a repeating '@evil.example:1' userinfo) through both flows; "
    "P: request paths lead+<=4 tokens (quick 14, thorough 18 tokens incl. the half-encoded dot segments .%2e and %2E.; leads '/', prefix, prefix+'/') through flow A on "
    "prefixes '' and '/api'; K: all single-byte mutations/truncations of the decoded session cookie, ages, state "
    "variants for 4 base sessions; L: logout and error answers. Every 3xx Location judged by the WHATWG reference. "
    "non-trivial = (implementation accepted?, reference class of the Location)"
)
TECHNIQUE = "exhaustive enumeration of a URL-string grammar and of cookie mutations against the real WSGI app, differential against an independent WHATWG URL parser"
LEVEL_TEXT = (
    "All strings of the stated token grammars (the tokens are exactly the constructs on which URL parsers are known to "
    "disagree: backslashes, userinfo, tabs/newlines, missing slashes, ports, percent-encoded delimiters) and all "
    "single-byte cookie mutations are executed through the real redirect flow; the property is an input->Location "
    "contract, so exhaustive grammar enumeration with a browser-conformant reference is the matching level."
)
LEVEL_NOTE = (
    "Trusted base: the hand-written WHATWG reference (self-tested on start) and the raw WSGI driver. Strings longer "
    "than 4 grammar tokens after the lead, hosts needing IDNA, and multi-byte cookie forgeries (beyond MAC swap / foreign key) are not covered."
)
ASSUMPTIONS = [
    "the redirect to the configured authorization endpoint is outside the statement's 'every redirect'",
    "a Location that the WHATWG parser rejects (failure) is safe: the browser does not navigate",
    "loopback = localhost, *.localhost, 127.0.0.0/8, [::1] with scheme http/https and any port",
    "PATH_INFO is what a WSGI server passes after percent-decoding the request target; QUERY_STRING is raw",
    "origin equality includes the effective port (URL/HTML standards)",
]

SVC_HOST = "svc.example"
AUTHZ = "https://as.example/authorize"
TOKEN_EP = "https://as.example/token"
ALLOWED_HOST = "cupola.query-farm.services"  # the framework's built-in default allowlist entry
ALLOWED = {("https", ALLOWED_HOST, 443)}
TOK, REFRESH, SECRET = "T0K3Nvalue", "R3FRESHvalue", "CL13NTSECRET"
T0 = 1_700_000_000
MAX_AGE = 600

# ------------------------------------------------------------------------------------------- grammars
R_LEADS_Q = ["http://", "https://", "http:", "http:\\\\", "//", ""]
R_LEADS_T = R_LEADS_Q + ["HTTP://", "http:/", "https:\\\\", "http:/\\", "https:", "\\\\", "/", "javascript:", "\thttp://", "ht\ttp://"]
R_TOK_Q = ["localhost", ALLOWED_HOST, "evil.example", "@", ":", "/", "\\", "?", "#", ":8443", "\t", "%5c"]
R_TOK_T = R_TOK_Q + ["127.0.0.1", "[::1]", "\n", " ", ":443"]
P_TOK_Q = ["/", "\\", "evil.example", "@", ":", "http:", "..", ".%2e", "%2E.", "\t", " ", "%5c", "?", "x"]
P_TOK_T = P_TOK_Q + ["localhost", ".", "%2e%2e", "\n"]
MAXK = 4


def r_items(ctx: Ctx) -> list[tuple[str, str, list[str], str | None]]:
    """Top-level work items of part R: (prefix, lead, alphabet, first token or None for the bare lead)."""
    out: list[tuple[str, str, list[str], str | None]] = []
    plans = [("", R_LEADS_Q, R_TOK_Q)] if ctx.quick else [("", R_LEADS_T, R_TOK_T), ("/api", R_LEADS_Q, R_TOK_Q)]
    for prefix, leads, toks in plans:
        for lead in leads:
            out.append((prefix, lead, toks, None))
            for t in toks:
                out.append((prefix, lead, toks, t))
    return out


def p_items(ctx: Ctx) -> list[tuple[str, str, list[str], str | None]]:
    out: list[tuple[str, str, list[str], str | None]] = []
    toks = P_TOK_Q if ctx.quick else P_TOK_T
    for prefix in ("", "/api"):
        for lead in (["/"] if prefix == "" else ["/", prefix, prefix + "/"]):
            out.append((prefix, lead, toks, None))
            for t in toks:
                out.append((prefix, lead, toks, t))
    return out


LONG_LENGTHS = (64, 128, 255, 256, 257, 512, 1000, 1024, 1500, 2000, 2040, 2047, 2048, 2049, 3000, 4096)
LONG_UNIT = "@evil.example:1"


def long_return_tos() -> list[str]:
    """Loopback return-to URLs of every length in LONG_LENGTHS whose userinfo repeats ``@evil.example:1``.

    The complete string names ``localhost`` (userinfo ends at the LAST ``@``), but almost every proper prefix of it names
    a foreign host, so a redirect built from a value that was validated whole and then shortened / re-assembled anywhere
    (cookie packing, header limits) resolves off-origin.  All ``len(unit)`` alignments are produced, so whatever the cut
    position, some string has a complete foreign host right before it.
    """
    out: list[str] = []
    head, tail = "http://", "@localhost:4321/cb"
    for n in LONG_LENGTHS:
        for r in range(len(LONG_UNIT)):
            body = ("u" * (r + 1) + LONG_UNIT * (n // len(LONG_UNIT) + 2))[: max(1, n - len(head) - len(tail))]
            out.append(head + body + tail)
    return out


def expand(lead: str, toks: list[str], first: str | None) -> Any:
    if first is None:
        yield lead
        return
    for k in range(0, MAXK):
        for rest in itertools.product(toks, repeat=k):
            yield lead + first + "".join(rest)


# ------------------------------------------------------------------------------------------- world
class _Svc(Protocol):
    def ping(self) -> str: ...


class _Impl:
    def ping(self) -> str:
        return "pong"


class VTime:
    """Stands in for the ``time`` module inside ``_oauth_pkce``."""

    now = T0

    @staticmethod
    def time() -> float:
        return float(VTime.now)

    @staticmethod
    def monotonic() -> float:
        return float(VTime.now)


EXCHANGES: list[dict[str, Any]] = []


def _fake_exchange(**kw: Any) -> tuple[str, int, str | None, str | None]:
    EXCHANGES.append(kw)
    return TOK, 3600, REFRESH, None


def _authenticate(req: Any) -> Any:
    from vgi_rpc.rpc import AuthContext

    who = (req.get_header("Authorization") or "").removeprefix("Bearer ").strip()
    if who != "goodbearer":
        raise ValueError("no credential")
    return AuthContext(domain="test", authenticated=True, principal="user@example.com")


_APPS: dict[tuple[str, bytes], Any] = {}
_READY = False
_CTX: Ctx | None = None


def prepare() -> None:
    global _READY
    if _READY:
        return
    logging.disable(logging.CRITICAL)
    W.selftest()
    import vgi_rpc.http._oauth_pkce as pk

    pk._create_oidc_discovery = lambda issuer: (lambda: (AUTHZ, TOKEN_EP))  # type: ignore[assignment]
    pk._exchange_code_for_token = _fake_exchange  # type: ignore[assignment]
    pk.time = VTime  # type: ignore[assignment]
    _READY = True


def get_app(prefix: str, key: bytes = b"k" * 32) -> Any:
    k = (prefix, key)
    if k not in _APPS:
        from vgi_rpc.http._oauth import OAuthResourceMetadata
        from vgi_rpc.http.server import make_wsgi_app
        from vgi_rpc.rpc import RpcServer

        meta = OAuthResourceMetadata(
            resource=f"http://{SVC_HOST}/", authorization_servers=("https://as.example",), client_id="cid", client_secret=SECRET
        )
        _APPS[k] = make_wsgi_app(RpcServer(_Svc, _Impl()), prefix=prefix, token_key=key, authenticate=_authenticate, oauth_resource_metadata=meta)
    return _APPS[k]


# ------------------------------------------------------------------------------------------- judging a Location
def base_for(path: str) -> W.Result:
    # the browser's current URL when it receives the redirect; PATH_INFO is decoded, the URL path is not, but
    # only absolute-path / absolute-URL Locations occur, for which the base path is irrelevant unless the Location
    # is path-relative (then judged "same origin" and the path check uses the raw base path)
    return W.make_base("http", SVC_HOST, None, path if path.startswith("/") else "/" + path)


def classify(loc: str, base: W.Result, prefix: str) -> tuple[str, str]:
    """-> (verdict, cls): verdict ok | bad | minor | unknown."""
    r = W.resolve(loc, base)
    if r.kind == "failure":
        return "ok", "no-navigation"
    if r.kind in ("nonspecial", "file"):
        return "bad", "non-http-scheme"
    if r.kind == "unclassified":
        return "unknown", "unclassified-host"
    if r.origin == ("http", SVC_HOST, 80):
        pn = r.pathname
        if prefix == "" or pn == prefix or pn.startswith(prefix + "/"):
            return "ok", "same-origin"
        return "minor", "outside-prefix"
    if r.scheme not in ("http", "https"):
        return "bad", "non-http-scheme"
    if W.is_loopback_host(r.host):
        return "ok", "loopback"
    if r.origin in ALLOWED:
        return "ok", "allowlisted"
    if any(r.scheme == a[0] and r.host == a[1] for a in ALLOWED):
        return "bad", "allowlisted-host-other-port"
    return "bad", "foreign-origin"


def _norm(s: str) -> str:
    """What the URL parser sees: leading/trailing C0-or-space stripped, tab/newline removed."""
    return "".join(ch for ch in s.strip("".join(map(chr, range(0x21)))) if ch not in "\t\n\r")


def cause(part: str, cls: str, inp: str, prefix: str) -> str:
    """Stable root-cause label for a finding key, derived from the shape of the offending input."""
    n = _norm(inp)
    if cls == "allowlisted-host-other-port":
        return "port-ignored"
    if cls == "outside-prefix":
        nxt = n[len(prefix):len(prefix) + 1] if n.startswith(prefix) else ""
        return "dot-segments" if nxt in ("", "/", "\\", "?", "#") else "prefix-boundary"
    if part == "original-url":
        run = n[: len(n) - len(n.lstrip("/\\"))]
        if "\\" in run:
            return "backslash-as-slash"
        if len(run) >= 3:
            return "extra-slashes"
        return "other"
    # return-to and the rest: does a backslash sit in what urllib takes for the authority?
    rest = n.split("//", 1)[1] if "//" in n else n
    auth = rest
    for d in "/?#":
        auth = auth.split(d, 1)[0]
    return "backslash-in-authority" if "\\" in auth else "other"


class Judge:
    def __init__(self, ctx: Ctx) -> None:
        self.ctx = ctx

    def location(self, part: str, what: str, r: Resp, req_path: str, prefix: str, inp: str, rep: Any) -> str:
        """Judge the Location of a 3xx response.  Returns the class (for coverage keys)."""
        ctx = self.ctx
        loc = r.get("location")
        if loc is None:
            ctx.fail(f"{part}:3xx-without-location", f"{r.status_line} without Location ({what}, input {inp!r})", rep)
            return "no-location"
        if "\r" in loc or "\n" in loc:
            ctx.extra["locations_with_crlf"] = ctx.extra.get("locations_with_crlf", 0) + 1
        verdict, cls = classify(loc, base_for(req_path), prefix)
        secret = any(x in loc for x in (TOK, REFRESH, SECRET, "goodbearer"))
        if verdict == "unknown":
            ctx.cap("Location with a host the reference cannot classify (IDNA)")
        elif verdict == "bad":
            ctx.fail(
                f"{part}:{cls}:{cause(part, cls, loc if part == 'original-url' else inp, prefix)}",
                f"{what}: input {inp!r} produced Location {loc[:160]!r} which a WHATWG browser resolves to "
                f"{W.resolve(loc, base_for(req_path)).origin} ({cls}); carries token/secret: {secret}",
                rep,
            )
        elif verdict == "minor":
            ctx.fail(
                f"{part}:outside-prefix:{cause(part, cls, loc, prefix)}",
                f"{what}: input {inp!r} produced same-origin Location {loc[:160]!r} resolving to path "
                f"{W.resolve(loc, base_for(req_path)).pathname!r}, outside the service prefix {prefix!r}",
                rep,
            )
        return cls


def session_cookie(r: Resp) -> str | None:
    for sc in r.get_all("set-cookie"):
        name, _, rest = sc.partition("=")
        if name.strip() == "_vgi_oauth_session":
            return rest.split(";", 1)[0]
    return None


def issued_token(r: Resp) -> bool:
    blob = " ".join(v for _k, v in r.headers) + r.body.decode("latin-1")
    return any(x in blob for x in (TOK, REFRESH, SECRET))


def start_flow(app: Any, prefix: str, path: str, query: str) -> tuple[Resp, str | None, str | None]:
    """First leg of flow A.  Returns (response, state, session cookie value) — the latter None if no PKCE redirect."""
    r1 = call(app, "GET", path, query=query, headers={"Accept": "text/html"}, host=SVC_HOST)
    loc = r1.get("location") or ""
    if r1.status == 302 and loc.startswith(AUTHZ + "?"):
        q = parse_qs(urlsplit(loc).query)
        want = f"http://{SVC_HOST}{prefix}/_oauth/callback"
        if q.get("redirect_uri") != [want] and _CTX is not None:
            # the authorization server sends the code (and the browser) to redirect_uri: it must be the configured callback
            _CTX.fail("authorize-redirect:redirect-uri", f"authorization redirect for {path!r}?{query!r} carries redirect_uri {q.get('redirect_uri')} instead of {want!r}",
                      {"part": "P", "prefix": prefix, "path": path, "query": query})
        return r1, q.get("state", [None])[0], session_cookie(r1)
    return r1, None, None


def callback(app: Any, prefix: str, state: str | None, cookie: str | None, extra_q: str = "") -> Resp:
    EXCHANGES.clear()
    q = "code=C0DE" + ("" if state is None else "&state=" + quote(state, safe="")) + extra_q
    h = {"Accept": "text/html"}
    if cookie is not None:
        h["Cookie"] = "_vgi_oauth_session=" + cookie
    return call(app, "GET", prefix + "/_oauth/callback", query=q, headers=h, host=SVC_HOST)


# ------------------------------------------------------------------------------------------- part R
def run_return_to(ctx: Ctx, j: Judge, prefix: str, s: str, sample: bool = False) -> None:
    app = get_app(prefix)
    rep = {"part": "R", "prefix": prefix, "s": s}
    VTime.now = T0
    q = "_vgi_return_to=" + quote(s, safe="")
    protected = prefix + "/describe"
    cb_path = prefix + "/_oauth/callback"
    out: list[str] = []
    accepted = False
    # flow B: already authenticated
    rb = call(app, "GET", protected, query=q, headers={"Accept": "text/html", "Cookie": "_vgi_auth=goodbearer"}, host=SVC_HOST)
    if 300 <= rb.status < 400:
        out.append("B:" + j.location("return-to", "flow B (authenticated, immediate redirect)", rb, protected, prefix, s, rep))
    else:
        out.append(f"B:{rb.status}")
        if issued_token(rb):
            ctx.fail("return-to:token-in-non-redirect", f"flow B answered {rb.status_line} carrying a token for {s!r}", rep)
    # flow A: unauthenticated browser
    r1, state, cookie = start_flow(app, prefix, protected, q)
    if state is None or cookie is None:
        if 300 <= r1.status < 400:
            out.append("A1:" + j.location("return-to", "flow A first leg (not the authorization endpoint)", r1, protected, prefix, s, rep))
        else:
            out.append(f"A1:{r1.status}")  # e.g. a 500 from the validator: not a redirect, outside the statement
    else:
        r2 = callback(app, prefix, state, cookie)
        accepted = TOK in (r2.get("location") or "")
        if 300 <= r2.status < 400:
            out.append("A:" + j.location("return-to", "flow A callback", r2, cb_path, prefix, s, rep))
        else:
            out.append(f"A:{r2.status}")
    ref = classify(s, base_for(cb_path), prefix)[1]
    ctx.case(sample=({**rep, "outcome": out} if sample else None), nontrivial=("acc" if accepted else "rej") + ":" + ref, outcome=tuple(out))


# ------------------------------------------------------------------------------------------- part P
def run_path(ctx: Ctx, j: Judge, prefix: str, path: str, sample: bool = False) -> None:
    app = get_app(prefix)
    VTime.now = T0
    out: list[str] = []
    for query in ("", "a=b"):
        rep = {"part": "P", "prefix": prefix, "path": path, "query": query}
        r1, state, cookie = start_flow(app, prefix, path, query)
        if state is None or cookie is None:
            if 300 <= r1.status < 400:
                out.append("P1:" + j.location("original-url", "first leg (not the authorization endpoint)", r1, path, prefix, path, rep))
            else:
                out.append(f"P1:{r1.status}")
            continue
        r2 = callback(app, prefix, state, cookie)
        if 300 <= r2.status < 400:
            out.append("P:" + j.location("original-url", "flow A callback (same-origin return)", r2, prefix + "/_oauth/callback", prefix, path, rep))
        else:
            out.append(f"P:{r2.status}")
    reached = any(o.startswith("P:") for o in out)
    ctx.case(sample=({"part": "P", "prefix": prefix, "path": path, "outcome": out} if sample else None),
             nontrivial=(out[0] + "|" + classify(path, base_for(prefix + "/_oauth/callback"), prefix)[1]) if reached else None, outcome=tuple(out))


# ------------------------------------------------------------------------------------------- part K
def _dec(cookie: str) -> bytes:
    return base64.urlsafe_b64decode(cookie.strip('"'))


def _enc(raw: bytes) -> str:
    return base64.urlsafe_b64encode(raw).decode("ascii")


K_BASES = [("", "/describe", ""), ("", "/describe", "_vgi_return_to=" + quote("http://localhost:3000/app", safe="")),
           ("/api", "/api/describe", "x=1"), ("/api", "/api/describe", "_vgi_return_to=" + quote("https://" + ALLOWED_HOST + "/app#frag", safe=""))]


def k_cases(ctx: Ctx, raw_len: int, state: str) -> list[dict[str, Any]]:
    cases: list[dict[str, Any]] = [{"k": "pristine"}, {"k": "reencoded"}]
    for age in (0, 1, MAX_AGE - 1, MAX_AGE, MAX_AGE + 1, 86400, 10**6, -1, -MAX_AGE):
        cases.append({"k": "age", "age": age})
    for i in range(raw_len):
        for bit in ((0,) if ctx.quick else range(8)):
            cases.append({"k": "flip", "i": i, "bit": bit})
    for n in range(raw_len):
        cases.append({"k": "trunc", "n": n})
    for tail in ("00", "ff", "00" * 32):
        cases.append({"k": "extend", "tail": tail})
    cases += [{"k": "macswap"}, {"k": "payloadswap"}, {"k": "foreign-key"}, {"k": "no-cookie"}, {"k": "empty-cookie"},
              {"k": "garbage", "v": "AAAA"}, {"k": "garbage", "v": "not base64 !!"}, {"k": "garbage", "v": _enc(b"\x04" + b"\x00" * 80)}]
    pos = range(len(state)) if ctx.thorough else sorted({0, len(state) // 2, len(state) - 1})
    for i in pos:
        cases.append({"k": "state-char", "i": i})
    for v in ("append", "drop-last", "drop-first", "swapcase", "empty", "missing", "other-session"):
        cases.append({"k": "state", "v": v})
    # combinations: a single defect is enough to refuse, so is any pair
    cases += [{"k": "flip+age", "i": 0, "bit": 0, "age": MAX_AGE + 1}, {"k": "state+age", "age": MAX_AGE + 1}]
    return cases


def run_k(ctx: Ctx, base_i: int, case: dict[str, Any], sample: bool = False) -> None:
    prefix, path, query = K_BASES[base_i]
    app = get_app(prefix)
    VTime.now = T0
    r1, state, cookie = start_flow(app, prefix, path, query)
    rep = {"part": "K", "base": base_i, "case": case}
    if state is None or cookie is None:
        ctx.fail("flow-a:no-pkce-redirect", f"no PKCE redirect for base session {K_BASES[base_i]} ({r1.status_line})", rep)
        return
    raw = _dec(cookie)
    k = case["k"]
    must, may = False, False  # must complete / may complete (either)
    send_cookie: str | None = cookie
    send_state: str | None = state
    if k == "pristine":
        must = True
    elif k == "reencoded":
        send_cookie, must = _enc(raw), True
    elif k == "age":
        VTime.now = T0 + case["age"]
        a = case["age"]
        must = 0 <= a < MAX_AGE
        may = a == MAX_AGE or a < 0
    elif k == "flip":
        b = bytearray(raw)
        b[case["i"]] ^= 1 << case["bit"]
        send_cookie = _enc(bytes(b))
    elif k == "trunc":
        send_cookie = _enc(raw[: case["n"]])
    elif k == "extend":
        send_cookie = _enc(raw + bytes.fromhex(case["tail"]))
    elif k in ("macswap", "payloadswap", "foreign-key", "state"):
        other_app = get_app(prefix, b"j" * 32) if k == "foreign-key" else app
        _r, state2, cookie2 = start_flow(other_app, prefix, path, query + ("&z=1" if query else "z=1"))
        assert state2 is not None and cookie2 is not None
        raw2 = _dec(cookie2)
        if k == "macswap":
            send_cookie = _enc(raw[:-32] + raw2[-32:])
        elif k == "payloadswap":
            send_cookie, send_state = _enc(raw2[:-32] + raw[-32:]), state2
        elif k == "foreign-key":
            send_cookie, send_state = cookie2, state2
        else:
            v = case["v"]
            send_state = {"append": state + "x", "drop-last": state[:-1], "drop-first": state[1:], "swapcase": state.swapcase(),
                          "empty": "", "missing": None, "other-session": state2}[v]
            if send_state == state:
                may = True  # the variant happens to equal the real state (e.g. swapcase of digits only)
    elif k == "no-cookie":
        send_cookie = None
    elif k == "empty-cookie":
        send_cookie = ""
    elif k == "garbage":
        send_cookie = case["v"]
    elif k == "state-char":
        ch = state[case["i"]]
        send_state = state[: case["i"]] + ("A" if ch != "A" else "B") + state[case["i"] + 1:]
    elif k == "flip+age":
        b = bytearray(raw)
        b[0] ^= 1
        send_cookie = _enc(bytes(b))
        VTime.now = T0 + case["age"]
    elif k == "state+age":
        send_state = state + "x"
        VTime.now = T0 + case["age"]
    r2 = callback(app, prefix, send_state, send_cookie)
    completed = bool(EXCHANGES) or r2.status == 302 or issued_token(r2)
    label = k if k not in ("age", "state") else f"{k}:{case.get('age', case.get('v'))}"
    if completed and not (must or may):
        cls = {"flip": "tampered-byte", "trunc": "truncated", "extend": "extended", "macswap": "mac-swapped", "payloadswap": "payload-swapped",
               "foreign-key": "foreign-key", "age": "expired", "state": "state-mismatch", "state-char": "state-mismatch"}.get(k, k)
        where = ""
        if k == "flip":
            n = len(raw)
            where = ":mac" if case["i"] >= n - 32 else (":header" if case["i"] < 9 else ":body")
        ctx.fail(f"callback-completed:{cls}{where}", f"callback completed ({r2.status_line}, exchange calls {len(EXCHANGES)}) with {label} {case} on base {K_BASES[base_i]}", rep)
    if must and not (r2.status == 302 and EXCHANGES):
        ctx.fail(f"callback:baseline-incomplete:{label}", f"valid fresh matching session did not complete: {r2.status_line} ({case}, base {K_BASES[base_i]})", rep)
    if r2.status == 302:
        Judge(ctx).location("callback", f"callback redirect ({label})", r2, prefix + "/_oauth/callback", prefix, query, rep)
    ctx.case(sample=({**rep, "status": r2.status, "completed": completed} if sample else None),
             nontrivial=f"{k}:{'c' if completed else 'r'}", outcome=(label if k in ("age", "state") else k, r2.status, completed))


# ------------------------------------------------------------------------------------------- part L
def run_misc(ctx: Ctx, j: Judge) -> None:
    for prefix in ("", "/api"):
        app = get_app(prefix)
        for query in ("", "_vgi_return_to=" + quote("http://evil.example/", safe=""), "next=//evil.example"):
            for cookie in (None, "_vgi_auth=goodbearer"):
                path = prefix + "/_oauth/logout"
                h = {"Accept": "text/html"}
                if cookie:
                    h["Cookie"] = cookie
                r = call(app, "GET", path, query=query, headers=h, host=SVC_HOST)
                rep = {"part": "L", "prefix": prefix, "query": query, "cookie": cookie}
                cls = j.location("logout", "logout", r, path, prefix, query, rep) if 300 <= r.status < 400 else str(r.status)
                ctx.case(nontrivial="logout:" + cls, outcome=("logout", r.status, cls))
        # hostile Host / forwarding headers must not move the redirect_uri the authorization server will use
        for host, hdrs in (("evil.example", {}), (SVC_HOST, {"X-Forwarded-Host": "evil.example"}), ("evil.example", {"X-Forwarded-Host": "evil.example", "Forwarded": "host=evil.example"})):
            r = call(app, "GET", prefix + "/describe", headers={"Accept": "text/html", **hdrs}, host=host)
            loc = r.get("location") or ""
            rep = {"part": "L", "prefix": prefix, "host": host, "headers": hdrs}
            want = f"http://{SVC_HOST}{prefix}/_oauth/callback"
            got = parse_qs(urlsplit(loc).query).get("redirect_uri") if loc.startswith(AUTHZ + "?") else None
            if r.status == 302 and got != [want]:
                ctx.fail("authorize-redirect:redirect-uri", f"Host {host!r} {hdrs}: authorization redirect {loc[:200]!r} carries redirect_uri {got} instead of {want!r}", rep)
            ctx.case(nontrivial="authz-host:" + ("302" if r.status == 302 else str(r.status)), outcome=("authz", r.status, host == SVC_HOST, len(hdrs)))
        for q in ("error=access_denied&error_description=" + quote("<script>//evil.example</script>"), "code=x", "state=y", ""):
            EXCHANGES.clear()
            r = call(app, "GET", prefix + "/_oauth/callback", query=q, headers={"Accept": "text/html"}, host=SVC_HOST)
            rep = {"part": "L", "prefix": prefix, "query": q}
            if r.status == 302 or EXCHANGES or issued_token(r):
                ctx.fail("callback-completed:no-session", f"callback completed without a session ({q!r}): {r.status_line}", rep)
            ctx.case(nontrivial="cb-error:" + q[:5], outcome=("cb", r.status))


# ------------------------------------------------------------------------------------------- driver
def run(ctx: Ctx) -> None:
    global _CTX
    prepare()
    _CTX = ctx
    j = Judge(ctx)
    ctx.extra.update({"return_to_strings": 0, "request_paths": 0, "cookie_cases": 0, "wsgi_requests_estimate": 0, "locations_with_crlf": 0})
    n = 0
    parts = os.environ.get("VERIF_C37_PARTS", "RPKL")  # development aid only: restrict to some parts (evidence then reports a cap)
    if parts != "RPKL":
        ctx.cap(f"development run restricted to parts {parts}")
    for prefix, lead, toks, first in r_items(ctx) if "R" in parts else []:
        if not ctx.mine():
            continue
        for s in expand(lead, toks, first):
            n += 1
            run_return_to(ctx, j, prefix, s, sample=(n % 50021 == 7))
            ctx.extra["return_to_strings"] += 1
    for s in long_return_tos() if "R" in parts else []:
        if not ctx.mine():
            continue
        n += 1
        run_return_to(ctx, j, "", s, sample=(n % 97 == 3))
        ctx.extra["return_to_strings"] += 1
        ctx.extra["long_return_to_strings"] = ctx.extra.get("long_return_to_strings", 0) + 1
    for prefix, lead, toks, first in p_items(ctx) if "P" in parts else []:
        if not ctx.mine():
            continue
        for p in expand(lead, toks, first):
            n += 1
            run_path(ctx, j, prefix, p, sample=(n % 50021 == 11))
            ctx.extra["request_paths"] += 1
    for bi in range(len(K_BASES)) if "K" in parts else []:
        # the cookie length is the same for every session of one base (fixed-length verifier/state)
        VTime.now = T0
        _r, st, ck = start_flow(get_app(K_BASES[bi][0]), *K_BASES[bi])
        if st is None or ck is None:
            if ctx.mine():
                ctx.fail("flow-a:no-pkce-redirect", f"no PKCE redirect for base session {K_BASES[bi]}", {"part": "K", "base": bi, "case": {"k": "pristine"}})
            continue
        for ci, case in enumerate(k_cases(ctx, len(_dec(ck)), st)):
            if not ctx.mine():
                continue
            run_k(ctx, bi, case, sample=(ci in (0, 40)))
            ctx.extra["cookie_cases"] += 1
    if "L" in parts and ctx.mine():
        run_misc(ctx, j)
    ctx.extra["wsgi_requests_estimate"] = 4 * ctx.extra["return_to_strings"] + 6 * ctx.extra["request_paths"] + 3 * ctx.extra["cookie_cases"]


def replay(ctx: Ctx, case: dict[str, Any]) -> None:
    global _CTX
    prepare()
    _CTX = ctx
    j = Judge(ctx)
    if case["part"] == "R":
        run_return_to(ctx, j, case["prefix"], case["s"])
    elif case["part"] == "P":
        run_path(ctx, j, case["prefix"], case["path"])
    elif case["part"] == "K":
        run_k(ctx, case["base"], case["case"])
    else:
        run_misc(ctx, j)

"""C19 — Response content-encoding negotiation is correct (E1: exhaustive header-pair enumeration).

Seam: the real WSGI app from ``make_wsgi_app`` (real ``_CompressionMiddleware`` negotiation + post-hoc compression, real
pre-compressed producer-continuation path in ``_app_stream``), driven by raw WSGI requests whose bodies were captured
from the real client.  Every (Accept-Encoding, X-VGI-Accept-Encoding) pair of the tier's list space is sent for every
server encode set and response kind.

Reference model (``negotiate``; ~15 lines, written from the statement and docs/WIRE_PROTOCOL.md "Content-encoding
negotiation", no repo helper): walk the X-VGI-Accept-Encoding entries in order, then the Accept-Encoding entries in
order; tokens are comma separated, trimmed, case-insensitive, parameters after ';' are not part of the token; the first
entry that is ``identity`` ends the walk with "no coding"; the first entry the server can produce is the coding;
nothing producible -> no coding.  The coding is announced on ``X-VGI-Content-Encoding`` if it was offered on the VGI
header, on ``Content-Encoding`` if it was offered on the standard header.

Weakest-reading decisions:
  * a coding offered on *both* headers may be announced on either response header (the repo's own tests pin
    ``Content-Encoding`` for that case, the prose says the VGI header decides; both are accepted), but never on both
    and never on a header the coding was not offered on;
  * q-values: the docs say list order decides, RFC 9110 says q ranks; when the two orders disagree the outcome of
    either order is accepted (q=0 is not part of the space);
  * "no coding" = neither header present (a header naming ``identity`` is also accepted as "no coding").
Body oracle: the body decoded with an *independent* decoder of the announced coding (plain when none announced) is a
well-formed IPC stream whose batches and metadata equal those of the same request sent without any accept header
(state-token bytes are excluded from the comparison: they are re-sealed with a fresh nonce on every response).
"""

from __future__ import annotations

import itertools
import json
from typing import Any

from vf.core.runner import Ctx
from vf.kit import c17_wsgi as K

PROPERTY = "C19"
LEVEL = "exploration"
ENGINE = "E1-SEQ"
SHARDS = {"quick": 8, "thorough": 16}
RULE = (
    "both headers range over all ordered lists of length <=2 over the token alphabet {zstd, gzip, identity, br, GZIP, "
    "'gzip;q=0.5', ' zstd ', 'zstd ;q=0.9' (optional whitespace before the parameter)} (73 lists incl. 'header absent') + 9 irregular values ('', ',', 'zstd,,gzip', 'Identity , ZSTD', "
    "'zstd;level=3;q=0.9,gzip', 'deflate, br', 'identity ; q=1, gzip', 'gzip<TAB>; q=0.5 ,ZSTD ;level=3', 'zstd; q=1;x=y , gzip ;q=1') -> 82 x 82 pairs (thorough: one header over all lists of length <=3 (585+9) x the "
    "other over length <=2, both ways) x server encode set {zstd+gzip, gzip only (VGI_HTTP_DISABLE_ZSTD), none "
    "(compression_level=None), zstd only (middleware table narrowed)} x response kind {unary, producer continuation "
    "(pre-compressed, carries a log batch and a continuation token)}; kinds {unary with log, unary error, producer init, "
    "final producer continuation, exchange init, exchange turn} over the 18 x 18 pairs of length <=1 lists (thorough: 82 x 82). "
    "One evaluation = one request; non-trivial class = (server set, kind, expected coding, where it was offered)"
)
TECHNIQUE = "exhaustive enumeration of header-list pairs x server sets x response kinds against a 15-line reference negotiation model; independent decoders for the body"
LEVEL_TEXT = (
    "Every header pair of the stated list grammar is sent to the real app for every server encode set and response kind; "
    "coding, announcing header and decoded body are compared with the reference model. Exploration level: negotiation is a "
    "pure function of (headers, configuration)."
)
LEVEL_NOTE = (
    "Lists longer than the bound, q=0 and '*' are outside the space. The zstd-only server set cannot be produced by the factory; "
    "it is obtained by narrowing the factory-built middleware's encode table (attribute _levels)."
)
ASSUMPTIONS = [
    "zstandard/zlib reference decoders are correct",
    "continuation requests are replayable (state tokens are stateless AEAD blobs)",
    "the zstd-only encode set is reachable only by narrowing _CompressionMiddleware._levels on a factory-built app",
]

TOKENS = ["zstd", "gzip", "identity", "br", "GZIP", "gzip;q=0.5", " zstd ", "zstd ;q=0.9"]
IRREGULAR = ["", ",", "zstd,,gzip", "Identity , ZSTD", "zstd;level=3;q=0.9,gzip", "deflate, br",
             "identity ; q=1, gzip", "gzip\t; q=0.5 ,ZSTD ;level=3", "zstd; q=1;x=y , gzip ;q=1"]
SETS = ["zstd+gzip", "gzip", "none", "zstd"]
PRODUCIBLE = {"zstd+gzip": {"zstd", "gzip"}, "gzip": {"gzip"}, "none": set(), "zstd": {"zstd"}}
MAIN_KINDS = ["unary", "prod-cont"]
SIDE_KINDS = ["unary-log", "unary-error", "prod-init", "prod-final", "exch-init", "exch-turn"]
HDR = {"Content-Type": K.ARROW_CT, "X-Request-ID": "c19"}


def lists(maxlen: int) -> list[str | None]:
    out: list[str | None] = [None]
    for n in range(1, maxlen + 1):
        for t in itertools.product(TOKENS, repeat=n):
            out.append(",".join(t))
    return out + list(IRREGULAR)


# ------------------------------------------------------------------------------------------------
# reference model


def parse(value: str | None) -> list[tuple[str, float]]:
    out = []
    for part in (value or "").split(","):
        name, _, params = part.partition(";")
        name = name.strip().lower()
        if not name:
            continue
        q = 1.0
        for prm in params.split(";"):
            k, _, v = prm.partition("=")
            if k.strip().lower() == "q":
                try:
                    q = float(v)
                except ValueError:
                    pass
        out.append((name, q))
    return out


def negotiate(accept: str | None, vgi: str | None, producible: set[str], by_q: bool) -> tuple[str | None, frozenset[str]]:
    """(coding or None, response headers it may be announced on)."""
    a, v = parse(accept), parse(vgi)
    if by_q:
        a, v = sorted(a, key=lambda t: -t[1]), sorted(v, key=lambda t: -t[1])
    for name, _ in v + a:
        if name == "identity":
            return None, frozenset()
        if name in producible:
            where = set()
            if any(n == name for n, _ in v):
                where.add("x-vgi-content-encoding")
            if any(n == name for n, _ in a):
                where.add("content-encoding")
            return name, frozenset(where)
    return None, frozenset()


# ------------------------------------------------------------------------------------------------
# servers and captured requests

_WORLD: dict[str, dict[str, Any]] = {}


def world(sset: str) -> dict[str, Any]:
    """Apps for one server encode set + the captured request (path, body) and reference canon of every kind."""
    w = _WORLD.get(sset)
    if w is not None:
        return w
    from vgi_rpc.http import http_connect, make_wsgi_app
    from vgi_rpc.rpc import AnnotatedBatch, RpcError, RpcServer

    from vf.kit import prog

    def mk(**kw: Any) -> Any:
        with K.environ(VGI_HTTP_DISABLE_ZSTD="1" if sset == "gzip" else None):
            app = make_wsgi_app(
                RpcServer(prog.ScriptSvc, prog.ScriptImpl()),
                token_key=K.TOKEN_KEY,
                compression_level=None if sset == "none" else 1,
                enable_landing_page=False,
                enable_describe_page=False,
                enable_not_found_page=False,
                **kw,
            )
        if sset == "zstd":
            mws = [m for m in app._unprepared_middleware if type(m).__name__ == "_CompressionMiddleware"]
            assert len(mws) == 1 and set(e.value for e in mws[0]._levels) == {"zstd", "gzip"}
            mws[0]._levels = {e: lv for e, lv in mws[0]._levels.items() if e.value == "zstd"}
        return app

    # No max_response_bytes: a producer turn is then exactly one produce cycle, so the content of a turn does not depend
    # on the coding.  (With a response cap the cap is measured on the *compressed* buffer, so turn boundaries legitimately
    # move with the coding; the stream as a whole is unchanged.  That interaction belongs to the cap properties.)
    plain = mk()
    reqs: dict[str, tuple[Any, str, bytes]] = {}
    rc = K.RecordingClient(plain)
    with http_connect(prog.ScriptSvc, client=rc, compression_level=None) as proxy:
        assert proxy.unary(script=json.dumps({"acts": []}), x=7) == 7
        reqs["unary"] = (plain, *rc.posts[-1][:2])
        assert proxy.unary(script=json.dumps({"acts": [["log", "INFO", "hello " * 40, {"k": "v"}]]}), x=9) == 9
        reqs["unary-log"] = (plain, *rc.posts[-1][:2])
        try:
            proxy.unary(script=json.dumps({"acts": [["raise", "ValueError", "boom " * 30]]}), x=1)
            raise AssertionError("expected RpcError")
        except RpcError:
            pass
        reqs["unary-error"] = (plain, *rc.posts[-1][:2])
        n0 = len(rc.posts)
        with proxy.exch(script=json.dumps({"steps": []})) as s:
            s.exchange(AnnotatedBatch.from_pydict({"x": list(range(50))}, schema=prog.IN_X))
        reqs["exch-init"] = (plain, *rc.posts[n0][:2])
        reqs["exch-turn"] = (plain, *rc.posts[n0 + 1][:2])
        n1 = len(rc.posts)
        script = {"steps": [[["emit", 60, None]], [["log", "INFO", "mid " * 30, {}], ["emit", 200, None]], [["emit", 3, None]]], "out": "is"}
        assert [b.batch.num_rows for b in proxy.produce(script=json.dumps(script))] == [60, 200, 3]
    paths = [p[0] for p in rc.posts[n1:]]
    assert paths == ["/produce/init"] + ["/produce/exchange"] * 3, paths
    reqs["prod-init"] = (plain, *rc.posts[n1][:2])
    reqs["prod-cont"] = (plain, *rc.posts[n1 + 1][:2])  # log + 200 rows + continuation token
    reqs["prod-final"] = (plain, *rc.posts[n1 + 3][:2])  # finish, no token
    w = {"reqs": reqs, "ref": {}}
    for kind, (app, path, body) in reqs.items():
        r = K.wsgi_call(app, "POST", path, HDR, body)
        assert r.get("content-encoding") is None and r.get("x-vgi-content-encoding") is None, (kind, r.headers)
        w["ref"][kind] = (r.status, r.body, canon(r.body), r.get("x-vgi-rpc-error"))
        assert w["ref"][kind][2] is not None and w["ref"][kind][2][0], kind
    _WORLD[sset] = w
    return w


def canon(body: bytes) -> Any:
    """Decoded IPC stream -> comparable value (token bytes excluded), or None if it is not a well-formed stream."""
    import pyarrow as pa
    from pyarrow import ipc

    try:
        rd = ipc.open_stream(pa.BufferReader(body))
        out = []
        while True:
            try:
                batch, cm = rd.read_next_batch_with_custom_metadata()
            except StopIteration:
                break
            md = {}
            for k, v in (cm.items() if cm is not None else []):
                ks = k.decode("utf-8", "replace")
                md[ks] = "<token>" if ("stream_state" in ks or "call_state" in ks) else bytes(v)
            out.append((batch.to_pydict(), sorted(md.items())))
        return (str(rd.schema), out)
    except Exception:  # noqa: BLE001
        return None


# ------------------------------------------------------------------------------------------------


def judge(ctx: Ctx, case: dict[str, Any], sample: bool = False) -> None:
    sset, kind, accept, vgi = case["set"], case["kind"], case["accept"], case["vgi"]
    w = world(sset)
    app, path, body = w["reqs"][kind]
    headers = dict(HDR)
    if accept is not None:
        headers["Accept-Encoding"] = accept
    if vgi is not None:
        headers["X-VGI-Accept-Encoding"] = vgi
    r = K.wsgi_call(app, "POST", path, headers, body)
    ref_status, ref_body, ref_canon, ref_err = w["ref"][kind]
    exp = {negotiate(accept, vgi, PRODUCIBLE[sset], by_q) for by_q in (False, True)}
    ce, xce = r.get_all("content-encoding"), r.get_all("x-vgi-content-encoding")
    announced = [("content-encoding", v.strip().lower()) for v in ce] + [("x-vgi-content-encoding", v.strip().lower()) for v in xce]
    announced = [(h, v) for h, v in announced if v != "identity"]
    desc = (f"server set {sset}, {kind}: Accept-Encoding={accept!r} X-VGI-Accept-Encoding={vgi!r} -> status {r.status}, "
            f"Content-Encoding={ce} X-VGI-Content-Encoding={xce}; model expects {sorted((c or 'none', sorted(h)) for c, h in exp)}")
    main = sorted(exp, key=lambda t: str(t))[0] if len(exp) > 1 else next(iter(exp))
    offered = "none" if main[0] is None else ("both" if len(main[1]) == 2 else ("vgi" if "x-vgi-content-encoding" in main[1] else "std"))
    tag = f"k{(MAIN_KINDS + SIDE_KINDS).index(kind)}s{SETS.index(sset)}"
    coding: str | None = None
    # negotiation does not depend on the response kind (keys carry no kind); announcing and body encoding differ
    # between the post-hoc middleware path and the pre-compressed producer-continuation path (keys carry the path)
    pth = "precompressed-path" if kind in ("prod-cont", "prod-final") else "posthoc-path"
    if len(announced) > 1:
        ctx.fail(f"announced-on-both-headers:{pth}", f"more than one content-encoding announcement; {desc}", case)
        coding = announced[0][1]
    elif announced:
        coding = announced[0][1]
    if len(announced) <= 1:
        got = (coding, announced[0][0] if announced else None)
        ok = any(c == got[0] and (c is None or got[1] in hs) for c, hs in exp)
        if not ok:
            if any(c == got[0] for c, _ in exp):
                ctx.fail(f"wrong-announcing-header:{pth}:offered-{offered}", f"coding {coding} announced on {got[1]}, where it was not offered; {desc}", case)
            elif got[0] is None:
                ctx.fail(f"not-compressed:{pth}:offered-{offered}", f"no coding applied although the model selects one; {desc}", case)
            elif all(c is None for c, _ in exp):
                ctx.fail(f"compressed-against-model:{'identity-first' if any(n == 'identity' for n, _ in parse(vgi) + parse(accept)) else 'no-overlap'}",
                         f"coding {coding} applied although the model selects none; {desc}", case)
            else:
                ctx.fail(f"wrong-coding:offered-{offered}", f"coding {coding} is not the first producible entry in the client's order; {desc}", case)
    # body
    decoded: bytes | None = r.body
    if coding in ("zstd", "gzip"):
        ref = K.ref_decode(coding, r.body)
        decoded = ref.data if ref.ok else None
        if not ref.ok:
            ctx.fail(f"body-not-{coding}:{pth}", f"body announced as {coding} is not a well-formed {coding} stream ({ref.why}); {desc}", case)
    elif coding is not None:
        ctx.fail(f"unknown-coding-announced:{pth}", f"announced coding {coding!r}; {desc}", case)
        decoded = None
    if decoded is not None and decoded != ref_body:
        c = canon(decoded)
        if c is None:
            ctx.fail(f"body-undecodable:{pth}:{'announced-' + coding if coding else 'no-coding-announced'}",
                     f"the decoded body is not a well-formed IPC stream; {desc}", case)
        elif c != ref_canon:
            ctx.fail(f"body-differs:{pth}", f"the decoded body differs from the uncompressed reference response; {desc}", case)
    if r.status != ref_status or r.get("x-vgi-rpc-error") != ref_err:
        ctx.fail(f"status-differs:{pth}", f"status/error marker differ from the reference ({ref_status}, {ref_err}); {desc}", case)
    ctx.case(
        sample=dict(case, coding=coding, header=announced[0][0] if announced else None, status=r.status) if sample else None,
        nontrivial=f"{tag}{(main[0] or 'no')[:2]}{offered[:2]}{len(exp)}",
        outcome=f"{kind[:8]}{(coding or 'no')[:2]}{(announced[0][0] if announced else '-')[:1]}",
    )
    ctx.extra["compressed_responses"] += 1 if coding else 0
    if coding == "zstd" and K.zstd_declared_size(r.body) is None:
        # a size-less zstd frame can only come from the streaming (pre-compressed producer) path
        ctx.extra["precompressed_zstd_bodies"] += 1
    ctx.extra["q_ambiguous"] += 1 if len(exp) > 1 else 0


def plan(ctx: Ctx) -> list[dict[str, Any]]:
    """Top-level items: (set, kind, vgi value, list of accept values)."""
    l1, l2 = lists(1), lists(2)
    items: list[dict[str, Any]] = []
    for sset in SETS:
        for kind in MAIN_KINDS:
            for v in l2:
                items.append({"set": sset, "kind": kind, "vgi": v, "accepts": "l2"})
            if ctx.thorough:
                l3 = lists(3)
                s2 = set(l2)
                for v in l3:
                    if v not in s2:
                        items.append({"set": sset, "kind": kind, "vgi": v, "accepts": "l2"})
                for v in l2:
                    items.append({"set": sset, "kind": kind, "vgi": v, "accepts": "l3-l2"})
        for kind in SIDE_KINDS:
            for v in (l2 if ctx.thorough else l1):
                items.append({"set": sset, "kind": kind, "vgi": v, "accepts": "l2" if ctx.thorough else "l1"})
    return items


def accepts_of(name: str) -> list[str | None]:
    if name == "l1":
        return lists(1)
    if name == "l2":
        return lists(2)
    s2 = set(lists(2))
    return [a for a in lists(3) if a not in s2]


def run(ctx: Ctx) -> None:
    ctx.extra.update({"compressed_responses": 0, "q_ambiguous": 0, "items": 0, "precompressed_zstd_bodies": 0})
    cache: dict[str, list[str | None]] = {}
    for it in plan(ctx):
        if not ctx.mine():
            continue
        ctx.extra["items"] += 1
        accs = cache.setdefault(it["accepts"], accepts_of(it["accepts"]))
        for a in accs:
            smp = it["kind"] in MAIN_KINDS and it["set"] == "zstd+gzip" and (it["vgi"], a) in (
                ("zstd,gzip", "gzip,zstd"), (None, "gzip;q=0.5,zstd"), ("identity", "gzip"), ("br", " zstd "))
            judge(ctx, {"set": it["set"], "kind": it["kind"], "accept": a, "vgi": it["vgi"]}, sample=smp)


def replay(ctx: Ctx, case: dict[str, Any]) -> None:
    ctx.extra.update({"compressed_responses": 0, "q_ambiguous": 0, "items": 0, "precompressed_zstd_bodies": 0})
    judge(ctx, case)

"""C23 — Proof nonces cannot be replayed within the window (E3: schedule exploration).

Real ``NonceCache`` objects, real threads under the baton scheduler.  The cache's lock is replaced by the
cooperative lock and every *line* of ``check_and_add`` / ``_sweep`` / ``__len__`` is a scheduling point, so a
change that drops or narrows the lock is still explored.  The virtual clock is advanced by an environment
event that the explorer places at every position.

Oracle (weakest reading of the statement):
  (i)  if fewer than ``capacity`` distinct nonces are submitted in the execution, two submissions of the
       same nonce that both read the clock and both *returned* within ttl of the earlier reading are never
       both accepted;
  (ii) sequentially-ordered resubmission inside the window is rejected (special case of (i));
  (iii) ``len(entries) <= capacity`` after every step of every schedule;
  (iv) no deadlock, no exception.
"""

from __future__ import annotations

import itertools
from typing import Any

from vf.core import sched as S
from vf.core.runner import Ctx

PROPERTY = "C23"
LEVEL = "model_checking"
SHARDS = {"quick": 8, "thorough": 16}
RULE = (
    "all schedules (preemption bound per tier) of 2-3 threads submitting 1-2 nonces from {x,y} to a real "
    "NonceCache(capacity 1..3) + one clock-advance event of ttl-1 / ttl / ttl+1 placed at every position (+ coarse "
    "configurations with TWO free clock advances {1, ttl-1 / ttl} and points at clock reading / lock operations only); "
    "line-level scheduling points inside check_and_add/_sweep; non-trivial = schedule with >=1 choice point"
)
ASSUMPTIONS = [
    "scheduling granularity is one source line inside NonceCache methods (bytecode-level races inside a line are not explored)",
    "the clock is read through the injected clock= callable",
]
TTL = 10.0


def configs(ctx: Ctx) -> list[dict[str, Any]]:
    out: list[dict[str, Any]] = []
    progs2 = [(["x"], ["x"]), (["x", "x"], ["x"]), (["x", "y"], ["x"]), (["x", "y"], ["y", "x"]), (["x"], ["y"])]
    advs = [None, TTL - 1, TTL, TTL + 1]
    if ctx.quick:
        # capacity 2/3 with one or two distinct nonces decide the replay clause; capacity 1/2 with two
        # nonces decide the capacity clause (evictions happen)
        for cap, progs, adv in [
            (2, progs2[0], None), (2, progs2[0], TTL - 1), (2, progs2[0], TTL + 1), (2, progs2[1], None),
            (2, progs2[1], TTL - 1), (3, progs2[2], None), (3, progs2[2], TTL - 1), (3, progs2[2], TTL),
            (1, progs2[4], None), (1, progs2[2], None), (1, progs2[0], TTL + 1),
            (2, progs2[2], TTL + 1), (1, progs2[1], None), (2, progs2[4], TTL - 1),
        ]:
            out.append({"cap": cap, "progs": [list(p) for p in progs], "adv": adv, "bound": 2, "env_cost": 1})
        # TWO clock advances (a short one that can fall between a thread's clock reading and its lock acquisition, and one
        # that carries the clock to the end of the earlier reading's window), free of charge, around a replay of x
        # (three one-operation threads: the replay of x is a thread of its own, so one preemption - of the thread whose clock
        # reading goes stale - is enough; points at clock reading and lock operations only; measured 10 860 schedules)
        out.append({"cap": 3, "progs": [["y"], ["x"], ["x"]], "adv": [1.0, TTL - 1], "bound": 1, "env_cost": 0, "coarse": True})
        return out
    def add(cap: int, progs: Any, adv: Any, bound: int, env_cost: int) -> None:
        out.append({"cap": cap, "progs": [list(p) for p in progs], "adv": adv, "bound": bound, "env_cost": env_cost})

    # (1) every 2-thread program x capacity x clock advance, clock event counted as a preemption
    for cap in (1, 2, 3):
        for progs in progs2:
            for adv in advs:
                add(cap, progs, adv, 2, 1)
    # (2) clock event free (placed at every position on top of 2 preemptions) for the one-op-per-thread programs
    for cap in (1, 2, 3):
        for progs in (progs2[0], progs2[4]):
            for adv in advs[1:]:
                add(cap, progs, adv, 2, 0)
    # (3) three threads
    progs3 = [(["x"], ["x"], ["x"]), (["x"], ["x"], ["y"]), (["x", "y"], ["x"], ["y"]), (["x", "x"], ["x"], ["x"])]
    for cap in (1, 2, 3):
        for progs in progs3:
            add(cap, progs, None, 2, 1)
    for cap in (2, 3):
        for progs in progs3[:2]:
            for adv in (TTL - 1, TTL + 1):
                add(cap, progs, adv, 2, 1)
    # (2b) two clock advances (see the quick tier), both orders of magnitude, capacities 2 and 3
    for cap in (2, 3):
        for adv2 in ([1.0, TTL - 1], [TTL - 1, 1.0], [1.0, TTL]):
            out.append({"cap": cap, "progs": [["y"], ["x"], ["x"]], "adv": adv2, "bound": 1, "env_cost": 0, "coarse": True})
    # (4) three preemptions
    for cap in (2, 3):
        for progs in progs2[:2]:
            add(cap, progs, None, 3, 1)
    return out


def make_setup(cfg: dict[str, Any]):
    from vgi_rpc.http._replay import NonceCache

    def setup(s: S.Sched) -> Any:
        clk = S.VClock(100.0)
        current: dict[int, dict[str, Any]] = {}

        def read_clock() -> float:
            t = s.current()
            now = clk.now
            if t is not None and t.id in current:
                current[t.id]["t"] = now  # the reading this operation actually took
            if cfg.get("coarse"):
                # coarse configurations (no line tracing): the one place that matters is made a scheduling point - between
                # an operation's clock reading and whatever it does next (lock acquisition, sweep, insert)
                S.point("clock-read")
            return now

        cache = NonceCache(ttl_seconds=TTL, capacity=cfg["cap"], clock=read_clock)
        cache._lock = S.CoopLock("nonce")  # type: ignore[assignment]
        world = {"cache": cache, "clk": clk, "ops": [], "maxlen": 0, "cap": cfg["cap"]}

        def worker(i: int, nonces: list[str]) -> None:
            for n in nonces:
                rec = {"task": i, "nonce": n, "inv": s.nsteps, "t": None, "ret": None, "res": None}
                world["ops"].append(rec)
                if not cfg.get("coarse"):
                    S.point(f"inv:{n}")  # (coarse configurations: the task's start and its clock reading are points already)
                rec["inv"] = s.nsteps
                current[s.current().id] = rec
                rec["res"] = cache.check_and_add(n)
                rec["ret"] = s.nsteps
                rec["t_ret"] = clk.now

        for i, nonces in enumerate(cfg["progs"]):
            s.spawn(lambda i=i, nonces=nonces: worker(i, nonces), f"w{i}")
        advs = cfg["adv"] if isinstance(cfg["adv"], list) else ([] if cfg["adv"] is None else [cfg["adv"]])
        for j, d in enumerate(advs):
            s.spawn(lambda d=d: clk.advance(d), f"clock{j}", env=True)

        def state() -> Any:
            n = len(cache._entries)
            if n > world["maxlen"]:
                world["maxlen"] = n
            return (tuple(cache._entries.items()), clk.now, tuple((o["task"], o["res"]) for o in world["ops"]))

        s.state_fn = state
        return world

    return setup


TRACE = S.trace_window(("http/_replay.py", "NonceCache.check_and_add"), ("http/_replay.py", "NonceCache._sweep"),
                       ("http/_replay.py", "NonceCache.__len__"))


def oracle(ctx: Ctx, cfg: dict[str, Any], x: S.Exec) -> Any:
    w = x.world
    ops = w["ops"]
    rep = {"cfg": cfg, **x.schedule()}
    tag = f"cap{cfg['cap']}"
    if x.deadlock:
        ctx.fail(f"deadlock:{tag}", f"deadlock in NonceCache under {cfg}", rep)
    for t in x.tasks:
        if t.exc is not None:
            ctx.fail(f"exception:{type(t.exc).__name__}", f"task {t.name} raised {t.exc!r} under {cfg}", rep)
    if w["maxlen"] > cfg["cap"]:
        ctx.fail("capacity-exceeded", f"cache held {w['maxlen']} entries with capacity {cfg['cap']} ({cfg})", rep)
    distinct = {o["nonce"] for o in ops}
    if len(distinct) < cfg["cap"] and not x.deadlock:
        for a, b in itertools.combinations([o for o in ops if o["res"] is True], 2):
            # weakest reading: both decisions were taken AND completed inside the window opened by the
            # earlier clock reading (a verifier stalled past the window between reading the clock and
            # deciding is judged at its completion time)
            if a["nonce"] == b["nonce"] and max(a["t_ret"], b["t_ret"]) < min(a["t"], b["t"]) + TTL:
                seq = a["ret"] is not None and b["inv"] is not None and (a["ret"] <= b["inv"] or b["ret"] <= a["inv"])
                ctx.fail(
                    "replay-accepted:" + ("sequential" if seq else "concurrent"),
                    f"nonce {a['nonce']!r} accepted twice within its window (clock {a['t']} and {b['t']}, ttl {TTL}), cfg {cfg}",
                    rep,
                )
    return tuple((o["task"], o["nonce"], o["res"]) for o in ops) + (w["maxlen"],)


def run(ctx: Ctx) -> None:
    ctx.extra.update({"schedules": 0, "max_bound_completed": 0, "configs": 0, "deadlocks": 0, "max_choice_points": 0})
    for cfg in configs(ctx):
        if not ctx.mine():
            continue
        st = S.explore(
            ctx, make_setup(cfg), lambda x, cfg=cfg: oracle(ctx, cfg, x), bound=cfg["bound"], label=str(cfg), trace=None if cfg.get("coarse") else TRACE,
            env_cost=cfg.get("env_cost", 1),
        )
        ctx.extra["schedules"] += st["schedules"]
        ctx.extra["configs"] += 1
        ctx.extra["deadlocks"] += st["deadlocks"]
        ctx.extra["max_choice_points"] = max(ctx.extra["max_choice_points"], st["max_points"])
        ctx.extra["max_bound_completed"] = max(ctx.extra["max_bound_completed"], st["bound_completed"])
        if st["bound_completed"] < cfg["bound"]:
            ctx.cap(f"bound {cfg['bound']} not completed for {cfg}")


def replay(ctx: Ctx, case: dict[str, Any]) -> None:
    cfg = case["cfg"]
    x = S.run_one(make_setup(cfg), case["choices"], None, trace=None if cfg.get("coarse") else TRACE, env_cost=cfg.get("env_cost", 1))
    oracle(ctx, cfg, x)

ENGINE = "E3-SCHED"
TECHNIQUE = "stateless model checking of the real NonceCache under a controlled thread scheduler, preemption-bounded (CHESS-style), line-granular points"
LEVEL_TEXT = (
    "Every schedule with <=2 (quick) / <=3 (thorough) preemptions of 2-3 real threads calling the real "
    "NonceCache.check_and_add, with the clock-advance event placed at every position, is executed and judged; "
    "this is the right level because the property quantifies over interleavings, which a free-running test samples once."
)
LEVEL_NOTE = "Granularity is one source line inside NonceCache; GIL-atomic bytecode inside a line is not split. Thread counts, nonce alphabet {x,y}, capacities 1..3 are the stated bounds."

"""C10 — Stream lifecycle: finish, exchange cardinality, cancel, headers (E1: programs x histories).

All cases run the real client and server in-process (MemTransport, OS pipe, unix socket, HTTP with
max_response_bytes in {None, 1, 10^6}); the server-side hook log (``prog.EVENTS`` / the local service's
``SEEN``) tells exactly which ``process`` / ``on_cancel`` calls ran.

A. finish: every producer step sequence up to length L (quick 2, thorough 3): the client receives exactly the
   emitted batches in order, the stream ends exactly at finish (emit+finish in one step still delivers its
   batch), and the state is processed exactly once per step up to and including the finishing step.
B. exchange cardinality: N inputs give exactly N outputs in order; an exchange step that calls finish(), or
   emits nothing, is reported as an error (never a silent end or a missing output).
C. input schema: the exchange state sees exactly the declared input schema.  Perturbed inputs: same,
   reordered columns, int32 for int64, float32 for float64 (coerced: same values, declared schema seen);
   extra column, missing column, renamed column (rejected: error, process not run with a different field set).
D. header: a declared header arrives exactly once, before any data, and is the value the method returned.
E. cancel after k in {0,1,2} outputs: cancel() itself raises nothing and surfaces no error; the cancel hook
   runs at most once; no ``process`` runs after cancel() was called; afterwards exchange()/iteration deliver no
   batch (they raise RpcError or end immediately); a second cancel() is a no-op.
"""

from __future__ import annotations

import json
from dataclasses import dataclass
from typing import Any, Protocol

import pyarrow as pa

from vf.core.runner import Ctx
from vf.kit import prog, progs
from vf.kit.transports import Conn

PROPERTY = "C10"
LEVEL = "exploration"
ENGINE = "E1-SEQ"
SHARDS = {"quick": 6, "thorough": 12}
RULE = (
    "parts A-E enumerate producer step sequences, exchange step sequences, 8 input-schema perturbations, header variants "
    "and cancel points k in {0,1,2}, each on every transport configuration; non-trivial = case that reached the stream "
    "loop on the server (a process/on_cancel/init hook fired); distinct = (part, transport, program, history)"
)
TECHNIQUE = "bounded-exhaustive enumeration of stream behaviours and client histories with a server-side hook monitor"
LEVEL_TEXT = (
    "Every stream behaviour of a finite grammar x every client history (consume k, cancel, close, perturbed input) is "
    "executed against the real implementation with a hook monitor on the server; the property quantifies over programs "
    "and histories."
)
LEVEL_NOTE = "Step sequences <=2/3, cancel after <=2 outputs, 8 schema perturbations; HTTP via the in-process WSGI client."
ASSUMPTIONS = ["hook log is read in-process (subprocess transport not used here)"]

from vgi_rpc.rpc import AnnotatedBatch, CallContext, ExchangeState, OutputCollector, RpcError, Stream  # noqa: E402

IN_AB = pa.schema([pa.field("a", pa.int64()), pa.field("b", pa.float64())])
OUT_S = pa.schema([pa.field("s", pa.float64())])
SEEN: list[Any] = []


@dataclass
class AbState(ExchangeState):
    """Exchange over two input columns; records the schema it is handed."""

    n: int = 0

    def exchange(self, input: AnnotatedBatch, out: OutputCollector, ctx: CallContext) -> None:
        """Record the schema and emit a+b."""
        SEEN.append(["process", input.batch.schema.names, [str(t) for t in input.batch.schema.types], input.batch.to_pydict()])
        self.n += 1
        a = input.batch.column("a").to_pylist()
        b = input.batch.column("b").to_pylist()
        out.emit(pa.RecordBatch.from_pydict({"s": [float(x) + float(y) for x, y in zip(a, b)]}, schema=OUT_S))


class AbSvc(Protocol):
    """Service with a two-column exchange."""

    def ab(self) -> Stream[AbState]:
        """Two-column exchange."""
        ...


class AbImpl:
    """Implementation."""

    def ab(self) -> Stream[AbState]:
        SEEN.append(["init"])
        return Stream(output_schema=OUT_S, state=AbState(), input_schema=IN_AB)


def transports(ctx: Ctx) -> list[dict[str, Any]]:
    t: list[dict[str, Any]] = [{"kind": "mem"}, {"kind": "pipe"}]
    if ctx.thorough:
        t.append({"kind": "unix"})
    for cap in (None, 1, 1_000_000):
        t.append({"kind": "http", "cap": cap})
    return t


def tname(t: dict[str, Any]) -> str:
    return t["kind"] + (f"(cap={t['cap']})" if t["kind"] == "http" else "")


def open_t(t: dict[str, Any], **kw: Any) -> Conn:
    if t["kind"] == "http":
        return Conn("http", http={"max_response_bytes": t["cap"]}, **kw)
    return Conn(t["kind"], **kw)


def nprocess() -> int:
    return sum(1 for e in prog.EVENTS if e[0] == "process")


# ---------------------------------------------------------------------------------- part A


def part_a(ctx: Ctx, t: dict[str, Any], conn: Conn) -> None:
    L = 2 if ctx.quick else 3
    for seq in progs.producer_step_seqs(L):
        call = prog.Call("produce", {"steps": progs.steps_of(seq)})
        del prog.EVENTS[:]
        del conn.trace[:]
        prog.run_call(conn.proxy, call, conn.trace)
        exp = prog.expected(call)
        m = prog.trace_matches(progs.data_of(exp), progs.data_of(conn.trace))
        # steps executed by the reference: every step up to and including the one that finishes/raises; a
        # sequence that runs off its end costs one extra (implicit finish) step
        term = bool(seq) and seq[-1] in progs.TERMINAL
        want_proc = len(seq) if term else len(seq) + 1
        got_proc = nprocess()
        case = {"part": "A", "transport": t, "seq": list(seq)}
        ctx.case(
            sample=case if ctx.evaluations % 400 == 3 else None,
            nontrivial=("A", tname(t), seq) if got_proc else None,
            outcome=("A", repr(progs.data_of(conn.trace))[:300], got_proc),
        )
        if m is not None:
            ctx.fail(f"A-batches:{t['kind']}:{'emit+finish' if seq and seq[-1] == 'EF' else 'seq'}", f"{tname(t)} producer {seq}: {m}", case)
        elif got_proc != want_proc:
            ctx.fail(
                f"A-process-count:{t['kind']}:{'over' if got_proc > want_proc else 'under'}",
                f"{tname(t)} producer {seq}: state processed {got_proc} times, expected {want_proc} (finish must end the stream exactly)",
                case,
            )


# ---------------------------------------------------------------------------------- part B


def part_b(ctx: Ctx, t: dict[str, Any], conn: Conn) -> None:
    shapes = {
        "X": [["echo", 2, None]],
        "LX": [["log", "INFO", "l", None], ["echo", 3, None]],
        "FIN": [["finish"]],
        "XFIN": [["echo", 2, None], ["finish"]],
        "NONE": [["log", "INFO", "only-log", None]],
    }
    import itertools

    L = 2 if ctx.quick else 3
    for n in range(1, L + 1):
        for seq in itertools.product(shapes, repeat=n):
            if any(s in ("FIN", "XFIN", "NONE") for s in seq[:-1]):
                continue
            call = prog.Call("exch", {"steps": [shapes[s] for s in seq]}, inputs=[[k + 1] for k in range(n)])
            del prog.EVENTS[:]
            del conn.trace[:]
            prog.run_call(conn.proxy, call, conn.trace)
            data = progs.data_of(conn.trace)
            batches = [e for e in data if e[0] == "batch"]
            errors = [e for e in data if e[0] == "error"]
            case = {"part": "B", "transport": t, "seq": list(seq)}
            ctx.case(
                sample=case if ctx.evaluations % 300 == 5 else None,
                nontrivial=("B", tname(t), seq) if nprocess() else None,
                outcome=("B", len(batches), bool(errors)),
            )
            bad_last = seq[-1] in ("FIN", "XFIN", "NONE")
            want_batches = n - 1 if bad_last else n
            if bad_last and not errors:
                ctx.fail(
                    f"B-{seq[-1].lower()}-not-refused:{t['kind']}",
                    f"{tname(t)} exchange {seq}: a step that {'finishes' if 'FIN' in seq[-1] else 'emits nothing'} was not reported as an error: {data}",
                    case,
                )
            elif len(batches) != want_batches or (not bad_last and errors):
                ctx.fail(f"B-cardinality:{t['kind']}", f"{tname(t)} exchange {seq}: {len(batches)} outputs for {n} inputs: {data}", case)
            else:
                for k, b in enumerate(batches):
                    if b[1].get("x") != [k + 1]:
                        ctx.fail(f"B-order:{t['kind']}", f"{tname(t)} exchange {seq}: output {k} answers {b[1]} not input {[k + 1]}", case)


# ---------------------------------------------------------------------------------- part C

PERTURB: dict[str, Any] = {
    "same": lambda: pa.RecordBatch.from_pydict({"a": [1, 2], "b": [0.5, 1.5]}, schema=IN_AB),
    "reordered": lambda: pa.RecordBatch.from_pydict({"b": [0.5, 1.5], "a": [1, 2]}, schema=pa.schema([IN_AB.field("b"), IN_AB.field("a")])),
    "a-int32": lambda: pa.RecordBatch.from_arrays([pa.array([1, 2], pa.int32()), pa.array([0.5, 1.5], pa.float64())], names=["a", "b"]),
    "b-float32": lambda: pa.RecordBatch.from_arrays([pa.array([1, 2], pa.int64()), pa.array([0.5, 1.5], pa.float32())], names=["a", "b"]),
    "reordered+narrow": lambda: pa.RecordBatch.from_arrays([pa.array([0.5, 1.5], pa.float32()), pa.array([1, 2], pa.int32())], names=["b", "a"]),
    "extra": lambda: pa.RecordBatch.from_arrays([pa.array([1, 2], pa.int64()), pa.array([0.5, 1.5], pa.float64()), pa.array([9, 9], pa.int64())], names=["a", "b", "c"]),
    "missing": lambda: pa.RecordBatch.from_arrays([pa.array([1, 2], pa.int64())], names=["a"]),
    "renamed": lambda: pa.RecordBatch.from_arrays([pa.array([1, 2], pa.int64()), pa.array([0.5, 1.5], pa.float64())], names=["a", "bb"]),
}
ACCEPT = {"same", "reordered", "a-int32", "b-float32", "reordered+narrow"}


def part_c(ctx: Ctx, t: dict[str, Any]) -> None:
    for first in ("good-then", "direct"):
        for name, mk in PERTURB.items():
            if first == "good-then" and t["kind"] != "http" and name != "same":
                # on a socket transport the client's input is ONE Arrow IPC stream with one schema: a
                # differently-shaped batch after a good one cannot be sent at all (the IPC writer refuses it)
                continue
            del SEEN[:]
            case = {"part": "C", "transport": t, "perturbation": name, "mode": first}
            err = None
            outs = []
            with open_t(t, protocol=AbSvc, impl=AbImpl()) as conn:
                try:
                    sess = conn.proxy.ab()
                    if first == "good-then":
                        outs.append(sess.exchange(AnnotatedBatch(batch=PERTURB["same"]())).batch.to_pydict())
                    outs.append(sess.exchange(AnnotatedBatch(batch=mk())).batch.to_pydict())
                    sess.close()
                except RpcError as e:
                    err = e
            procs = [e for e in SEEN if e[0] == "process"]
            ctx.case(
                sample=case if name in ("reordered", "extra") and first == "direct" else None,
                nontrivial=("C", tname(t), name, first) if SEEN else None,
                outcome=("C", name, err is None, len(procs)),
            )
            for p in procs:
                if p[1] != ["a", "b"] or p[2] != ["int64", "double"]:
                    ctx.fail(
                        f"C-state-saw-undeclared-schema:{name}",
                        f"{tname(t)} input {name}: the state was handed schema {p[1]}/{p[2]}, declared a:int64,b:double",
                        case,
                    )
            if name in ACCEPT:
                if err is not None:
                    ctx.fail(f"C-compatible-input-rejected:{name}:{t['kind']}", f"{tname(t)} input {name}: rejected with {err}", case)
                elif outs[-1] != {"s": [1.5, 3.5]}:
                    ctx.fail(f"C-coerced-values:{name}:{t['kind']}", f"{tname(t)} input {name}: output {outs[-1]}", case)
            else:
                want = 1 if first == "good-then" else 0
                if err is None:
                    ctx.fail(f"C-different-field-set-accepted:{name}:{t['kind']}", f"{tname(t)} input {name}: accepted, outputs {outs}", case)
                elif len(procs) != want:
                    ctx.fail(f"C-processed-rejected-input:{name}:{t['kind']}", f"{tname(t)} input {name}: process ran {len(procs)} times", case)


# ---------------------------------------------------------------------------------- part D


def part_d(ctx: Ctx, t: dict[str, Any], conn: Conn) -> None:
    for m, inputs in (("produce_h", []), ("exch_h", [[1], [2]])):
        for initlog in (False, True):
            for tag in (0, 7):
                sc: dict[str, Any] = {"hdr": tag, "steps": progs.steps_of(("LE", "E")) if m == "produce_h" else [[["echo", 2, None]]]}
                if initlog:
                    sc["init"] = [["log", "INFO", "il", None]]
                call = prog.Call(m, sc, inputs=inputs)
                del conn.trace[:]
                del prog.EVENTS[:]
                prog.run_call(conn.proxy, call, conn.trace)
                data = progs.data_of(conn.trace)
                hdrs = [i for i, e in enumerate(data) if e[0] == "header"]
                case = {"part": "D", "transport": t, "call": call.to_json()}
                ctx.case(nontrivial=("D", tname(t), m, initlog, tag) if prog.EVENTS else None, outcome=("D", tuple(hdrs)))
                if hdrs != [0] or data[0] != ["header", tag]:
                    ctx.fail(f"D-header:{t['kind']}:{m}", f"{tname(t)} {m}: header events at {hdrs} in {data}", case)


# ---------------------------------------------------------------------------------- part E


def part_e(ctx: Ctx, t: dict[str, Any], conn: Conn) -> None:
    steps5 = progs.steps_of(("E", "LE", "Em", "E", "E"))
    for m in ("produce", "produce_h", "exch", "exch_h"):
        if t.get("cap") == 1 and not m.startswith("produce"):
            continue
        for k in (0, 1, 2):
            del prog.EVENTS[:]
            del conn.trace[:]
            case = {"part": "E", "transport": t, "method": m, "k": k}
            sc: dict[str, Any] = {"steps": steps5} if m.startswith("produce") else {}
            if m.endswith("_h"):
                sc["hdr"] = 1
            problems: list[tuple[str, str]] = []
            try:
                sess = getattr(conn.proxy, m)(script=json.dumps(sc))
                it = iter(sess) if m.startswith("produce") else None
                for j in range(k):
                    if it is not None:
                        next(it)
                    else:
                        sess.exchange(prog.input_batch([j]))
                before = nprocess()
                try:
                    sess.cancel()
                except Exception as e:  # noqa: BLE001
                    problems.append(("cancel-raised", f"cancel() raised {type(e).__name__}: {e}"))
                after_cancel = nprocess()
                # further use must deliver nothing
                try:
                    if m.startswith("produce"):
                        ab = next(iter(sess))
                        problems.append(("use-after-cancel-delivered", f"iteration after cancel() delivered a batch {ab.batch.to_pydict()}"))
                    else:
                        ab = sess.exchange(prog.input_batch([99]))
                        problems.append(("use-after-cancel-delivered", f"exchange() after cancel() delivered {ab.batch.to_pydict()}"))
                except (RpcError, StopIteration):
                    pass
                try:
                    sess.cancel()
                except Exception as e:  # noqa: BLE001
                    problems.append(("second-cancel-raised", f"second cancel() raised {type(e).__name__}: {e}"))
                end = nprocess()
                ncancel = sum(1 for e in prog.EVENTS if e[0] == "on_cancel")
                if after_cancel != before or end != before:
                    problems.append(("process-after-cancel", f"process ran after cancel(): {before} -> {after_cancel} -> {end}"))
                if ncancel > 1:
                    problems.append(("on-cancel-twice", f"on_cancel ran {ncancel} times"))
                if any(e[0] == "error" for e in conn.trace):
                    problems.append(("error-surfaced", f"an error was surfaced: {conn.trace}"))
                if t.get("cap") != 1:
                    probe = conn.proxy.echo(n=31)
                    if probe != 31:
                        problems.append(("probe", f"probe after cancel returned {probe}"))
            except RpcError as e:
                problems.append(("rpc-error", f"unexpected RpcError {e}"))
            ctx.case(
                sample=case if k == 1 and m == "produce" else None,
                nontrivial=("E", tname(t), m, k) if prog.EVENTS else None,
                outcome=("E", m, k, tuple(p[0] for p in problems), sum(1 for e in prog.EVENTS if e[0] == "on_cancel")),
            )
            for key, msg in problems:
                ctx.fail(f"E-{key}:{t['kind']}:{'producer' if m.startswith('produce') else 'exchange'}", f"{tname(t)} {m} cancel after {k}: {msg}", case)


def run(ctx: Ctx) -> None:
    for t in transports(ctx):
        for part in "ABCDE":
            if t.get("cap") == 1 and part not in "AE":
                # a 1-byte wire cap is a chunking configuration for producers only; for unary/exchange it is
                # a hard limit that legitimately turns every result into an RpcError (C16)
                continue
            if not ctx.mine():
                continue
            if part == "C":
                part_c(ctx, t)
                continue
            with open_t(t) as conn:
                {"A": part_a, "B": part_b, "D": part_d, "E": part_e}[part](ctx, t, conn)


def replay(ctx: Ctx, case: dict[str, Any]) -> None:
    t = case["transport"]
    if case["part"] == "C":
        part_c(ctx, t)
        return
    with open_t(t) as conn:
        {"A": part_a, "B": part_b, "D": part_d, "E": part_e}[case["part"]](ctx, t, conn)

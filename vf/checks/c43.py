"""C43 — XFCC identity extraction is injection-proof (E1: exhaustive input grammar, ground truth by construction).

Headers are *rendered from structures* (list of elements, each a list of key/value pairs), so the element
boundaries, the selected element and every field value are known without parsing anything.  The real
``_parse_xfcc`` and the real ``mtls_authenticate_xfcc(select_element=first|last)`` callback (default identity
extraction and the ``validate=`` hook), fed with a real ``falcon.Request``, are compared with that ground truth.

Grammar (Envoy XFCC): ``element *("," element)``, element = ``pair *(";" pair)``, pair = ``Key=value``; a value is
  Q  a quoted string (``\\`` and ``"`` backslash-escaped) — may contain ``, ; = " \\`` and spaces;
  U  an unquoted token (no ``, ; "``, no leading/trailing blank; ``=`` and ``\\`` allowed);
  E  an unquoted token whose double quotes are written ``\\"`` (Envoy: "double quotes in the value are replaced
     by ``\\"``"; quoting is only required for ``, ; =``) — texts with ``"`` and without ``, ; = \\``.
  ``URI``/``By``/``Cert`` values are URL-encoded on the wire (expected value = percent-decoded), the other keys
  are literal.

Space: value TEXTS = all strings of <=3 (quick) / <=4 (thorough) atoms over {a , ; = " \\ space %2C}
(thorough adds %25 and 2C) + 14 injection payloads; each text × every legal render mode × hostile key/position
{Hash@0, Subject@1, Subject with CN prefix, URI@2, DNS@0, DNS@end, By@1, Cert@end} × target layout {with the fixed
identity pairs, solo} × (element count n in 1..3, target index j<n); the other elements carry fixed distinct
identities (Hash h_i, Subject CN=u_i, URI, DNS x2, By) with varying key case / blank padding.  Both
``select_element`` values.  Plus: a DN list for CN extraction, missing / empty / blank headers, and an enumerated
corpus of arbitrary strings (all strings of length <=3 over 11 nasty characters + long pathological ones) that
must yield an AuthContext or an AuthFailure and nothing else.

Oracle: (1) element count and every field of every element equal the ground truth (no split, no merge);
(2) principal/claims of the default extraction and the element handed to ``validate`` come from the selected
element only; (3) missing header -> proxy_required, header without any element (blanks/commas) ->
invalid_credential; (4) no other exception ever.

Weakest reading: a zero-length header value is accepted as either proxy_required or invalid_credential (many WSGI
servers cannot distinguish it from a missing header); ``None`` and ``""`` field values are identified; in E mode
the value may keep or drop the backslashes; a DN whose RDN value ends in an escaped backslash may yield "" or the CN.
"""

from __future__ import annotations

import itertools
from typing import Any

from vf.core.runner import Ctx

PROPERTY = "C43"
LEVEL = "exploration"
ENGINE = "E1-SEQ"
SHARDS = {"quick": 8, "thorough": 16}
RULE = (
    "all value texts of <=3/4 atoms over {a , ; = \" \\ space %2C (+%25,2C)} + payloads x legal render modes {Q,U,E} x 8 "
    "hostile key/positions x {full,solo} layout x (n<=3 elements, target index) x select{first,last}; + DN list, "
    "missing/empty/blank, enumerated arbitrary-string corpus. non-trivial class = (mode, key, set of special "
    "characters in the text, n, j); evaluation = one (header, select_element) decision"
)
TECHNIQUE = "exhaustive grammar enumeration with ground truth by construction (render, parse with the real code, compare)"
LEVEL_TEXT = (
    "Every header of the stated grammar is parsed by the real _parse_xfcc and authenticated by the real "
    "mtls_authenticate_xfcc callback and compared with the structure it was rendered from; exhaustive within the "
    "bound, appropriate for a pure string function whose risk is delimiter/escape confusion."
)
LEVEL_NOTE = "Atom alphabet and lengths are the bound; falcon.Request is real, the header is placed in the WSGI environ directly."
ASSUMPTIONS = [
    "quoted values escape both backslash and double quote with a backslash (the inverse of _unescape_quoted)",
    "zero-length header value may be reported as missing (proxy_required) or empty (invalid_credential)",
    "Subject/Hash/DNS values are literal (not URL-encoded); URI/By/Cert are percent-decoded once",
]

URL_KEYS = ("uri", "by", "cert")
FIELDS = ("hash", "cert", "subject", "uri", "dns", "by")


# ------------------------------------------------------------------------------------------------------
# ground truth helpers (independent of vgi_rpc)
# ------------------------------------------------------------------------------------------------------
_HEX = "0123456789abcdefABCDEF"


def ref_pct(t: str) -> str:
    out = []
    i = 0
    while i < len(t):
        if t[i] == "%" and i + 2 < len(t) and t[i + 1] in _HEX and t[i + 2] in _HEX:
            v = int(t[i + 1 : i + 3], 16)
            assert v < 128
            out.append(chr(v))
            i += 3
        else:
            out.append(t[i])
            i += 1
    return "".join(out)


def render_value(t: str, mode: str) -> str:
    if mode == "Q":
        return '"' + t.replace("\\", "\\\\").replace('"', '\\"') + '"'
    if mode == "U":
        return t
    if mode == "E":
        return t.replace('"', '\\"')
    raise AssertionError(mode)


def modes_for(t: str) -> list[str]:
    m = ["Q"]
    if t == t.strip() and not any(c in t for c in ',;"'):
        m.append("U")
    if t == t.strip() and '"' in t and not any(c in t for c in ",;=\\"):
        m.append("E")
    return m


KEYSTYLES = (lambda k: k, lambda k: k.lower(), lambda k: k.upper())


def fixed_pairs(i: int) -> list[tuple[str, str, str]]:
    """(key, wire value, expected value) of the identity element *i*."""
    p = [("Hash", f"h{i}", f"h{i}"), ("Subject", f'"CN=u{i},O=org{i}"', f"CN=u{i},O=org{i}"), ("URI", f"spiffe://e{i}/x", f"spiffe://e{i}/x")]
    if i == 1:
        p += [("DNS", "d1a.example", "d1a.example"), ("DNS", '"d1b.example"', "d1b.example")]
    if i == 2:
        p += [("By", "spiffe://proxy2%2Fp%3Bq", "spiffe://proxy2/p;q")]
    return p


def expected_element(pairs: list[tuple[str, str, Any]]) -> dict[str, Any]:
    e: dict[str, Any] = {"hash": "", "cert": "", "subject": "", "uri": "", "dns": [], "by": ""}
    for k, _w, v in pairs:
        lk = k.lower()
        if lk == "dns":
            e["dns"].append(v)
        else:
            e[lk] = v
    return e


def render_element(pairs: list[tuple[str, str, Any]], style: int) -> str:
    ks = KEYSTYLES[style % 3]
    sep = ";" if style % 2 == 0 else " ; "
    return sep.join(f"{ks(k)}={w}" for k, w, _v in pairs)


HOSTILE = ("Hash@0", "Subject@1", "SubjectCN", "URI@2", "DNS@0", "DNS@end", "By@1", "Cert@end")


def build_target(j: int, hk: str, t: str, mode: str, solo: bool) -> tuple[list[tuple[str, str, Any]], Any]:
    """Pairs of the target element and the expected principal (None = not checked)."""
    key = hk.split("@")[0]
    text = t
    if hk == "SubjectCN":
        key = "Subject"
        text = f"CN=s{j},O=" + t
    wire = render_value(text, mode)
    lk = key.lower()
    if mode == "E":
        cand = {text, wire}
        val: Any = frozenset(ref_pct(c) for c in cand) if lk in URL_KEYS else frozenset(cand)
    else:
        val = ref_pct(text) if lk in URL_KEYS else text
    hostile = (key, wire, val)
    base = [] if solo else fixed_pairs(j)
    if solo:
        pairs = [hostile]
    elif key in ("Hash", "Subject", "URI"):
        pairs = [hostile if k == key else (k, w, v) for k, w, v in base]
    elif hk == "DNS@0":
        pairs = [hostile] + base
    elif hk == "DNS@end":
        pairs = base + [hostile]
    elif key == "By":
        base = [p for p in base if p[0] != "By"]
        pairs = base[:1] + [hostile] + base[1:]
    else:  # Cert@end
        pairs = base + [hostile]
    if key == "Subject":
        if hk == "SubjectCN":
            principal: Any = f"s{j}"
        else:
            principal = "" if "CN=" not in text.upper() else None
    else:
        principal = "" if solo else f"u{j}"
    return pairs, principal


def legal(hk: str, t: str, mode: str) -> bool:
    if hk == "SubjectCN":
        # the prefix contains ',' and '=' -> only legal quoted
        return mode == "Q"
    return True


# ------------------------------------------------------------------------------------------------------
# real code
# ------------------------------------------------------------------------------------------------------
class Real:
    def __init__(self) -> None:
        import falcon
        import falcon.testing as ft

        from vgi_rpc.http import _mtls
        from vgi_rpc.http._unauthorized import AuthFailure
        from vgi_rpc.rpc import AuthContext

        self.falcon, self.ft, self.mtls = falcon, ft, _mtls
        self.AuthFailure, self.AuthContext = AuthFailure, AuthContext
        self.captured: list[Any] = []

        def validate(el: Any) -> Any:
            self.captured.append(el)
            return AuthContext(domain="v", authenticated=True, principal="validated", claims={})

        self.auth = {
            (sel, v): _mtls.mtls_authenticate_xfcc(select_element=sel, domain="xfcc-dom", **({"validate": validate} if v else {}))  # type: ignore[arg-type]
            for sel in ("first", "last") for v in (False, True)
        }
        self.base_env = ft.create_environ(path="/vgi/x", method="POST")

    def req(self, header: str | None) -> Any:
        env = dict(self.base_env)
        if header is not None:
            env["HTTP_X_FORWARDED_CLIENT_CERT"] = header
        return self.falcon.Request(env)

    def parse(self, header: str) -> Any:
        return self.mtls._parse_xfcc(header)

    def call(self, sel: str, validate: bool, req: Any) -> tuple[str, Any]:
        self.captured.clear()
        try:
            r = self.auth[(sel, validate)](req)
        except self.AuthFailure as e:
            return "fail", str(getattr(e.reason, "value", e.reason))
        except BaseException as e:  # noqa: BLE001
            if isinstance(e, (KeyboardInterrupt, SystemExit, MemoryError)):
                raise
            return "exc", f"{type(e).__name__}: {e!r:.200}"
        if not isinstance(r, self.AuthContext):
            return "exc", f"returned {type(r).__name__}"
        return "ctx", r


def elem_dict(el: Any) -> dict[str, Any]:
    return {"hash": el.hash or "", "cert": el.cert or "", "subject": el.subject or "", "uri": el.uri or "",
            "dns": [d for d in el.dns], "by": el.by or ""}


def field_ok(exp: Any, got: Any) -> bool:
    if isinstance(exp, frozenset):
        return got in exp
    return exp == got


def elem_diff(exp: dict[str, Any], got: dict[str, Any]) -> str | None:
    for f in FIELDS:
        if f == "dns":
            e, g = [x for x in exp["dns"] if x != ""], [x for x in got["dns"] if x != ""]
            if len(e) != len(g) or not all(field_ok(a, b) for a, b in zip(e, g)):
                return "dns"
        elif not field_ok(exp[f], got[f]):
            return f
    return None


def expected_claims(e: dict[str, Any]) -> dict[str, Any]:
    c: dict[str, Any] = {}
    for f in ("hash", "subject", "uri", "by"):
        if e[f] != "" and not (isinstance(e[f], frozenset) and "" in e[f]):
            c[f] = e[f]
    if [x for x in e["dns"] if x != ""]:
        c["dns"] = e["dns"]
    return c


def claims_ok(exp: dict[str, Any], got: dict[str, Any]) -> bool:
    got = dict(got)
    if "dns" in got:
        got["dns"] = [x for x in got["dns"] if x != ""]
        if not got["dns"]:
            del got["dns"]
    if set(exp) != set(got):
        return False
    for k, v in exp.items():
        if k == "dns":
            ev = [x for x in v if x != ""]
            if len(ev) != len(got[k]) or not all(field_ok(a, b) for a, b in zip(ev, got[k])):
                return False
        elif not field_ok(v, got[k]):
            return False
    return True


MODE_NAME = {"Q": "quoted", "U": "unquoted", "E": "unquoted-escaped-quote"}


def check_header(ctx: Ctx, real: Real, header: str, exp: list[dict[str, Any]], principals: list[Any], mode: str, cls: str,
                 desc: dict[str, Any], sample: bool = False) -> None:
    """Judge one rendered header against its ground truth for both select_element values."""
    mname = MODE_NAME.get(mode, mode)
    rep = {"kind": "structured", **desc, "header": header}
    try:
        got = [elem_dict(e) for e in real.parse(header)]
        perr = None
    except BaseException as e:  # noqa: BLE001
        if isinstance(e, (KeyboardInterrupt, SystemExit, MemoryError)):
            raise
        got, perr = [], f"{type(e).__name__}: {e!r:.200}"
    problems: list[tuple[str, str]] = []
    if perr is not None:
        problems.append(("exception", f"_parse_xfcc raised {perr}"))
    elif len(got) < len(exp):
        problems.append(("elements-merged", f"{len(exp)} elements rendered, {len(got)} parsed"))
    elif len(got) > len(exp):
        problems.append(("elements-split", f"{len(exp)} elements rendered, {len(got)} parsed"))
    else:
        for i, (e, g) in enumerate(zip(exp, got)):
            d = elem_diff(e, g)
            if d is not None:
                problems.append((f"field-{d}", f"element {i} field {d}: expected {e[d]!r}, parsed {g[d]!r}"))
                break
    req = real.req(header)
    for sel in ("first", "last"):
        idx = 0 if sel == "first" else len(exp) - 1
        kind, r = real.call(sel, False, req)
        outcome = kind
        if kind == "exc":
            problems.append(("exception", f"authenticate({sel}) raised {r}"))
        elif kind == "fail":
            problems.append(("rejected", f"authenticate({sel}) rejected a well-formed header: {r}"))
        else:
            want_claims = expected_claims(exp[idx])
            if r.domain != "xfcc-dom" or r.authenticated is not True:
                problems.append(("context", f"domain/authenticated wrong: {r}"))
            if principals[idx] is not None and r.principal != principals[idx]:
                problems.append((f"principal-{sel}", f"select={sel}: principal {r.principal!r}, the selected element's CN is {principals[idx]!r}"))
            elif not claims_ok(want_claims, dict(r.claims)):
                problems.append((f"claims-{sel}", f"select={sel}: claims {dict(r.claims)!r}, the selected element gives {want_claims!r}"))
            outcome = f"ctx:{r.principal}"[:16]
        if len(exp) > 1 or sel == "first":  # single element: the validate path is exercised once (select=first)
            kind2, r2 = real.call(sel, True, req)
            if kind2 != "ctx" or len(real.captured) != 1:
                problems.append(("validate-hook", f"select={sel}: validate path gave {kind2} {r2!r:.100}"))
            else:
                d = elem_diff(exp[idx], elem_dict(real.captured[0]))
                if d is not None:
                    problems.append((f"validate-{sel}", f"select={sel}: validate() received an element whose {d} is not the selected element's"))
        ctx.case(sample={**desc, "select": sel, "header": header[:200], "outcome": outcome} if sample else None,
                 nontrivial=cls, outcome=outcome)
    if problems:
        # one finding per header: the most fundamental discrepancy (later ones are its consequences)
        def rank(w: str) -> int:
            for i, p in enumerate(("exception", "elements-", "field-", "rejected", "context", "principal-", "claims-", "validate-")):
                if w.startswith(p):
                    return i
            return 99

        what, msg = min(problems, key=lambda x: rank(x[0]))
        if what.startswith("field-"):
            what = "value"
        ctx.fail(f"xfcc:{mname}:{what}", f"{msg}; header={header!r:.300} ({desc})", rep)


def texts(ctx: Ctx) -> list[str]:
    atoms = ["a", ",", ";", "=", '"', "\\", " ", "%2C"]
    maxlen = 3
    if ctx.thorough:
        atoms += ["%25", "2C"]
        maxlen = 4
    out = [""]
    for n in range(1, maxlen + 1):
        for tup in itertools.product(atoms, repeat=n):
            out.append("".join(tup))
    seen = set(out)
    payloads = [
        'x,Subject="CN=evil"', 'x;Subject="CN=evil";Hash=evil', 'x",Subject="CN=evil', 'x\\",Subject=\\"CN=evil', 'x\\\\",Hash="evil',
        'x\\', 'x\\\\', '","', '";"', 'x,Hash=evil,', ';;,,', 'x"', '"x', 'By=evil;URI=spiffe://evil',
    ]
    for p in payloads:
        if p not in seen:
            seen.add(p)
            out.append(p)
    # dedupe while keeping order ("%2C" vs "%"+"2C" spell the same text)
    res, s2 = [], set()
    for t in out:
        if t not in s2:
            s2.add(t)
            res.append(t)
    return res


def specials(t: str) -> str:
    return "".join(c for c in ',;="\\ %' if c in t)


def structured(ctx: Ctx, real: Real, t: str, ti: int) -> None:
    for mode in modes_for(t):
        for hk in HOSTILE:
            if not legal(hk, t, mode):
                continue
            for solo in (False, True):
                if solo and hk in ("DNS@end", "SubjectCN"):
                    continue  # same header as DNS@0 / not a different layout
                for n in (1, 2, 3):
                    for j in range(n):
                        pairs, principal = build_target(j, hk, t, mode, solo)
                        elems, princ, parts = [], [], []
                        for i in range(n):
                            if i == j:
                                elems.append(expected_element(pairs))
                                princ.append(principal)
                                parts.append(render_element(pairs, n + j))
                            else:
                                fp = fixed_pairs(i)
                                elems.append(expected_element(fp))
                                princ.append(f"u{i}")
                                parts.append(render_element(fp, i + n))
                        header = ("," if (n + j) % 2 == 0 else " , ").join(parts)
                        cls = f"{mode}{hk[:2]}{hk[-1]}{int(solo)}{n}{j}{specials(t)}"
                        desc = {"text": t, "mode": mode, "hostile": hk, "solo": solo, "n": n, "j": j}
                        check_header(ctx, real, header, elems, princ, mode, cls, desc,
                                     sample=(ti % 131 == 7 and hk == "Subject@1" and n == 3 and j == 1 and not solo))
                        ctx.extra["headers"] += 1


DNS_CASES: list[tuple[str, Any]] = []


def dn_cases() -> list[tuple[str, Any]]:
    rdns = [("CN=alice", "alice"), ("O=org", None), ("OU=a\\,CN=evil", None), ("OU=x y", None), ("cn=alice", "alice"), ("O=CN=evil", None),
            ("OU=b\\\\", "ESC")]
    out: list[tuple[str, Any]] = []
    for n in (1, 2, 3):
        for tup in itertools.permutations(rdns, n):
            cns = [c for _r, c in tup if c not in (None, "ESC")]
            if len(cns) > 1:
                continue
            for sep in (",", ", "):
                dn = sep.join(r for r, _c in tup)
                want: Any = cns[0] if cns else ""
                # an RDN ending in an escaped backslash directly before the separator: accept "" too
                idx = [i for i, (_r, c) in enumerate(tup) if c == "ESC"]
                if idx and idx[0] < len(tup) - 1 and cns:
                    nxt = tup[idx[0] + 1]
                    if nxt[1] not in (None, "ESC"):
                        want = frozenset([cns[0], ""])
                out.append((dn, want))
    return out


def run_dn(ctx: Ctx, real: Real, dn: str, want: Any) -> None:
    for n, j in ((1, 0), (2, 0), (2, 1)):
        parts = []
        for i in range(n):
            if i == j:
                parts.append("Hash=hh;Subject=" + render_value(dn, "Q"))
            else:
                parts.append(render_element(fixed_pairs(i + 1), 0))
        header = ",".join(parts)
        req = real.req(header)
        for sel in ("first", "last"):
            idx = 0 if sel == "first" else n - 1
            exp_p = want if idx == j else f"u{idx + 1}"
            kind, r = real.call(sel, False, req)
            ok = kind == "ctx" and field_ok(exp_p, r.principal) and (idx != j or r.claims.get("subject") == dn)
            why = "" if kind != "ctx" or field_ok(exp_p, r.principal) else "principal"
            if kind == "ctx" and not why and not ok:
                why = f"claims subject {r.claims.get('subject')!r} != DN"
            ctx.case(nontrivial=f"DN{n}{j}{sel[0]}{'E' if isinstance(want, frozenset) else ''}{'c' if want else 'n'}", outcome=f"{kind}:{getattr(r, 'principal', r)}"[:16],
                     sample={"dn": dn, "header": header, "select": sel, "principal": getattr(r, "principal", None)} if (dn.startswith("OU=a\\,CN=evil,CN") and n == 2 and j == 1 and sel == "last") else None)
            if not ok:
                esc = "escaped-comma" if "\\," in dn else "plain"
                ctx.fail(f"xfcc:dn:principal-{esc}",
                         f"select={sel}: DN {dn!r} -> {kind} {getattr(r, 'principal', r)!r}, expected CN {exp_p!r} ({why}); header={header!r}",
                         {"kind": "dn", "dn": dn, "want": sorted(want) if isinstance(want, frozenset) else want})


def arbitrary_corpus(ctx: Ctx) -> list[str]:
    chars = ['"', "\\", ",", ";", "=", " ", "a", "%", "\x00", "é", "\n"]
    out: list[str] = []
    for n in (1, 2, 3):
        for tup in itertools.product(chars, repeat=n):
            out.append("".join(tup))
    big = 1 << 16
    out += [
        '"' * big, "\\" * big, "," * big, ";" * big, "=" * big, 'a,' * (big // 2), '"\\' * (big // 2), 'Subject="' + "CN=a," * 10000,
        "Subject=" + "\\," * 20000 + "CN=x", "%" * 4096, "URI=%ZZ%", "URI=%FF%FE", "Cert=%", "Subject=CN=", "Subject", "=", "==", '=""', '="',
        'Subject="CN=a', 'Subject="CN=a\\', 'Subject=CN=a"', "Subject=CN=a\\", "DNS=;DNS=;DNS=", "Hash=a;Hash=b", "💥=💥", "Subject=CN=\ud800",
        "subject =CN=sp", " Subject = CN=sp ", "\tHash=a\t,\tHash=b\t", "Hash=a,\x0bHash=b", "Hash=a\r\n,Hash=b", "﻿Hash=a", "Hash=a,,Hash=b", ",Hash=a", "Hash=a,",
    ]
    return out


def run_arbitrary(ctx: Ctx, real: Real, s: str) -> None:
    req = real.req(s)
    blank = all(c in " \t,\n\r\x0b\x0c" for c in s) and s != ""
    for sel in ("first", "last"):
        for v in (False, True):
            kind, r = real.call(sel, v, req)
            if not v:
                ctx.case(nontrivial=f"A{sel[0]}{kind}{specials(s[:8])}{'L' if len(s) > 100 else len(s)}", outcome=f"arb:{kind}:{r if kind == 'fail' else ''}"[:16],
                         sample={"arbitrary": s[:60], "select": sel, "outcome": kind} if s in ('"\\,', "URI=%ZZ%") else None)
            rep = {"kind": "arbitrary", "header": s if len(s) < 500 else None, "head": s[:40], "len": len(s)}
            if kind == "exc":
                ctx.fail(f"xfcc:arbitrary:exception:{str(r).split(':')[0]}", f"select={sel} validate={v}: header {s[:80]!r} (len {len(s)}) -> {r}", rep)
            elif s == "":
                if not (kind == "fail" and r in ("proxy_required", "invalid_credential")):
                    ctx.fail("xfcc:empty:zero-length-not-rejected", f"zero-length header -> {kind} {r!r}", rep)
            elif blank:
                if not (kind == "fail" and r == "invalid_credential"):
                    ctx.fail("xfcc:empty:blank-not-invalid_credential", f"header without any element {s[:40]!r} -> {kind} {r!r:.100}", rep)


def run_missing(ctx: Ctx, real: Real) -> None:
    req = real.req(None)
    for sel in ("first", "last"):
        for v in (False, True):
            kind, r = real.call(sel, v, req)
            ctx.case(nontrivial=f"missing{sel[0]}{int(v)}", outcome=f"{kind}:{r}"[:16], sample={"header": None, "select": sel, "outcome": [kind, str(r)]} if not v and sel == "first" else None)
            if not (kind == "fail" and r == "proxy_required"):
                ctx.fail("xfcc:missing:not-proxy_required", f"missing header -> {kind} {r!r:.100}", {"kind": "missing"})


def run(ctx: Ctx) -> None:
    real = Real()
    ctx.extra.update({"headers": 0, "texts": 0, "dn_cases": 0, "arbitrary_strings": 0})
    for ti, t in enumerate(texts(ctx)):
        if not ctx.mine():
            continue
        structured(ctx, real, t, ti)
        ctx.extra["texts"] += 1
    for dn, want in dn_cases():
        if not ctx.mine():
            continue
        run_dn(ctx, real, dn, want)
        ctx.extra["dn_cases"] += 1
    for s in arbitrary_corpus(ctx):
        if not ctx.mine():
            continue
        run_arbitrary(ctx, real, s)
        ctx.extra["arbitrary_strings"] += 1
    if ctx.mine():
        run_missing(ctx, real)


def replay(ctx: Ctx, case: dict[str, Any]) -> None:
    real = Real()
    ctx.extra.update({"headers": 0, "texts": 0, "dn_cases": 0, "arbitrary_strings": 0})
    k = case.get("kind")
    if k == "structured":
        t, mode, hk, solo, n, j = case["text"], case["mode"], case["hostile"], case["solo"], case["n"], case["j"]
        pairs, principal = build_target(j, hk, t, mode, solo)
        elems, princ, parts = [], [], []
        for i in range(n):
            if i == j:
                elems.append(expected_element(pairs)); princ.append(principal); parts.append(render_element(pairs, n + j))
            else:
                fp = fixed_pairs(i)
                elems.append(expected_element(fp)); princ.append(f"u{i}"); parts.append(render_element(fp, i + n))
        header = ("," if (n + j) % 2 == 0 else " , ").join(parts)
        check_header(ctx, real, header, elems, princ, mode, "replay", {k2: case[k2] for k2 in ("text", "mode", "hostile", "solo", "n", "j")})
    elif k == "dn":
        w = case["want"]
        run_dn(ctx, real, case["dn"], frozenset(w) if isinstance(w, list) else w)
    elif k == "arbitrary":
        if case.get("header") is not None:
            run_arbitrary(ctx, real, case["header"])
        else:
            for s in arbitrary_corpus(ctx):
                if s[:40] == case["head"] and len(s) == case["len"]:
                    run_arbitrary(ctx, real, s)
    elif k == "missing":
        run_missing(ctx, real)
